#!/usr/bin/env python3
"""E4 (Python): drive the real jsonlogic_rs package built from the working tree.

usage: driver.py <c19|c01> <pkgdir> <jlmc-binary> <shard> <nshards> <quick|thorough> <outfile>

The oracle is the library itself reached through `jlmc oracle` (a pipe to the harness, built from
the same tree): any disagreement is introduced by the Python wrapper or the extension glue.
Writes a JSON result (leaves, outcomes, violations, samples) to <outfile>.
"""
import json, math, os, struct, subprocess, sys

mode, pkgdir, jlmc, shard, nshards, tier, outfile = sys.argv[1:8]
shard, nshards = int(shard), int(nshards)
thorough = tier == "thorough"
sys.path.insert(0, pkgdir)
import jsonlogic_rs  # noqa: E402  (the package under test)

TRACE = os.environ.get("JLMC_TRACE")  # set when the parent re-runs a shard to localise a crash / hang
PROG = os.environ.get("JLMC_PROG")
_prog_fd = os.open(PROG, os.O_WRONLY) if PROG and os.path.exists(PROG) else None
_ticks = 0


def tick():
    global _ticks
    _ticks += 1
    if _prog_fd is not None and _ticks % 64 == 0:
        os.pwrite(_prog_fd, struct.pack("<Q", (1 << 40) + _ticks), 0)


class Oracle:
    def __init__(self):
        env = dict(os.environ)
        env.pop("RUST_BACKTRACE", None)
        self.p = subprocess.Popen([jlmc, "oracle"], stdin=subprocess.PIPE, stdout=subprocess.PIPE, env=env, text=True, bufsize=1)
        self.cache = {}

    def ask(self, rule_text, data_text):
        k = (rule_text, data_text)
        if k not in self.cache:
            self.p.stdin.write(json.dumps({"rule": rule_text, "data": data_text}) + "\n")
            self.p.stdin.flush()
            line = self.p.stdout.readline()
            if not line:
                raise RuntimeError("oracle process ended")
            self.cache[k] = json.loads(line)
        return self.cache[k]


oracle = Oracle()
res = {"leaves": 0, "evaluations": 0, "states": 1, "transitions": 0, "outcomes": {}, "subspaces": {}, "violations": [], "violation_count": 0, "samples": [], "hashes": []}


def note(sub, cls):
    res["outcomes"][cls] = res["outcomes"].get(cls, 0) + 1
    res["subspaces"][sub] = res["subspaces"].get(sub, 0) + 1


def fail(sub, case, expected, actual):
    res["violation_count"] += 1
    if len(res["violations"]) < 40:
        res["violations"].append({"sub": sub, "case": case, "expected": expected, "actual": actual})


def safe(x):
    """make the result file strict JSON whatever the objects under test looked like"""
    if isinstance(x, dict):
        return {safe(k) if isinstance(k, str) else repr(k): safe(v) for k, v in x.items()}
    if isinstance(x, (list, tuple, set)):
        return [safe(v) for v in x]
    if isinstance(x, float) and not math.isfinite(x):
        return repr(x)
    if isinstance(x, str):
        return x.encode("utf-8", "backslashreplace").decode("utf-8")
    if x is None or isinstance(x, (bool, int, float)):
        return x
    return repr(x)


def strict_eq(a, b):
    """equality that keeps bool / int / float and list / tuple apart"""
    if type(a) is not type(b):
        return False
    if isinstance(a, dict):
        return a.keys() == b.keys() and all(strict_eq(a[k], b[k]) for k in a)
    if isinstance(a, (list, tuple)):
        return len(a) == len(b) and all(strict_eq(x, y) for x, y in zip(a, b))
    if isinstance(a, float):
        return a == b or (math.isnan(a) and math.isnan(b))
    return a == b


def describe(x):
    try:
        return json.loads(json.dumps(x))
    except Exception:
        return repr(x)


def run_case(sub, call_desc, fn, rule_text, data_text, post=None):
    """fn() is the call under test. Expected: post(json.loads(oracle ok text)) or ValueError."""
    tick()
    if TRACE:
        with open(TRACE, "w") as tf:
            json.dump(safe({"python_call": call_desc, "sub": sub}), tf)
    res["leaves"] += 1
    res["evaluations"] += 1
    res["transitions"] += 1
    res["states"] += 1
    exp = oracle.ask(rule_text, data_text) if rule_text is not None else {"bad_json": True}
    res["hashes"].append(sub + "|" + json.dumps(call_desc, sort_keys=True, default=repr))
    try:
        got = fn()
        outcome = ("value", got)
    except ValueError as e:
        outcome = ("ValueError", str(e)[:120])
    except BaseException as e:  # noqa: BLE001 - any other exception type is the finding
        outcome = ("other-exception", "%s: %s" % (type(e).__name__, str(e)[:160]))
    note(sub, outcome[0])
    if len(res["samples"]) < 6 and res["leaves"] % 211 == 1:
        res["samples"].append({"call": call_desc, "outcome": [outcome[0], describe(outcome[1])]})
    if outcome[0] == "other-exception":
        fail(sub, call_desc, "a value or ValueError", outcome[1])
        return
    if mode == "c01":
        return
    if "ok" in exp:
        want = json.loads(exp["ok"])
        want = post(exp["ok"], want) if post else want
        if outcome[0] != "value" or not strict_eq(outcome[1], want):
            fail(sub, call_desc, "value %r" % (want,), "%s %r" % outcome)
    elif "panic" in exp:
        pass  # the library itself panicked in-process: reported by C01's in-process space
    else:
        if outcome[0] != "ValueError":
            fail(sub, call_desc, "ValueError (library error or malformed text)", "%s %r" % outcome)


def dumps(o):
    return json.dumps(o)


# ---------------------------------------------------------------------------------------------
RULES = [
    None, True, False, 0, 1, -1, 1.5, "", "str", "é😀", [], [1, 2], {}, {"a": 1, "b": 2},
    {"var": ""}, {"var": "a"}, {"var": ["a.b", "dflt"]}, {"var": 0}, {"var": []},
    {"==": [{"var": "a"}, 1]}, {"===": [{"var": ""}, None]}, {"!": [{"var": ""}]}, {"<": [0, {"var": "a"}, 10]},
    {"+": [{"var": "a"}, 1]}, {"*": [{"var": ""}, 2]}, {"-": {"var": "a"}}, {"/": [1, {"var": "a"}]}, {"max": [{"var": "a"}, 3]},
    {"cat": ["<", {"var": ""}, ">"]}, {"substr": [{"var": ""}, -2]}, {"in": [{"var": ""}, [1, "x", None]]}, {"merge": [{"var": ""}, [1]]},
    {"if": [{"var": "a"}, "t", "f"]}, {"and": [{"var": "a"}, "x"]}, {"or": [{"var": ""}, "x"]},
    {"map": [{"var": ""}, {"+": [{"var": ""}, 1]}]}, {"filter": [{"var": ""}, {"var": ""}]},
    {"reduce": [{"var": ""}, {"+": [{"var": "current"}, {"var": "accumulator"}]}, 0]},
    {"all": [{"var": ""}, {"var": ""}]}, {"some": [{"var": ""}, {"var": ""}]}, {"none": [{"var": ""}, {"var": ""}]},
    {"missing": ["a", "b"]}, {"missing_some": [1, ["a", "b"]]}, {"log": {"var": ""}},
    {"+": ["x"]}, {"==": []}, {"var": [1, 2, 3]}, {"unknown": [1]},
    2 ** 53 + 1, 2 ** 63, 2 ** 64 - 1, 2 ** 64, -2 ** 63 - 1, -0.0, 1e308, float("nan"), float("inf"), "\ud800",
    (1, 2), {"var": ("a",)}, {1: "int key"}, {"cat": (1, "x")},
]
DATAS = [
    None, True, 0, 1, -1, 2.5, "", "héllo😀", [], [1, 2, 3], [0, "", None], {}, {"a": 1}, {"a": {"b": [1, 2]}}, {"a": 0}, {"a": None},
    (1, 2), {1: "x"}, 2 ** 63, 2 ** 64, -0.0, float("nan"), float("-inf"), "\udc00", [1, [2, [3]]], {"é": "ü"},
]
BAD_TEXTS = ["", "{", "nul", "'x'", "[1,", "NaN", "1 2", "{\"var\":}", "﻿1", "--1"]


def compact(o):
    return json.dumps(o, separators=(",", ":"))


def tagged(s):
    return ("D", s)


def c19():
    for ri, r in enumerate(RULES):
        if ri % nshards != shard:
            continue
        try:
            rt = dumps(r)
        except (TypeError, ValueError):
            continue
        desc_r = describe(r) if not isinstance(r, float) or math.isfinite(r) else repr(r)
        # omitted data means null
        run_case("apply(v)", {"f": "apply", "rule": desc_r}, lambda: jsonlogic_rs.apply(r), rt, "null")
        run_case("apply(v,None)", {"f": "apply", "rule": desc_r, "data": None}, lambda: jsonlogic_rs.apply(r, None), rt, "null")
        run_case("apply(value=v)", {"f": "apply", "rule": desc_r, "kw": "value"}, lambda: jsonlogic_rs.apply(value=r), rt, "null")
        run_case("apply_serialized(value=t)", {"f": "apply_serialized", "rule_text": rt, "kw": "value"}, lambda: jsonlogic_rs.apply_serialized(value=rt), rt, "null")
        run_case("apply_serialized(t)", {"f": "apply_serialized", "rule_text": rt}, lambda: jsonlogic_rs.apply_serialized(rt), rt, "null")
        run_case("apply_serialized(t,None)", {"f": "apply_serialized", "rule_text": rt, "data": None}, lambda: jsonlogic_rs.apply_serialized(rt, None), rt, "null")
        run_case("apply_serialized(t,deserializer=)", {"f": "apply_serialized", "rule_text": rt, "deserializer": "tagged"},
                 lambda: jsonlogic_rs.apply_serialized(rt, deserializer=tagged), rt, "null", post=lambda text, v: ("D", text))
        for d in DATAS:
            try:
                dt = dumps(d)
            except (TypeError, ValueError):
                continue
            desc_d = describe(d) if not isinstance(d, float) or math.isfinite(d) else repr(d)
            base = {"rule": desc_r, "data": desc_d}
            run_case("apply(v,d)", dict(base, f="apply"), lambda: jsonlogic_rs.apply(r, d), rt, dt)
            run_case("apply(v,data=d)", dict(base, f="apply", kw=True), lambda: jsonlogic_rs.apply(r, data=d), rt, dt)
            # every parameter by keyword (the first parameter is called `value`), in both orders
            run_case("apply(value=v,data=d)", dict(base, f="apply", kw="all"), lambda: jsonlogic_rs.apply(value=r, data=d), rt, dt)
            run_case("apply(data=d,value=v)", dict(base, f="apply", kw="all-reversed"), lambda: jsonlogic_rs.apply(data=d, value=r), rt, dt)
            run_case("apply_serialized(value=t,data=dt)", dict(f="apply_serialized", rule_text=rt, data_text=dt, kw="all"), lambda: jsonlogic_rs.apply_serialized(value=rt, data=dt), rt, dt)
            run_case("apply_serialized(t,dt,deserializer=)", dict(f="apply_serialized", rule_text=rt, data_text=dt, deserializer="tagged", kw="deserializer"),
                     lambda: jsonlogic_rs.apply_serialized(rt, dt, deserializer=tagged), rt, dt, post=lambda text, v: ("D", text))
            run_case("apply(v,d,serializer)", dict(base, f="apply", serializer="compact"), lambda: jsonlogic_rs.apply(r, d, compact), compact(r), compact(d))
            run_case("apply(v,d,None,deserializer)", dict(base, f="apply", deserializer="tagged"),
                     lambda: jsonlogic_rs.apply(r, d, None, tagged), rt, dt, post=lambda text, v: ("D", text))
            run_case("apply(v,d,serializer,deserializer)", dict(base, f="apply", serializer="compact", deserializer="tagged"),
                     lambda: jsonlogic_rs.apply(r, d, serializer=compact, deserializer=tagged), compact(r), compact(d), post=lambda text, v: ("D", text))
            run_case("apply_serialized(t,dt)", dict(f="apply_serialized", rule_text=rt, data_text=dt), lambda: jsonlogic_rs.apply_serialized(rt, dt), rt, dt)
            run_case("apply_serialized(t,data=dt)", dict(f="apply_serialized", rule_text=rt, data_text=dt, kw=True), lambda: jsonlogic_rs.apply_serialized(rt, data=dt), rt, dt)
            run_case("apply_serialized(t,dt,deserializer)", dict(f="apply_serialized", rule_text=rt, data_text=dt, deserializer="tagged"),
                     lambda: jsonlogic_rs.apply_serialized(rt, dt, tagged), rt, dt, post=lambda text, v: ("D", text))
            run_case("apply_serialized(t,dt,None)", dict(f="apply_serialized", rule_text=rt, data_text=dt, deserializer=None),
                     lambda: jsonlogic_rs.apply_serialized(rt, dt, None), rt, dt)
        # malformed texts on either side, and serializers that return malformed JSON
        for bad in BAD_TEXTS:
            run_case("apply_serialized(bad,dt)", dict(f="apply_serialized", rule_text=bad, data_text="1"), lambda: jsonlogic_rs.apply_serialized(bad, "1"), bad, "1")
            run_case("apply_serialized(t,bad)", dict(f="apply_serialized", rule_text=rt, data_text=bad), lambda: jsonlogic_rs.apply_serialized(rt, bad), rt, bad)
            run_case("apply(v,d,bad-serializer)", dict(f="apply", rule=desc_r, serializer="returns " + bad), lambda: jsonlogic_rs.apply(r, 1, lambda o: bad), bad, bad)


def c19_unencodable():
    """texts that are not Unicode text at all (lone surrogates): malformed input, so ValueError - never a
    value computed from a silently altered text"""
    texts = ['"\ud800"', '"a\udfffb"', '{"var":"k\udc00"}', '\ud800', '["\ud83d"]', '{"k\udc00":1,"k\ufffd":2}', '"\ud83d\ude00"[::-1]']
    texts[-1] = '"' + "\ude00\ud83d" + '"'   # a reversed surrogate pair
    for i, t in enumerate(texts):
        if i % nshards != shard:
            continue
        d = {"text": ascii(t)}
        run_case("apply_serialized(unencodable)", dict(d, f="apply_serialized", pos="rule"), lambda: jsonlogic_rs.apply_serialized(t), None, None)
        run_case("apply_serialized(t,unencodable)", dict(d, f="apply_serialized", pos="data"), lambda: jsonlogic_rs.apply_serialized('{"var":""}', t), None, None)
        run_case("apply_serialized(t,data=unencodable)", dict(d, f="apply_serialized", pos="data", kw=True), lambda: jsonlogic_rs.apply_serialized('{"var":"k"}', data=t), None, None)
        run_case("apply_serialized(unencodable,dt,deserializer)", dict(d, f="apply_serialized", pos="rule", deserializer="tagged"), lambda: jsonlogic_rs.apply_serialized(t, "1", tagged), None, None)
        run_case("apply(v,d,unencodable-serializer)", dict(d, f="apply", serializer="returns it"), lambda: jsonlogic_rs.apply({"var": ""}, 1, lambda o: t), None, None)
        # a surrogate PAIR held as two code points is a spelling of one astral character: the default serializer
        # escapes both halves and the decoder joins them
        pair = "\ud83d\ude00"
        for rule, data in (({"var": ""}, pair), ({"var": "\U0001f600"}, {pair: 5}), (pair, None), ({"cat": [pair, {"var": ""}]}, "x" + pair), ({"in": ["\U0001f600", {"var": ""}]}, pair)):
            rt, dt = json.dumps(rule), json.dumps(data)
            run_case("apply(surrogate-pair)", dict(d, f="apply", rule=ascii(rule), data=ascii(data)), lambda: jsonlogic_rs.apply(rule, data), rt, dt)
            run_case("apply_serialized(surrogate-pair-escapes)", dict(d, f="apply_serialized", rule=ascii(rule), data=ascii(data)), lambda: jsonlogic_rs.apply_serialized(rt, dt), rt, dt)
        # the same characters inside Python values: the default serializer escapes them, and a lone-surrogate
        # escape is not JSON text either; a serializer that keeps them raw yields an unencodable text
        v = "x\ud800y"
        for rule, data in (({"cat": [v, 1]}, None), ({"var": "k"}, {"k": v}), ({"var": v}, {v: 1}), (v, None)):
            rt, dt = json.dumps(rule), json.dumps(data)
            run_case("apply(surrogate-in-value)", dict(d, f="apply", rule=ascii(rule), data=ascii(data)), lambda: jsonlogic_rs.apply(rule, data), rt, dt)
            run_case("apply(surrogate-in-value,raw-serializer)", dict(d, f="apply", rule=ascii(rule), data=ascii(data), serializer="ensure_ascii=False"),
                     lambda: jsonlogic_rs.apply(rule, data, lambda o: json.dumps(o, ensure_ascii=False)), None, None)


CONFUSABLE = [
    ("a\r\nb", "a\nb"), ("\r\n", "\n"), ("a\n", "a"), ("\u00e9", "e\u0301"), ("\u00c5", "\u212b"), ("\u1e69", "s\u0323\u0307"),
    ("\uac00", "\u1100\u1161"), ("a", "A"), ("\u00df", "ss"), ("k", "\u212a"), ("a ", "a"), (" a", "a"), ("a\tb", "a b"),
    ("a\u00a0b", "a b"), ("01", "1"), ("+1", "1"), ("1.0", "1"), ("a\u0000", "a"), ("\ufeffa", "a"), ("\uff11", "1"), ("\uff41", "a"),
    ("\ufb01", "fi"), ("a\u200db", "ab"), ("a\u00adb", "ab"), ("a\\nb", "a\nb"), ("a\\u0041", "aA"), ("%41", "A"), ("a.b", "a\\.b"),
    ("\u2126", "\u03a9"), ("\u0958", "\u0915\u093c"), ("\U0001d15e", "\U0001d157\U0001d165"), ("\u1e9b\u0323", "\u017f\u0323\u0307"),
]


def raw_dumps(o):
    return json.dumps(o, ensure_ascii=False)


def c19_text_fidelity():
    """strings travel through the wrapper code point for code point: nothing is normalised, folded, trimmed or
    unescaped on the way in or out, whether the text is ASCII-escaped (default serializer) or raw"""
    for i, (x, y) in enumerate(CONFUSABLE):
        if i % nshards != shard:
            continue
        for a, b in ((x, y), (y, x)):
            cases = (
                (a, None),
                ({"var": a}, {a: "under-a", b: "under-b"}),
                ({"var": [a, "dflt"]}, {b: "under-b"}),
                ({"===": [{"var": "x"}, b]}, {"x": a}),
                ({"cat": [a, "|", {"var": ""}]}, b),
                ({"in": [a, {"var": ""}]}, [b, "x"]),
                ({"missing": [a, b]}, {b: 1}),
                ({"var": ""}, {a: b, "k": [a, b]}),
                ({"substr": [{"var": ""}, -1]}, a),
            )
            for rule, data in cases:
                d = {"rule": ascii(rule), "data": ascii(data)}
                for name, ser in (("escaped", json.dumps), ("raw", raw_dumps)):
                    rt, dt = ser(rule), ser(data)
                    run_case("fidelity:apply_serialized(%s)" % name, dict(d, f="apply_serialized", texts=name), lambda: jsonlogic_rs.apply_serialized(rt, dt), rt, dt)
                    run_case("fidelity:apply_serialized(%s,deserializer)" % name, dict(d, f="apply_serialized", texts=name, deserializer="tagged"),
                             lambda: jsonlogic_rs.apply_serialized(rt, dt, tagged), rt, dt, post=lambda text, v: ("D", text))
                    run_case("fidelity:apply(serializer=%s)" % name, dict(d, f="apply", serializer=name), lambda: jsonlogic_rs.apply(rule, data, ser), rt, dt)
                run_case("fidelity:apply", dict(d, f="apply"), lambda: jsonlogic_rs.apply(rule, data), json.dumps(rule), json.dumps(data))


WS_NOT_JSON = ["\x0b", "\x0c", "\x85", "\xa0", "\u1680", "\u2000", "\u2003", "\u200a", "\u2028", "\u2029", "\u202f", "\u205f", "\u3000", "\ufeff", "\u200b", "\x1c", "\x00", "\x1f"]


def c19_padding():
    """a JSON text padded with white space that is not JSON white space is malformed: ValueError through every
    way a text reaches the library (both texts of apply_serialized, a serializer's output)"""
    for i, c in enumerate(WS_NOT_JSON):
        if i % nshards != shard:
            continue
        for body in ('{"var":"a"}', '1', '"s"', '[1,2]'):
            for t in (c + body, body + c, " " + body + c + "\n", c + " " + body):
                d = {"text": ascii(t)}
                run_case("padded:apply_serialized(rule)", dict(d, f="apply_serialized", pos="rule"), lambda: jsonlogic_rs.apply_serialized(t, '{"a":1}'), t, '{"a":1}')
                run_case("padded:apply_serialized(rule-only)", dict(d, f="apply_serialized", pos="rule", data="omitted"), lambda: jsonlogic_rs.apply_serialized(t), t, "null")
                run_case("padded:apply_serialized(data)", dict(d, f="apply_serialized", pos="data"), lambda: jsonlogic_rs.apply_serialized('{"var":""}', t), '{"var":""}', t)
                run_case("padded:apply(serializer)", dict(d, f="apply", serializer="pads its output"), lambda: jsonlogic_rs.apply({"var": "a"}, {"a": 1}, lambda o: t), t, t)
        # JSON white space proper is fine
        for t in (" \t\r\n1\n ", "\n{\"var\" : \"a\"}\r\n"):
            run_case("padded:json-whitespace", dict(f="apply_serialized", text=ascii(t)), lambda: jsonlogic_rs.apply_serialized(t, ' {"a" : 2} '), t, ' {"a" : 2} ')


def c19_large_twins():
    """consecutive calls whose texts have the same (large) length and different contents: each call is a function of
    its own arguments (no text, parse result or buffer is carried over by length, address or position)"""
    if shard != 0:
        return
    for size in (1100, 4096, 70000):
        pad = "x" * size
        for i in range(10):
            rule = {"cat": [str(i), {"var": "s"}, pad]}
            data = {"s": "-", "n": i, "pad": pad}
            d = {"size": size, "i": i}
            run_case("large-twins:apply(rule varies)", dict(d, f="apply"), lambda: jsonlogic_rs.apply(rule, {"s": "-"}), json.dumps(rule), '{"s": "-"}')
            run_case("large-twins:apply(data varies)", dict(d, f="apply"), lambda: jsonlogic_rs.apply({"var": "n"}, data), '{"var": "n"}', json.dumps(data))
            run_case("large-twins:apply_serialized(data varies)", dict(d, f="apply_serialized"),
                     lambda: jsonlogic_rs.apply_serialized('{"var":"n"}', json.dumps({"n": i, "pad": pad})), '{"var":"n"}', json.dumps({"n": i, "pad": pad}))
            run_case("large-twins:apply_serialized(rule varies)", dict(d, f="apply_serialized"),
                     lambda: jsonlogic_rs.apply_serialized(json.dumps({"cat": [str(i), pad]})), json.dumps({"cat": [str(i), pad]}), "null")
        # a malformed text right after a well-formed one of the same length, and back
        good = json.dumps({"cat": ["g", pad]})
        bad = good[:-1] + " "
        for k in range(4):
            run_case("large-twins:good", dict(size=size, k=k, f="apply_serialized"), lambda: jsonlogic_rs.apply_serialized(good), good, "null")
            run_case("large-twins:bad-same-length", dict(size=size, k=k, f="apply_serialized"), lambda: jsonlogic_rs.apply_serialized(bad), bad, "null")
            run_case("large-twins:bad-data-same-length", dict(size=size, k=k, f="apply_serialized"), lambda: jsonlogic_rs.apply_serialized('{"var":""}', bad), '{"var":""}', bad)
            run_case("large-twins:good-data", dict(size=size, k=k, f="apply_serialized"), lambda: jsonlogic_rs.apply_serialized('{"var":"cat.0"}', good), '{"var":"cat.0"}', good)


def c19_long_floats():
    """floats whose shortest text has 16-17 significant digits (a fixed pseudo-random corpus): the extension reads
    number texts exactly as the library does, so both compute with the same doubles"""
    x = 0x9e3779b97f4a7c15
    vals = []
    for i in range(400):
        x = (x * 6364136223846793005 + 1442695040888963407) % (1 << 64)
        m = x / float(1 << 64)
        vals.append([m * 1000.0, m * 1e13, m, m * 1e-7, -m * 99.0, (m + 1.0) * 1e21][i % 6])
    vals += [985.6906946328695, 212.91890726713459, 479.60756426982596, 92.42132512813595, 30620278683873.805, 0.9999999999999999]
    for i, f in enumerate(vals):
        if i % nshards != shard:
            continue
        d = {"float": repr(f)}
        run_case("long-float:apply(rule)", dict(d, f="apply"), lambda: jsonlogic_rs.apply(f), json.dumps(f), "null")
        run_case("long-float:apply(data)", dict(d, f="apply"), lambda: jsonlogic_rs.apply({"var": "a"}, {"a": f, "b": [f]}), '{"var": "a"}', json.dumps({"a": f, "b": [f]}))
        run_case("long-float:apply(compare)", dict(d, f="apply"), lambda: jsonlogic_rs.apply({"===": [{"var": "a"}, f]}, {"a": f}), json.dumps({"===": [{"var": "a"}, f]}), json.dumps({"a": f}))
        run_case("long-float:apply_serialized", dict(d, f="apply_serialized"), lambda: jsonlogic_rs.apply_serialized('{"*":[1,%r]}' % f), '{"*":[1,%r]}' % f, "null")


JSON_SPELLING_STRINGS = ['{"a": 1}', '[]', '{}', '{"var": "a"}', '[1,2]', ' [1] ', '{"var":""}', '"quoted"', '[{"var":"a"}]', 'null', '1', 'true', '{"a":1}\n', '[[', '{"+":["x"]}']
TEMPLATE_STRINGS = ["%s", "%d", "%(k)s", "%", "%%", "100%", "%5.2f", "{}", "{0}", "{k}", "{", "}", "${a}", "$a", "\\n", "\\u0041", "%c", "%r", "{!r}", "%*d", "%n"]


def c19_strings_are_strings():
    """a Python str is a JSON string whatever it spells (JSON text, format directives, templates): as the whole rule,
    the whole data, inside them - and when it ends up quoted in a library error, the error is still a ValueError"""
    for i, t in enumerate(JSON_SPELLING_STRINGS):
        if i % nshards != shard:
            continue
        d = {"string": t}
        for rule, data in ((t, None), ({"var": ""}, t), ({"var": "a"}, t), ({"cat": [{"var": ""}, "!"]}, t), (t, {"a": 1}), ({"===": [{"var": ""}, t]}, t), ({"var": "k"}, {"k": t}), ([t], None)):
            rt, dt = json.dumps(rule), json.dumps(data)
            run_case("strings:apply", dict(d, f="apply", rule=ascii(rule), data=ascii(data)), lambda: jsonlogic_rs.apply(rule, data), rt, dt)
            run_case("strings:apply_serialized", dict(d, f="apply_serialized", rule=ascii(rule), data=ascii(data)), lambda: jsonlogic_rs.apply_serialized(rt, dt), rt, dt)
            run_case("strings:apply(raw serializer)", dict(d, f="apply", rule=ascii(rule), data=ascii(data), serializer="raw"), lambda: jsonlogic_rs.apply(rule, data, raw_dumps), raw_dumps(rule), raw_dumps(data))
    for i, t in enumerate(TEMPLATE_STRINGS):
        if i % nshards != shard:
            continue
        d = {"string": t}
        for rule, data in (({"+": [t]}, None), ({"*": [{"var": "a"}, 2]}, {"a": "x" + t}), ({"in": [1, {"var": ""}]}, {"k": t}), ({"substr": [t]}, None), ({"var": [[t]]}, None), ({"/": [1, t]}, None),
                           ({"max": [t, 1]}, None), ({"map": [t, 1]}, None), ({"missing_some": [t, []]}, None), (t, None), ({"cat": [t, {"var": ""}]}, t), ({"%": [7, t]}, None), ({"all": [{"var": ""}, 1]}, {t: 1})):
            rt, dt = json.dumps(rule), json.dumps(data)
            run_case("templates:apply", dict(d, f="apply", rule=ascii(rule), data=ascii(data)), lambda: jsonlogic_rs.apply(rule, data), rt, dt)
            run_case("templates:apply_serialized", dict(d, f="apply_serialized", rule=ascii(rule), data=ascii(data)), lambda: jsonlogic_rs.apply_serialized(rt, dt), rt, dt)
            run_case("templates:apply_serialized(deserializer)", dict(d, f="apply_serialized", rule=ascii(rule), data=ascii(data), deserializer="tagged"), lambda: jsonlogic_rs.apply_serialized(rt, dt, tagged), rt, dt, post=lambda text, v: ("D", text))
        # malformed texts holding the directive
        run_case("templates:bad-text", dict(d, f="apply_serialized"), lambda: jsonlogic_rs.apply_serialized('{"var": ' + t), '{"var": ' + t, "null")
        run_case("templates:bad-data-text", dict(d, f="apply_serialized"), lambda: jsonlogic_rs.apply_serialized('{"var":""}', '["' + t), '{"var":""}', '["' + t)


def c19_result_ownership():
    """what a call returns belongs to the caller: changing a returned list / dict afterwards does not change what
    later calls return (results are built per call, never shared)"""
    if shard != 0:
        return
    cases = [({"missing": ["name", "email"]}, {"name": 1, "email": 2}), ({"filter": [{"var": "xs"}, False]}, {"xs": [1, 2]}), ({"merge": []}, None), ({"var": ""}, {}), ({"var": ""}, []), ({"var": "o"}, {"o": {}}),
             ({"var": ""}, [1]), ({"var": ""}, {"a": 1}), ({"map": [[], 1]}, None), ({"var": ""}, ""), ({"var": ""}, None), ({"var": ""}, 0), ({"var": ""}, True), ({"cat": []}, None), ({"missing_some": [1, []]}, None)]
    for round_ in range(3):
        for rule, data in cases:
            rt, dt = json.dumps(rule), json.dumps(data)
            for name, fn in (("apply", lambda: jsonlogic_rs.apply(rule, data)), ("apply_serialized", lambda: jsonlogic_rs.apply_serialized(rt, dt)), ("apply_serialized(text only)", lambda: jsonlogic_rs.apply_serialized(json.dumps(jsonlogic_rs.apply(rule, data))))):
                holder = []
                def call_and_keep(fn=fn, holder=holder):
                    r = fn()
                    holder.append(r)
                    return r
                run_case("ownership:%s" % name, dict(f=name, rule=ascii(rule), data=ascii(data), round=round_), call_and_keep, rt if name != "apply_serialized(text only)" else json.dumps(json.loads(oracle.ask(rt, dt).get("ok", "null"))), dt if name != "apply_serialized(text only)" else "null")
                # the caller now edits what it got
                for r in holder:
                    if isinstance(r, list):
                        r.append("edited-by-caller")
                    elif isinstance(r, dict):
                        r["edited-by-caller"] = True


def c19_long_errors():
    """library errors that quote long non-ASCII content must still be ValueError"""
    units = ["é", "€", "水", "😀", "z"]
    i = 0
    for u in units:
        for n in (40, 200, 343, 600, 3000, 22000, 40000):
            for shift in range(4):
                i += 1
                if i % nshards != shard:
                    continue
                s_ = "a" * shift + u * n
                for rule, data in (({"+": [s_]}, None), ({"+": [{"var": "s"}]}, {"s": s_}), ({"substr": [1, s_]}, None), ({"in": [1, s_]}, None),
                                   ({"map": [s_, 1]}, None), ({"max": [{"var": ""}, 1]}, s_), ({"missing_some": [s_, []]}, None), ({s_: 1, "+": 2}, None)):
                    rt, dt = dumps(rule), dumps(data)
                    run_case("apply:long-error", {"f": "apply", "rule_kind": list(rule.keys())[0] if isinstance(rule, dict) else "lit", "unit": u, "n": n, "shift": shift},
                             lambda: jsonlogic_rs.apply(rule, data), rt, dt)
                    run_case("apply_serialized:long-error", {"f": "apply_serialized", "rule_kind": list(rule.keys())[0] if isinstance(rule, dict) else "lit", "unit": u, "n": n, "shift": shift},
                             lambda: jsonlogic_rs.apply_serialized(rt, dt), rt, dt)


def c01():
    big = [None, True, 0, -0.0, 1.5, -2 ** 63, 2 ** 63 - 1, 2 ** 63, 2 ** 64 - 1, 2 ** 64, -2 ** 64, 10 ** 400, 1.7976931348623157e308, 5e-324,
           "", "a", "\x00", "héllo水😀", "-9223372036854775808", "1e1000", "a.b..c\\", "\\", [], [None], [1, [2]], [-2 ** 63], {}, {"a": {"b": [1, 2, {"c": "d"}]}},
           "z" * 10000, "水" * 3000, float("nan"), float("inf"), "\ud800"]
    ops = ["==", "!=", "===", "!==", "!", "!!", "<", "<=", ">", ">=", "+", "-", "*", "/", "%", "max", "min", "merge", "in", "cat", "substr",
           "var", "missing", "missing_some", "if", "?:", "or", "and", "map", "filter", "reduce", "all", "some", "none"]
    i = 0
    for op in ops:
        for a in big:
            i += 1
            if i % nshards != shard:
                continue
            run_case("py:extremes:1", {"op": op, "a": repr(a)[:60]}, lambda: jsonlogic_rs.apply({op: [a]}, {"a": [1, "x"]}), None, None)
            for b in big:
                run_case("py:extremes:2", {"op": op, "a": repr(a)[:60], "b": repr(b)[:60]}, lambda: jsonlogic_rs.apply({op: [a, b]}, a), None, None)
        if (i % nshards) == shard:
            pass
    if shard == 0:
        for depth in (63, 64, 126, 127, 128, 129, 500):
            t = '{"!":' * depth + "1" + "}" * depth
            run_case("py:deep-chain", {"depth": depth}, lambda: jsonlogic_rs.apply_serialized(t, "null", json.loads), None, None)
            t = "[" * depth + "1" + "]" * depth
            run_case("py:deep-data", {"depth": depth}, lambda: jsonlogic_rs.apply_serialized('{"cat":[{"var":""}]}', t, json.loads), None, None)
        for args in ((), (1, 2, 3, 4, 5), (object(),)):
            try:
                jsonlogic_rs.apply(*args)
            except (TypeError, ValueError):
                pass


def c19_history():
    """E2 at the wrapper level: DFS over sequences of calls, a state being an os.fork() snapshot of
    the interpreter (module-level caches, default-argument state, the extension's statics all carry
    over exactly as in a long-running program). Every call must return what it returns as the first
    call in a fresh snapshot."""
    import mmap
    scalars = [True, 1, 1.0, False, 0, 0.0, -0.0, "1", None, [1], {"a": 1}]
    rules = [{"var": ""}, {"===": [{"var": ""}, 1]}, {"cat": [{"var": ""}, ""]}]
    calls = []
    for r in rules:
        for d in scalars:
            calls.append(("apply(%r,%r)" % (r, d), (lambda r=r, d=d: jsonlogic_rs.apply(r, d))))
    for d in scalars[:7]:
        calls.append(("apply(%r)" % (d,), (lambda d=d: jsonlogic_rs.apply(d))))
        calls.append(("apply_serialized(%r)" % (json.dumps(d),), (lambda d=d: jsonlogic_rs.apply_serialized(json.dumps(d)))))
    # rules (and data) that are equal under Python's == but are different JSON (True == 1 == 1.0, False == 0 == -0.0)
    twin_rules = [
        {"===": [{"var": ""}, True]}, {"===": [{"var": ""}, 1.0]}, {"cat": ["v=", 1]}, {"cat": ["v=", True]}, {"cat": ["v=", 1.0]},
        [0, "a"], [False, "a"], [0.0, "a"], {"in": [{"var": ""}, [False, 2]]}, {"in": [{"var": ""}, [0, 2]]}, {"var": ["zz", 1]}, {"var": ["zz", True]},
    ]
    for r in twin_rules:
        for d in (1, True, False, 0):
            calls.append(("apply(%r,%r)" % (r, d), (lambda r=r, d=d: jsonlogic_rs.apply(r, d))))
    # in-place edits: the SAME rule / data objects are used by many calls, each call first assigns every
    # field it depends on (so its outcome in isolation is its outcome anywhere) - whatever the wrapper
    # remembers about an object by identity goes stale when the object is edited
    R, D, N, LR, DL = {"var": "a"}, {"a": 1, "b": 2}, {"if": [{"var": "a"}, ["x"], "no"]}, [1, {"var": "a"}], [1, 2]

    def edit_apply(x, y):
        R.clear()
        R["var"] = x
        D["a"] = y
        return jsonlogic_rs.apply(R, D)

    def edit_op(opname):
        R.clear()
        R[opname] = ["a", "b"] if opname == "cat" else "b"
        D["a"] = 1
        return jsonlogic_rs.apply(R, data=D)

    def edit_nested(z):
        N["if"][1][0] = z
        D["a"] = 1
        return jsonlogic_rs.apply(N, D)

    def edit_list_rule(v):
        LR[0] = v
        return jsonlogic_rs.apply(LR)

    def edit_list_data(v):
        DL[0] = v
        return jsonlogic_rs.apply({"var": 0}, DL)

    for x in ("a", "b"):
        for y in (1, 10):
            calls.append(("R.var=%r; D.a=%r; apply(R,D)" % (x, y), (lambda x=x, y=y: edit_apply(x, y))))
    for o in ("cat", "var"):
        calls.append(("R={%r:..}; apply(R,data=D)" % o, (lambda o=o: edit_op(o))))
    for z in ("x", "z"):
        calls.append(("N.if[1][0]=%r; apply(N,D)" % z, (lambda z=z: edit_nested(z))))
    for v in (1, 2):
        calls.append(("LR[0]=%r; apply(LR)" % v, (lambda v=v: edit_list_rule(v))))
        calls.append(("DL[0]=%r; apply({'var':0},DL)" % v, (lambda v=v: edit_list_data(v))))
    calls.append(("R.var='a'; D.a=1; apply(R,D,compact)", lambda: (R.clear(), R.__setitem__("var", "a"), D.__setitem__("a", 1), jsonlogic_rs.apply(R, D, compact))[-1]))
    # large documents (beyond any small-size path), well-formed and malformed, the same text presented again
    good = json.dumps({"a": 1, "rows": [{"i": i, "t": "row %d" % i} for i in range(100)]})
    bad = good[:-1]
    good2 = good.replace('"a": 1', '"a": 2')
    big_nan = list(range(1000)) + [float("nan")]
    calls.append(("apply_serialized('{\"var\":\"a\"}', GOOD)", lambda: jsonlogic_rs.apply_serialized('{"var":"a"}', good)))
    calls.append(("apply_serialized('{\"var\":\"a\"}', GOOD2)", lambda: jsonlogic_rs.apply_serialized('{"var":"a"}', good2)))
    calls.append(("apply_serialized('{\"var\":\"a\"}', BAD)", lambda: jsonlogic_rs.apply_serialized('{"var":"a"}', bad)))
    calls.append(("apply_serialized(BAD-as-rule)", lambda: jsonlogic_rs.apply_serialized(bad, "1")))
    calls.append(("apply_serialized(GOOD-as-rule)", lambda: jsonlogic_rs.apply_serialized(good, "1")))
    calls.append(("apply({'var':0}, 1000 ints + nan)", lambda: jsonlogic_rs.apply({"var": 0}, big_nan)))
    calls.append(("apply({'var':0}, 1000 ints)", lambda: jsonlogic_rs.apply({"var": 0}, big_nan[:-1])))
    calls.append(("apply({'var':''},1,compact)", lambda: jsonlogic_rs.apply({"var": ""}, 1, compact)))
    calls.append(("apply({'var':''},1.0,None,tagged)", lambda: jsonlogic_rs.apply({"var": ""}, 1.0, None, tagged)))
    calls.append(("apply_serialized('{\"var\":\"\"}','true',tagged)", lambda: jsonlogic_rs.apply_serialized('{"var":""}', "true", tagged)))
    calls.append(("apply_serialized('{')", lambda: jsonlogic_rs.apply_serialized("{")))
    calls.append(("apply({'+':['x']})", lambda: jsonlogic_rs.apply({"+": ["x"]})))

    def outcome(fn):
        try:
            return "value " + repr(fn())
        except ValueError:
            return "ValueError"
        except BaseException as e:  # noqa: BLE001
            return "other " + type(e).__name__

    def in_child(fn):
        r, w = os.pipe()
        pid = os.fork()
        if pid == 0:
            os.close(r)
            try:
                os.write(w, fn().encode("utf-8", "backslashreplace"))
            finally:
                os._exit(0)
        os.close(w)
        buf = b""
        while True:
            c = os.read(r, 65536)
            if not c:
                break
            buf += c
        os.close(r)
        os.waitpid(pid, 0)
        return buf.decode("utf-8")

    iso = [in_child(lambda f=f: outcome(f)) for _, f in calls]
    counters = mmap.mmap(-1, 32)
    viofile = outfile + ".hist"
    max_depth = 3 if thorough else 2

    def bump(i):
        (v,) = struct.unpack_from("<Q", counters, 8 * i)
        struct.pack_into("<Q", counters, 8 * i, v + 1)

    def visit(history, c):
        pid = os.fork()
        if pid == 0:
            try:
                bump(0)
                # the watching parent sees progress from the snapshots themselves (a subtree of depth 3 takes a while)
                (n_now,) = struct.unpack_from("<Q", counters, 0)
                if _prog_fd is not None and n_now % 16 == 0:
                    os.pwrite(_prog_fd, struct.pack("<Q", (1 << 42) + n_now), 0)
                o = outcome(calls[c][1])
                h = history + [c]
                if o != iso[c]:
                    bump(1)
                    with open(viofile, "a") as vf:
                        vf.write(json.dumps(safe({"history": [calls[i][0] for i in h], "expected": iso[c], "actual": o})) + "\n")
                if len(h) < max_depth:
                    for c2 in range(len(calls)):
                        visit(h, c2)
            finally:
                os._exit(0)
        os.waitpid(pid, 0)

    for c in range(len(calls)):
        if c % nshards != shard:
            continue
        tick()
        if PROG and _prog_fd is not None:
            os.pwrite(_prog_fd, struct.pack("<Q", (1 << 41) + c), 0)
        visit([], c)
    (n_states,) = struct.unpack_from("<Q", counters, 0)
    res["leaves"] += n_states
    res["evaluations"] += n_states
    res["states"] += n_states
    res["transitions"] += n_states
    res["subspaces"]["history:call-after-history"] = n_states
    res["outcomes"]["history-ok"] = n_states
    for i in range(min(n_states, 200000)):
        res["hashes"].append("pyhist-%d-%d" % (shard, i))
    if os.path.exists(viofile):
        for line in open(viofile):
            v = json.loads(line)
            fail("history", {"python_history": v["history"]}, "last call as in isolation: " + v["expected"], v["actual"])
        os.remove(viofile)
    if len(res["samples"]) < 8:
        res["samples"].append({"python_history_alphabet": len(calls), "max_depth": max_depth, "snapshots": n_states, "example": [calls[0][0], calls[2][0]]})


try:
    if mode == "c19":
        # the history exploration starts from the pristine interpreter: it must run first
        c19_history()
        c19()
        c19_long_errors()
        c19_unencodable()
        c19_text_fidelity()
        c19_padding()
        c19_large_twins()
        c19_long_floats()
        c19_strings_are_strings()
        c19_result_ownership()
    else:
        c01()
finally:
    try:
        oracle.p.stdin.close()
        oracle.p.wait(timeout=5)
    except Exception:
        pass


res["hashes"] = sorted(set(safe(res["hashes"])))
with open(outfile, "w") as f:
    json.dump(safe(res), f, allow_nan=False)
