#!/usr/bin/env python3
"""keep_seed.py <srcdir> <id> <property> <caught_by (comma list or 'none')> <needs...>  -> /verif/seeded/<id>/"""
import json, os, shutil, sys
src, sid, prop, caught = sys.argv[1:5]
needs = " ".join(sys.argv[5:])
dst = f"/verif/seeded/{sid}"
os.makedirs(dst, exist_ok=True)
for f in os.listdir(src):
    shutil.copy(os.path.join(src, f), os.path.join(dst, f))
meta = {
    "id": sid, "breaks_property": prop, "needs_to_manifest": needs,
    "origin": "independent sub-agent given only the property text and a scratch worktree of /repo",
    "confirmed": "tools/try_seed.sh: in a scratch worktree the repository suite (cargo test --workspace --no-fail-fast --offline) passes with the patch; the demonstration fails with it and passes without it",
    "checks_run": [f"./check {p} quick with the patch applied to /repo (git -C /repo apply), undone straight afterwards" for p in (caught.split(",") if caught != "none" else [prop])],
    "caught_by": [] if caught == "none" else caught.split(","),
}
json.dump(meta, open(os.path.join(dst, "meta.json"), "w"), indent=1)
print("kept", dst)
