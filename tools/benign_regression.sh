#!/bin/bash
# Behaviour-preserving (with respect to the 19 properties) refactorings must NOT raise an alarm:
# apply each benign/*.patch to a scratch copy of the repository and run every quick check.
#   VERIF_REPO=<scratch worktree> tools/benign_regression.sh [patch-name-substring]
set -u
cd "$(dirname "$0")/.."
REPO="${VERIF_REPO:-}"
[ -n "$REPO" ] && [ "$REPO" != /repo ] || { echo "set VERIF_REPO to a scratch worktree (not /repo)"; exit 2; }
export VERIF_REPO="$REPO"
[ -f "$REPO/Cargo.lock" ] || cp /repo/Cargo.lock "$REPO/Cargo.lock"
alarms=0
for b in benign/*${1:-}*.patch; do
  git -C "$REPO" checkout -q -- . ; git -C "$REPO" clean -fdq ; git -C "$REPO" apply "$PWD/$b" || { echo "$b: DOES NOT APPLY"; alarms=$((alarms+1)); continue; }
  for p in C01 C02 C03 C04 C05 C06 C07 C08 C09 C10 C11 C12 C13 C14 C15 C16 C17 C18 C19; do
    out=$(JLMC_SKIP_MIRI=1 ./check "$p" quick 2>&1); rc=$?
    if [ $rc -ne 0 ]; then echo "$(basename $b): $p FALSE ALARM (exit $rc)"; echo "$out" | grep -E "^  \[|MACH" | head -3 | cut -c1-300; alarms=$((alarms+1)); fi
  done
  echo "$(basename $b): done"
  git -C "$REPO" checkout -q -- . ; git -C "$REPO" clean -fdq
done
echo "SUMMARY: $alarms false alarm(s)"
[ $alarms -eq 0 ]
