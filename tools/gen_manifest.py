#!/usr/bin/env python3
"""Generate /verif/MANIFEST.json from the table below (kept next to the checks so the two stay in step)."""
import json, os, subprocess, sys

ROOT = os.path.dirname(os.path.dirname(os.path.abspath(__file__)))

E1 = "bounded-exhaustive model checking: DFS over the choice tree of (rule, data) inputs, every leaf executed on the real apply() and compared with the reference model R and oracle-free laws"

CHECKS = {
    # id: (engine, technique, level text, design_ref, level_note)
    "C06": ("E1", E1,
            "Every value of the corpus x every provenance channel x every truthiness-testing position is executed on the real code and compared with the table of the statement; exhaustive over the stated alphabet, so a change that makes one position or one channel use a different table is found, not sampled.",
            "5/C06", "alphabet = V1 + N + string samples; R validated against V8 table"),
}

BUILDING = {
}

def main():
    hooks_commits = subprocess.run(["git", "-C", "/repo", "log", "--format=%H", "--grep=verif_hooks"], capture_output=True, text=True).stdout.split()
    props = [json.loads(l)["id"] for l in open(os.path.join(ROOT, "properties.jsonl"))]
    checks = []
    for pid in props:
        if pid not in CHECKS:
            continue
        eng, tech, text, ref, note = CHECKS[pid]
        checks.append({
            "property_id": pid,
            "quick_cmd": f"./check {pid} quick",
            "thorough_cmd": f"./check {pid} thorough",
            "evidence_file": f"/verif/evidence/{pid}.json",
            "replay_cmd_template": "./check replay {path}",
            "engine": eng,
            "level_claimed": {"category": "model_checking", "text": text, "design_ref": f"DESIGN.md section {ref}"},
            "level_note": note + "; trusted base: rustc/cargo, serde_json, reference model R as validated against recorded V8 verdicts (fixtures/es_truth.json) and the shared JsonLogic cases",
            "technique": tech,
        })
    na = [{"property_id": p, "reason": BUILDING.get(p, "check not built yet in this revision of /verif (planned, see DESIGN.md section 5); not claimed until it exists")}
          for p in props if p not in CHECKS]
    m = {
        "version": 1,
        "setup_cmd": "./setup.sh",
        "hooks": {
            "guard": "cargo feature verif_hooks",
            "enable": "the harness depends on the tree under test by path with features = [\"verif_hooks\"] (harness/Cargo.toml.in); CLI and Python extension are built with the feature off",
            "baseline_off_cmd": "cd /repo && cargo test --workspace --no-fail-fast --offline",
            "source_commits": hooks_commits,
            "add_only": True,
        },
        "engines": [
            {"name": "E1", "path": "harness/src/spaces", "serves_properties": [p for p in props if p in CHECKS and CHECKS[p][0] == "E1"], "kind_free_text": "term explorer: exhaustive DFS over finite input alphabets, real apply() vs reference model R"},
            {"name": "E2", "path": "harness/src/history.rs", "serves_properties": ["C17"], "kind_free_text": "explicit-state DFS over call histories; states are fork() snapshots of the real process"},
            {"name": "E3", "path": "harness/src/sched.rs", "serves_properties": ["C17"], "kind_free_text": "preemption-bounded exhaustive schedule exploration of real threads at feature-guarded hook points"},
            {"name": "E4", "path": "harness/src/boundary.rs", "serves_properties": ["C01", "C18", "C19"], "kind_free_text": "full product of invocation forms of the real CLI binary and the real Python package"},
        ],
        "checks": checks,
        "not_applicable": na,
        "notes": "All checks go through ./check <ID> <tier>; exit 0 held / 1 VIOLATION / 2 machinery error. Known findings: KNOWN_FINDINGS.txt. See DESIGN.md.",
    }
    json.dump(m, open(os.path.join(ROOT, "MANIFEST.json"), "w"), indent=1)
    print("MANIFEST.json:", len(checks), "checks,", len(na), "not claimed")

if __name__ == "__main__":
    main()
