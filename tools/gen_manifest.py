#!/usr/bin/env python3
"""Generate /verif/MANIFEST.json from the table below (kept next to the checks so the two stay in step)."""
import json, os, subprocess, sys

ROOT = os.path.dirname(os.path.dirname(os.path.abspath(__file__)))

E1 = "bounded-exhaustive model checking: DFS over the choice tree of (rule, data) inputs, every leaf executed on the real apply() and compared with the reference model R and oracle-free laws (exhaustive up to the stated lengths; plus closed sweeps - every length up to 1100 / 2100 with distinguished positions, every nesting depth, every operator x rejected count x evaluated position - and listed corpora of hard values: confusable strings, look-alike twins, number texts at every notation and width limit, validated per value against V8 where they feed a conversion; stdout and stderr of every execution are captured and judged)"

CHECKS = {
    # id: (engine, technique, level text, design_ref, level_note)
    "C01": ("E1+E4", E1 + "; every leaf of the other properties' spaces plus 64-bit / double extremes, deep chains to the parser's depth limit and direct calls of every public coercion helper, run in isolated worker processes in several build profiles (overflow checks on and off); a worker that aborts, overflows its stack or stops making progress is localised to the single input",
            "Totality is a universal claim over inputs x build profiles x entry points; the check closes a stated finite product (millions of executions per run) with panics caught and attributed to their source line, and process-fatal outcomes (abort, stack overflow, hang) observed from outside the process. No reference model is needed: any outcome other than Ok/Err is a violation.",
            "5/C01", "inputs outside the alphabets (one representative per visible case split) are not covered; hang = no progress for 60 s; stack = 8 MiB"),
    "C02": ("E1", E1,
            "Closes the product literal-kind x data x position for the stated alphabets (incl. near-miss spellings of all 35 names, every key of length <= 2 over the operator character set, multi-key objects around every name) - the universal 'evaluates to itself, nothing inside is evaluated, nothing printed' is checked on every member, and each name is shown to dispatch.",
            "5/C02", "keys longer than 2 characters other than the listed near-miss transforms are not enumerated"),
    "C03": ("E1", E1,
            "The whole table operator x operand count 0..6 is enumerated, each rejected count with every operand tuple over V0 (so 'rejected whatever the operands'), each accepted count with a succeeding vector, at top level and nested; the bracket-less spelling is compared with the bracketed one for every non-array value of the corpus.",
            "5/C03", "counts above 6 are not enumerated; arity table transcribed from the property statement"),
    "C04": ("E1", E1,
            "Operation-shaped data (a lookup, an error, a printing log) is pushed through every operand position of every operator via var and via computed values and the result and the captured output are compared with a single-pass reference; tracers count evaluations per operand; the substitution law is closed over E^n (n <= 3) for the 22 eager operators.",
            "5/C04", "marker set = 4 operation shapes; expression alphabet E of ~24 (34 thorough)"),
    "C05": ("E1", E1,
            "All operand lists up to length 6 (7 thorough) over an 8-letter alphabet with position-unique values are executed for if/?:/and/or and compared on value, Err-ness and the exact sequence of log lines, so both 'which value' and 'what was evaluated, in which order' are decided for the whole bounded space.",
            "5/C05", "lists longer than 7 operands are not enumerated"),
    "C06": ("E1", E1,
            "Every value of the corpus x every provenance channel x every truthiness-testing position is executed on the real code and compared with the table of the statement; exhaustive over the stated alphabet, so a change that makes one position or one channel use a different table is found, not sampled.",
            "5/C06", "alphabet = V1 + N + string samples"),
    "C07": ("E1", E1,
            "All ordered pairs over a 187-value corpus (283 in the thorough tier, each with its own recorded V8 table) (every JSON type, number spellings, ~90 string-to-number spellings) through literal and var operands and the public helper, against a reference that is itself checked pair-by-pair against verdicts recorded from V8; symmetry and exact negation are checked on the real code independently of the reference.",
            "5/C07-C09", "pairs outside the corpus are not covered; V8 table recorded once with node v20 (fixtures/es_truth.json)"),
    "C08": ("E1", E1,
            "Same pair space as C07 for === / !==, plus the same-field-twice forms (containers obtained by evaluation are distinct instances) and the implication === => ==.",
            "5/C07-C09", "as C07"),
    "C09": ("E1", E1,
            "Same pair space for the four relational operators plus all triples over a 30-value (40 thorough) sub-corpus for the between form and all pairs of arrays of length 1-2 over a 10-element alphabet (separator-sensitive string forms); converse and conjunction laws are checked between real executions.",
            "5/C07-C09", "as C07; code-point order for strings as the property states"),
    "C10": ("E1", E1,
            "All operand tuples of length 0..2 over a ~140-value arithmetic alphabet (magnitudes 5e-324..1.8e308, integers around 2^53/2^63/2^64, ~90 string spellings, containers), length 3 over 32 (60 thorough), 4-5 over 12, for all seven operators; the returned JSON number must equal the independently computed double exactly, integer-vs-float spelling included.",
            "5/C10", "tuples longer than 5 are not enumerated; sign of zero not compared (statement says numerically equal)"),
    "C11": ("E1", E1,
            "Every data tree of a bounded grammar (depth 2, ~11k trees) x every path of 1..3 segments (~200, incl. escapes, negative / out-of-range indices), all key-operand kinds incl. 64-bit extremes on arrays, strings and objects, defaults x presence classes x channels, and the frame law on the first path step; run with overflow checks on and off.",
            "5/C11", "trees deeper than 2 / wider than 2 are not enumerated; non-canonical index spellings are unspecified (totality only)"),
    "C12": ("E1", E1,
            "All key lists of length 0..3 over 12 keys (4 over 6) incl. duplicates, dotted paths, integer and null keys x 10 data x every threshold 0..n+1, in operand, array and computed forms; results are also tied to var by an oracle-free law on the real code.",
            "5/C12", "lists longer than 4 are not enumerated"),
    "C13": ("E1", E1,
            "All collections of length 0..3 over 8 elements x 3 channels x 28 element expressions (map, filter) and 17 x 9 (reduce expression x initial value), with outer data that makes scope leaks visible; value, Err-ness and log sequence compared with the reference; length / subsequence laws.",
            "5/C13", "collections longer than 3 are not enumerated"),
    "C14": ("E1", E1,
            "All literal collections of 0..3 expression elements over an 8-letter alphabet (incl. poison and tracers after the deciding element), computed arrays, literal and computed strings over 1..4-byte characters, null and non-collections x 13 predicates x the three operators; short-circuit decided by log sequences; none = not some and all(p) = none(not p) checked between real executions.",
            "5/C14", "collections longer than 3 are not enumerated"),
    "C15": ("E1", E1,
            "merge: all operand lists of length 0..4 over 12 values with the length law; in: ~75 needles x ~250 haystacks covering number spellings, nested arrays/objects in both key orders, non-ASCII substrings, null and non-collection haystacks.",
            "5/C15", "numbers whose exact and double comparison disagree (2^53+1 vs 2^53.0) are unspecified"),
    "C16": ("E1", E1,
            "substr: all strings of length 0..4 over {1,2,3,4-byte characters} x start x length over -10..10 plus 64-bit extremes (+ absent length) with the partition law; cat: all operand lists of length 0..3 over 23 values (4 over 8) with the split law at every split point; run with overflow checks on and off.",
            "5/C16", "strings longer than 4 (5 thorough) characters are covered by a few probes only"),
    "C17": ("E2+E3", "explicit-state model checking of the real code: (E2) DFS over call histories whose states are fork() snapshots of the real process, every call compared with its isolated outcome; fixed call lists (deep in-memory rules included) re-run under every value of every known environment variable and after a change of directory (oracle-free law: same outcome as with the variable unset); spellings a normalising key would conflate and join-colliding paths used one right after the other on a thread; (E3) stateless preemption-bounded DFS over all interleavings of real threads calling apply() on shared inputs, switched only at feature-guarded hook points (iterative context bounding, bounds 0..2, 3 thorough) and, in an instrumented build, at every function entry (bound 1); every configuration explored warm and from a cold start (each schedule in a forked child of a pristine process), each execution followed by a sequential repetition of its calls",
            "Purity is a universal claim over histories and schedules. E2 closes all call sequences up to depth 2 (3 thorough) over a 414-call main alphabet and a 448-call coercion alphabet (the same ambiguous operand under every coercion family) starting from every reached state - a state being a process snapshot, so any hidden memory whatsoever is carried along; E3-fine (a second, nightly build of the tree under test with -Z instrument-mcount: every function entry, incl. monomorphised std lock / collection operations and any newly added function, is a scheduling point - no source change) closes all schedules with at most one preemption of every pair of 3 (16 thorough) tiny calls; E3 closes all schedules of ~180 two- and three-thread harnesses (every pair of 18 operator families incl. identical pairs on a shared rule, hand-picked collision-prone bodies, 100-deep rules) within the preemption bound. Every configuration is explored twice: warm (all schedules in one process) and cold (every schedule and every reference call in a forked child of a process that never evaluated anything, so that first uses of lazily built process-wide state race in every schedule). Every execution is compared with the isolated outcome (value, Err-ness, log lines, input integrity) and followed by a sequential repetition of its calls (aftermath: damage visible only to later calls); replayed schedules must reproduce. Thorough tier adds, as a proviso only, the same thread bodies free-running under miri's data-race detector.",
            "5/C17", "interleavings finer than a function entry are not explored, and below hook-point granularity only at preemption bound 1 for the small calls of E3-fine (the free-running runs are provisos, not the deciding step); a thread found blocked on a real lock is detected by a 40 ms watchdog; histories longer than 3 calls are not enumerated"),
    "C18": ("E4", "exhaustive exploration of the real binary: full product rule text x data text x delivery form (argument / stdin / stdin with '-' / argument with junk on stdin) and all two-stage pipelines over the valid texts, every process run compared with the library in-process; the whole product once more in a hostile environment (current directory holding a file named after every rule / data text, every known environment variable set - standard names plus every name the tree under test reads)",
            "The wrapper adds argument parsing, stdin handling, printing and the exit status; each of these is decided by running the real binary built from the working tree (debug and release profile, both tiers) on every member of the stated product (45 rule texts x 24 data texts x 4 forms + deep nesting + ~3000 chains) and comparing stdout and exit status exactly with what the library does on the same texts.",
            "5/C18", "texts outside the stated lists are not covered; option-like non-JSON texts (-h, --help) are options, not texts; OS-level faults on stdout are outside the quantifier"),
    "C19": ("E4", "exhaustive exploration of the real Python package: full product (rule object x data object x entry point x combination of omitted / supplied optional arguments), every call compared with the library reached through the harness oracle",
            "The wrapper adds JSON encoding/decoding, defaults for omitted arguments and the exception mapping; all of it is decided by calling the real package (extension built from the working tree in the debug and the release profile, both tiers) on every member of 62 rules x 26 data x 17 call forms (+ malformed texts and broken serializers) and comparing value (type-strictly) or exception type with the library's own result; plus a DFS over sequences of calls (depth 2, 3 thorough) whose states are os.fork() snapshots of the interpreter, each call compared with its isolated outcome (wrapper-level caches, default-argument state; the alphabet includes calls that edit the same rule / data objects in place); texts that are not Unicode text (lone surrogates) in every text position.",
            "5/C19", "objects that json.dumps cannot encode are outside the property; CPython's json module is trusted"),
}

BUILDING = {
}

def main():
    hooks_commits = subprocess.run(["git", "-C", "/repo", "log", "--format=%H", "--grep=verif_hooks"], capture_output=True, text=True).stdout.split()
    props = [json.loads(l)["id"] for l in open(os.path.join(ROOT, "properties.jsonl"))]
    checks = []
    for pid in props:
        if pid not in CHECKS:
            continue
        eng, tech, text, ref, note = CHECKS[pid]
        checks.append({
            "property_id": pid,
            "quick_cmd": f"./check {pid} quick",
            "thorough_cmd": f"./check {pid} thorough",
            "evidence_file": f"/verif/evidence/{pid}.json",
            "replay_cmd_template": "./check replay {path}",
            "engine": eng,
            "level_claimed": {"category": "model_checking", "text": text, "design_ref": f"DESIGN.md section {ref}"},
            "level_note": note + "; trusted base: rustc/cargo, serde_json, reference model R as validated against recorded V8 verdicts (fixtures/es_truth.json) and the shared JsonLogic cases",
            "technique": tech,
        })
    na = [{"property_id": p, "reason": BUILDING.get(p, "check not built yet in this revision of /verif (planned, see DESIGN.md section 5); not claimed until it exists")}
          for p in props if p not in CHECKS]
    m = {
        "version": 1,
        "setup_cmd": "./setup.sh",
        "hooks": {
            "guard": "cargo feature verif_hooks",
            "enable": "the harness depends on the tree under test by path with features = [\"verif_hooks\"] (harness/Cargo.toml.in); CLI and Python extension are built with the feature off; the fine-grained schedule explorer of C17 additionally builds the tree with the compiler flag -Z instrument-mcount (nightly, harness/Cargo.fine.toml.in) - instrumentation only, no source change",
            "baseline_off_cmd": "cd /repo && cargo test --workspace --no-fail-fast --offline",
            "source_commits": hooks_commits,
            "add_only": True,
        },
        "engines": [
            {"name": "E1", "path": "harness/src/spaces", "serves_properties": [p for p in props if p in CHECKS and CHECKS[p][0].startswith("E1")], "kind_free_text": "term explorer: exhaustive DFS over finite input alphabets, real apply() vs reference model R"},
            {"name": "E2", "path": "harness/src/history.rs", "serves_properties": ["C17"], "kind_free_text": "explicit-state DFS over call histories; states are fork() snapshots of the real process"},
            {"name": "E3", "path": "harness/src/sched.rs", "serves_properties": ["C17"], "kind_free_text": "preemption-bounded exhaustive schedule exploration of real threads at feature-guarded hook points"},
            {"name": "E4", "path": "harness/src/boundary.rs", "serves_properties": ["C01", "C18", "C19"], "kind_free_text": "full product of invocation forms of the real CLI binary and the real Python package"},
        ],
        "checks": checks,
        "not_applicable": na,
        "notes": "All checks go through ./check <ID> <tier>; exit 0 held / 1 VIOLATION / 2 machinery error. Known findings: KNOWN_FINDINGS.txt. See DESIGN.md.",
    }
    json.dump(m, open(os.path.join(ROOT, "MANIFEST.json"), "w"), indent=1)
    print("MANIFEST.json:", len(checks), "checks,", len(na), "not claimed")

if __name__ == "__main__":
    main()
