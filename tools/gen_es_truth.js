// Records the verdicts of a real JavaScript engine (V8) for the pairwise corpus printed by
// `jlmc corpus`. Run through tools/gen_es_truth.sh; the output (fixtures/es_truth.json) is
// committed, so checks never depend on node.
//
// Adaptations demanded by the property statements (C07, C09):
//  * "a number's string form is its JSON text": numbers nested inside arrays are rebuilt as
//    objects whose toString() returns serde_json's text, top-level numbers are JS numbers;
//  * C09 orders strings by code point, V8 by UTF-16 code unit: pairs on which the two orders
//    differ get '-' (no verdict) in the relational tables.
const fs = require('fs');
const input = JSON.parse(fs.readFileSync(0, 'utf8'));

function build(d, top) {
  if (d === null || typeof d === 'boolean' || typeof d === 'string') return d;
  if (Array.isArray(d)) return d.map(x => build(x, false));
  if ('$n' in d) {
    const text = d['$n'];
    if (top) return Number(text);
    return { toString() { return text; }, valueOf() { return this; }, __num: true };
  }
  const o = {};
  for (const k of Object.keys(d['$o'])) o[k] = build(d['$o'][k], false);
  return o;
}
function show(x) { return Object.is(x, -0) ? '-0' : String(x); }
function strform(v) { return String(v); }
function primString(v) { return (typeof v === 'object' && v !== null) ? String(v) : (typeof v === 'string' ? v : null); }
function cpCompare(a, b) {
  const x = Array.from(a), y = Array.from(b);
  for (let i = 0; i < Math.min(x.length, y.length); i++) {
    const d = x[i].codePointAt(0) - y[i].codePointAt(0);
    if (d !== 0) return Math.sign(d);
  }
  return Math.sign(x.length - y.length);
}
function unitCompare(a, b) { return a < b ? -1 : (a > b ? 1 : 0); }

const n = input.values.length;
const out = { texts: input.texts, eq: [], seq: [], lt: [], le: [], gt: [], ge: [], tonumber: [], parsefloat: [], strform: [],
  engine: 'node ' + process.version + ' (V8 ' + process.versions.v8 + ')' };
const unaryOnly = process.env.UNARY_ONLY === '1';
for (let i = 0; i < n; i++) {
  let eq = '', seq = '', lt = '', le = '', gt = '', ge = '';
  for (let j = 0; j < (unaryOnly ? 0 : n); j++) {
    // distinct instances on both sides, also for i == j
    const a = build(input.values[i], true), b = build(input.values[j], true);
    eq += (a == b) ? '1' : '0';
    seq += (a === b) ? '1' : '0';
    const sa = primString(a), sb = primString(b);
    if (sa !== null && sb !== null && cpCompare(sa, sb) !== unitCompare(sa, sb)) {
      lt += '-'; le += '-'; gt += '-'; ge += '-';
    } else {
      lt += (a < b) ? '1' : '0'; le += (a <= b) ? '1' : '0'; gt += (a > b) ? '1' : '0'; ge += (a >= b) ? '1' : '0';
    }
  }
  if (!unaryOnly) { out.eq.push(eq); out.seq.push(seq); out.lt.push(lt); out.le.push(le); out.gt.push(gt); out.ge.push(ge); }
  const v = build(input.values[i], true);
  out.tonumber.push(show(Number(v)));
  out.parsefloat.push(show(typeof v === 'number' ? v : parseFloat(strform(v))));
  out.strform.push(strform(v));
}
process.stdout.write(JSON.stringify(out));
