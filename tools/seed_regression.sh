#!/bin/bash
# Re-run every kept seeded change (seeded/*/patch.diff, mutants/*.patch) against the quick checks that
# are recorded as catching it. Works on a scratch copy of the repository, never on /repo itself:
#   VERIF_REPO=<scratch worktree> tools/seed_regression.sh        (e.g. vp run --with-repo: VERIF_REPO=$VP_RUN_REPO)
# Prints one line per (seed, check): CAUGHT / MISSED, and a summary; exit 1 if anything was missed.
set -u
cd "$(dirname "$0")/.."
REPO="${VERIF_REPO:-}"
[ -n "$REPO" ] && [ "$REPO" != /repo ] || { echo "set VERIF_REPO to a scratch worktree (not /repo)"; exit 2; }
export VERIF_REPO="$REPO"
[ -f "$REPO/Cargo.lock" ] || cp /repo/Cargo.lock "$REPO/Cargo.lock"
missed=0; total=0
run_one() { # name patch checks...
  local name="$1" patch="$2"; shift 2
  git -C "$REPO" checkout -q -- . ; git -C "$REPO" clean -fdq ; git -C "$REPO" apply "$patch" || { echo "$name: PATCH DOES NOT APPLY"; missed=$((missed+1)); return; }
  for p in "$@"; do
    total=$((total+1))
    out=$(JLMC_SKIP_MIRI=1 ./check "$p" quick 2>/dev/null); rc=$?
    if [ $rc -eq 1 ] && echo "$out" | grep -q "^VIOLATION property=$p"; then echo "$name: $p CAUGHT"; else echo "$name: $p MISSED (exit $rc)"; missed=$((missed+1)); fi
  done
  git -C "$REPO" checkout -q -- . ; git -C "$REPO" clean -fdq
}
# SEED_PART=i/n restricts the run to every n-th seed starting with the i-th (for parallel runs on separate copies)
PART_I=${SEED_PART%%/*}; PART_N=${SEED_PART##*/}; [ -n "${SEED_PART:-}" ] || { PART_I=0; PART_N=1; }
idx=0
for d in seeded/*/; do
  idx=$((idx+1)); [ $((idx % PART_N)) -eq "$PART_I" ] || continue
  n=$(basename "$d")
  checks=$(python3 -c "import json,sys; m=json.load(open('$d/meta.json')); print(' '.join(m['caught_by'][:1] or [m['breaks_property']]))")
  run_one "$n" "$PWD/$d/patch.diff" $checks
done
for m in mutants/*.patch; do
  idx=$((idx+1)); [ $((idx % PART_N)) -eq "$PART_I" ] || continue
  n=$(basename "$m" .patch); run_one "$n" "$PWD/$m" "${n%%-*}"
done
echo "clean tree:"
[ "$PART_I" -eq 0 ] && for p in C01 C02 C03 C04 C05 C06 C07 C08 C09 C10 C11 C12 C13 C14 C15 C16 C17 C18 C19; do
  out=$(./check "$p" quick 2>/dev/null); rc=$?; [ $rc -eq 0 ] || { echo "  $p exit $rc ON THE CLEAN TREE"; missed=$((missed+1)); }
done
echo "SUMMARY: $total (seed, check) pairs, $missed problem(s)"
[ $missed -eq 0 ]
