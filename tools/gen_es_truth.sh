#!/bin/bash
# Regenerate fixtures/es_truth.json (needs node; only when the pairwise corpus in alphabet.rs changes).
set -e
cd "$(dirname "$0")/.."
./check build
KEY=$(printf '%s' "${VERIF_REPO:-/repo}" | md5sum | cut -c1-8)
.target/$KEY/release/jlmc corpus | node tools/gen_es_truth.js > fixtures/es_truth.json
.target/$KEY/release/jlmc corpus-thorough | node tools/gen_es_truth.js > fixtures/es_truth_thorough.json
.target/$KEY/release/jlmc corpus-blocks | UNARY_ONLY=1 node tools/gen_es_truth.js > fixtures/es_blocks.json
./check selftest
