#!/bin/bash
# Confirm a seeded change and run the checks against it.
#   tools/try_seed.sh <dir with patch.diff + demo> <scratch worktree> <prop> [more props...]
# 1. in the scratch worktree: suite passes with the patch; the demo fails with it and passes without it
# 2. apply to /repo, run ./check <prop> quick for each prop, undo straight afterwards
set -u
D="$1"; WT="$2"; shift 2
cd "$WT" || exit 2
git checkout -q -- . ; rm -f tests/demo_test.rs
echo "== suite with the patch"
git apply "$D/patch.diff" || { echo "PATCH DOES NOT APPLY"; exit 2; }
cargo test --workspace --no-fail-fast --offline 2>&1 | grep -E "^test result|FAILED|error(\[|:)" | sort | uniq -c | head -8
if [ -f "$D/demo_test.rs" ]; then
  cp "$D/demo_test.rs" tests/demo_test.rs
  echo "== demo with the patch (must fail)"
  cargo test --offline --test demo_test 2>&1 | grep -E "^test result" | head -2
  git checkout -q -- . 
  echo "== demo without the patch (must pass)"
  cargo test --offline --test demo_test 2>&1 | grep -E "^test result" | head -2
  rm -f tests/demo_test.rs
else
  echo "== (no demo_test.rs; other demo: $(ls $D))"
  git checkout -q -- .
fi
cd /verif
git -C /repo diff --quiet || { echo "/repo is dirty"; exit 2; }
git -C /repo apply "$D/patch.diff" || exit 2
for p in "$@"; do
  echo "== ./check $p quick with the patch applied to /repo"
  ./check $p quick 2>&1 | grep -E "^  \[|^VIOLATION|^OK|MACH|^C[0-9]" | cut -c1-260 | head -8
done
git -C /repo checkout -- . ; git -C /repo clean -fdq
git -C /repo status --short | head -3
