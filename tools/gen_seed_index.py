#!/usr/bin/env python3
"""Write seeded/INDEX.md: one row per kept seeded change (from the meta.json files)."""
import json, os, glob
rows = []
for d in sorted(glob.glob('/verif/seeded/*/')):
    m = json.load(open(d + 'meta.json'))
    needs = m['needs_to_manifest'].replace('|', '\\|')
    missed = 'MISSED' in needs or 'missed' in needs.lower().split('caught')[0] if 'Initially' in needs else False
    rows.append((m['id'], m['breaks_property'], ', '.join(m['caught_by']), 'yes' if 'Initially MISSED' in needs or 'Initially missed' in needs or 'NOT reachable' in needs else '', needs))
with open('/verif/seeded/INDEX.md', 'w') as f:
    f.write('# Seeded changes kept under /verif/seeded\n\n')
    f.write('Written by independent sub-agents (given only one property text and a scratch worktree), confirmed with tools/try_seed.sh, re-checked by tools/seed_regression.sh.\n')
    f.write('Rounds: ids without prefix = round 1, R2-* = round 2 ("hard to hit"), R3-* = round 3 (same brief, remaining properties).\n\n')
    f.write(f'{len(rows)} changes; {sum(1 for r in rows if r[3])} were missed by the quick check of their property when first tried and led to a stronger space (see the text of each row).\n\n')
    f.write('| id | property | caught by (quick) | missed at first | what it needs to manifest / what was done |\n|---|---|---|---|---|\n')
    for r in rows:
        f.write('| ' + ' | '.join(r) + ' |\n')
print(len(rows), 'rows')
