#!/bin/bash
# MANIFEST.setup_cmd: offline build of everything the checks need (they rebuild incrementally anyway).
set -e
cd "$(dirname "$0")"
export CARGO_NET_OFFLINE=true
./check build all
./check selftest
