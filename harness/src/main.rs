//! jlmc - bounded-exhaustive model checking of json-logic-rs against the reference model R.
//!
//!   jlmc check <ID> <quick|thorough>     parent: fan out workers, merge, evidence, verdict
//!   jlmc worker <ID> <tier> <profile> <shard> <nshards> <outfile> [trace-file]
//!   jlmc replay <file>                   re-run one recorded case without the explorer
//!   jlmc oracle                          line protocol: {"rule":..,"data":..} -> library result (for the Python driver)
//!   jlmc corpus                          print the pairwise corpus (for fixtures/gen_es_truth.js)
//!   jlmc selftest                        validate R against the committed V8 truth table and tests.json

mod alphabet;
mod ctx;
mod driver;
mod exec;
mod refmodel;
mod selftest;
mod spaces;
mod history;
mod sched;
mod boundary;

use std::process::exit;

/// Fine-grained E3 (see harness/Cargo.fine.toml.in): every function entry of the instrumented
/// tree under test lands here.
#[cfg(feature = "fine")]
#[no_mangle]
pub extern "C" fn mcount() {
    sched::fine_point();
}

fn main() {
    let args: Vec<String> = std::env::args().collect();
    let cmd = args.get(1).map(|s| s.as_str()).unwrap_or("");
    let code = match cmd {
        "check" => driver::check(&args[2], &args[3]),
        "worker" => driver::worker(&args[2..]),
        "replay" => driver::replay(&args[2]),
        "oracle" => boundary::oracle_loop(),
        // jlmc ref '<rule json>' '<data json>': what the reference model says, and what the library does
        "ref" => {
            let r: serde_json::Value = serde_json::from_str(&args[2]).expect("rule json");
            let d: serde_json::Value = serde_json::from_str(args.get(3).map(|s| s.as_str()).unwrap_or("null")).expect("data json");
            let (e, tr) = refmodel::reference(&r, &d);
            println!("R:    {} log={:?} order_pinned={}", e.show(), tr.lines, tr.order_pinned);
            let _saved = exec::capture_stdout();
            let o = exec::apply(&r, &d);
            eprintln!("real: {}", o.show());
            0
        }
        "corpus" => {
            println!("{}", selftest::corpus_json());
            0
        }
        "corpus-blocks" => {
            println!("{}", selftest::corpus_json_blocks());
            0
        }
        "corpus-thorough" => {
            println!("{}", selftest::corpus_json_thorough());
            0
        }
        "selftest" => selftest::run(true),
        "profiles" => {
            println!("{}", spaces::plan(&args[2], args.get(3).map(|t| t == "thorough").unwrap_or(false)).profiles.join(" "));
            0
        }
        "sched-free" => sched::free_run(),
        "fine-run" => sched::fine_run(&args[2..]),
        _ => {
            eprintln!("usage: jlmc check|worker|replay|oracle|corpus|selftest ...");
            2
        }
    };
    exit(code);
}
