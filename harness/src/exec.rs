//! Running the real code once and observing everything a property can talk about:
//! Ok / Err / panic (message + location), the lines written to stdout by `log`,
//! and (on request) whether the inputs were modified.

use serde_json::Value;
use std::cell::RefCell;
use std::panic::{self, AssertUnwindSafe};

#[derive(Clone, Debug, PartialEq)]
pub enum Outcome {
    Ok(Value),
    Err(String),
    /// message, location (`file:line:col`)
    Panic(String, String),
}

#[derive(Clone, Debug)]
pub struct Obs {
    pub out: Outcome,
    pub log: Vec<String>,
}

impl Obs {
    pub fn class(&self) -> String {
        match &self.out {
            Outcome::Ok(v) => format!("ok:{}", kind(v)),
            Outcome::Err(_) => "err".to_string(),
            Outcome::Panic(..) => "panic".to_string(),
        }
    }
    pub fn is_err(&self) -> bool {
        matches!(self.out, Outcome::Err(_))
    }
    pub fn ok(&self) -> Option<&Value> {
        match &self.out {
            Outcome::Ok(v) => Some(v),
            _ => None,
        }
    }
    pub fn show(&self) -> String {
        let mut s = match &self.out {
            Outcome::Ok(v) => format!("Ok({})", v),
            Outcome::Err(_) => "Err".to_string(),
            Outcome::Panic(m, l) => format!("PANIC[{} at {}]", m, l),
        };
        if !self.log.is_empty() {
            s.push_str(&format!(" log={:?}", self.log));
        }
        s
    }
}

pub fn kind(v: &Value) -> &'static str {
    match v {
        Value::Null => "null",
        Value::Bool(true) => "true",
        Value::Bool(false) => "false",
        Value::Number(_) => "number",
        Value::String(_) => "string",
        Value::Array(_) => "array",
        Value::Object(_) => "object",
    }
}

thread_local! {
    static LAST_PANIC: RefCell<Option<(String, String)>> = RefCell::new(None);
}

/// Install a silent panic hook that records message and location per thread.
pub fn install_panic_hook() {
    panic::set_hook(Box::new(|info| {
        let msg = if let Some(s) = info.payload().downcast_ref::<&str>() {
            s.to_string()
        } else if let Some(s) = info.payload().downcast_ref::<String>() {
            s.clone()
        } else {
            "<non-string panic payload>".to_string()
        };
        let loc = info
            .location()
            .map(|l| format!("{}:{}:{}", l.file(), l.line(), l.column()))
            .unwrap_or_else(|| "<unknown>".into());
        LAST_PANIC.with(|p| *p.borrow_mut() = Some((msg, loc)));
    }));
}

fn take_panic() -> (String, String) {
    LAST_PANIC
        .with(|p| p.borrow_mut().take())
        .unwrap_or_else(|| ("<no message>".into(), "<unknown>".into()))
}

/// Shorten a panic location to `src/...:line` relative to the crate root, so that
/// known-finding call sites do not depend on where the tree lives.
pub fn short_loc(loc: &str) -> String {
    let l = match loc.rfind("/src/") {
        Some(i) => &loc[i + 1..],
        None => loc,
    };
    // drop the column
    let mut parts: Vec<&str> = l.split(':').collect();
    if parts.len() >= 3 {
        parts.pop();
    }
    parts.join(":")
}

// ---------------------------------------------------------------------------------
// stdout capture: fd 1 is replaced by a memfd for the whole life of the process.

static mut CAPTURE_ON: bool = false;

/// Redirect fd 1 into a memfd. Returns a dup of the original stdout.
pub fn capture_stdout() -> i32 {
    unsafe {
        let saved = libc::dup(1);
        let name = b"jlmc-log\0";
        let fd = libc::memfd_create(name.as_ptr() as *const libc::c_char, 0);
        assert!(fd >= 0, "memfd_create failed");
        assert!(libc::dup2(fd, 1) == 1);
        libc::close(fd);
        CAPTURE_ON = true;
        saved
    }
}

/// Take whatever was written to (captured) stdout since the last call.
pub fn drain_stdout() -> Vec<String> {
    unsafe {
        if !CAPTURE_ON {
            return Vec::new();
        }
        let pos = libc::lseek(1, 0, libc::SEEK_CUR);
        if pos <= 0 {
            return Vec::new();
        }
        let mut buf = vec![0u8; pos as usize];
        let mut got = 0usize;
        while got < buf.len() {
            let n = libc::pread(
                1,
                buf[got..].as_mut_ptr() as *mut libc::c_void,
                buf.len() - got,
                got as i64,
            );
            if n <= 0 {
                break;
            }
            got += n as usize;
        }
        libc::ftruncate(1, 0);
        libc::lseek(1, 0, libc::SEEK_SET);
        let text = String::from_utf8_lossy(&buf[..got]).into_owned();
        let mut lines: Vec<String> = text.split('\n').map(|s| s.to_string()).collect();
        if lines.last().map(|s| s.is_empty()).unwrap_or(false) {
            lines.pop();
        } else if let Some(l) = lines.last_mut() {
            // a final line without newline is marked: `log` must write whole lines
            l.push_str("<NO-NEWLINE>");
        }
        lines
    }
}

// stderr capture: only while the code under test runs (fd 2 is swapped for a second memfd around each
// execution and put back afterwards, so the harness's own diagnostics and those of child processes are
// not affected). Whatever the library writes there is an externally visible effect that no property
// allows; it is reported as a log line with the prefix "STDERR: ".
static ERR_DEPTH: std::sync::atomic::AtomicUsize = std::sync::atomic::AtomicUsize::new(0);
static ERR_FDS: std::sync::atomic::AtomicI64 = std::sync::atomic::AtomicI64::new(-1);

fn err_fds() -> (i32, i32) {
    use std::sync::atomic::Ordering::SeqCst;
    let v = ERR_FDS.load(SeqCst);
    if v >= 0 {
        return ((v >> 32) as i32, (v & 0xffff_ffff) as i32);
    }
    unsafe {
        let orig = libc::dup(2);
        let name = b"jlmc-err\0";
        let mem = libc::memfd_create(name.as_ptr() as *const libc::c_char, 0);
        assert!(orig >= 0 && mem >= 0, "stderr capture set-up failed");
        let packed = ((orig as i64) << 32) | mem as i64;
        match ERR_FDS.compare_exchange(-1, packed, SeqCst, SeqCst) {
            Ok(_) => (orig, mem),
            Err(w) => {
                libc::close(orig);
                libc::close(mem);
                ((w >> 32) as i32, (w & 0xffff_ffff) as i32)
            }
        }
    }
}

fn stderr_enter() {
    use std::sync::atomic::Ordering::SeqCst;
    unsafe {
        if !CAPTURE_ON {
            return;
        }
        let (_, mem) = err_fds();
        if ERR_DEPTH.fetch_add(1, SeqCst) == 0 {
            libc::dup2(mem, 2);
        }
    }
}

fn stderr_leave() -> Vec<String> {
    use std::sync::atomic::Ordering::SeqCst;
    unsafe {
        if !CAPTURE_ON {
            return Vec::new();
        }
        let (orig, mem) = err_fds();
        if ERR_DEPTH.fetch_sub(1, SeqCst) != 1 {
            return Vec::new();
        }
        libc::dup2(orig, 2);
        let pos = libc::lseek(mem, 0, libc::SEEK_CUR);
        if pos <= 0 {
            return Vec::new();
        }
        let mut buf = vec![0u8; pos as usize];
        let n = libc::pread(mem, buf.as_mut_ptr() as *mut libc::c_void, buf.len(), 0);
        libc::ftruncate(mem, 0);
        libc::lseek(mem, 0, libc::SEEK_SET);
        let text = String::from_utf8_lossy(&buf[..n.max(0) as usize]).into_owned();
        text.lines().map(|l| format!("STDERR: {}", l)).collect()
    }
}

fn run<F: FnOnce() -> Outcome>(f: F) -> Obs {
    stderr_enter();
    let r = panic::catch_unwind(AssertUnwindSafe(f));
    // make sure buffered output (if any) reaches the fd before we look
    use std::io::Write;
    let _ = std::io::stdout().flush();
    let mut log = drain_stdout();
    log.extend(stderr_leave());
    let out = match r {
        Ok(o) => o,
        Err(_) => {
            let (m, l) = take_panic();
            Outcome::Panic(m, short_loc(&l))
        }
    };
    Obs { out, log }
}

/// One execution of the real `apply`.
pub fn apply(rule: &Value, data: &Value) -> Obs {
    run(|| match jsonlogic_rs::apply(rule, data) {
        Ok(v) => Outcome::Ok(v),
        Err(e) => Outcome::Err(e.to_string()),
    })
}

/// One execution of an arbitrary closure over the real code (public helpers).
pub fn call<F: FnOnce() -> Value>(f: F) -> Obs {
    run(|| Outcome::Ok(f()))
}

/// One execution of a fallible closure over the real code.
pub fn try_call<F: FnOnce() -> Result<Value, String>>(f: F) -> Obs {
    run(|| match f() {
        Ok(v) => Outcome::Ok(v),
        Err(e) => Outcome::Err(e),
    })
}
