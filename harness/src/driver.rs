//! Parent side: fan out isolated worker processes, watch them (crash / hang), merge their
//! counters, match violations against KNOWN_FINDINGS.txt, write replay files and the
//! evidence file, print the verdict lines and choose the exit status
//! (0 held / 1 unlisted violation / 2 machinery error).

use crate::ctx::{self, Ctx};
use crate::exec;
use crate::refmodel;
use crate::spaces;
use serde_json::{json, Value};
use std::collections::{BTreeMap, HashSet};
use std::fs;
use std::path::PathBuf;
use std::process::{Child, Command, Stdio};
use std::time::{Duration, Instant};

/// (20 s until the end of round 19: a benign regression run on a heavily loaded machine then saw one shard of C15
/// make no progress for 20 s - not reproducible - so the limit is now a minute; a real hang is still found, later)
pub const HANG_SECS: u64 = 60;

pub fn root() -> PathBuf {
    PathBuf::from(std::env::var("VERIF_ROOT").unwrap_or_else(|_| "/verif".into()))
}
pub fn repo() -> PathBuf {
    PathBuf::from(std::env::var("VERIF_REPO").unwrap_or_else(|_| "/repo".into()))
}
pub fn seed() -> u64 {
    std::env::var("VERIF_SEED").ok().and_then(|s| s.parse::<i64>().ok()).unwrap_or(0).unsigned_abs()
}
pub fn ncpu() -> usize {
    std::env::var("JLMC_JOBS").ok().and_then(|s| s.parse().ok()).unwrap_or_else(|| {
        std::thread::available_parallelism().map(|n| n.get()).unwrap_or(4).min(16)
    })
}
fn profile_dir(profile: &str) -> &str {
    match profile {
        "dev" => "debug",
        p => p,
    }
}
pub fn bin_for(profile: &str) -> PathBuf {
    let base = std::env::var("JLMC_TARGET").expect("JLMC_TARGET not set (run through ./check)");
    PathBuf::from(base).join(profile_dir(profile)).join("jlmc")
}
fn work_dir() -> PathBuf {
    let d = PathBuf::from(std::env::var("JLMC_WORK").unwrap_or_else(|_| root().join(".build/work").to_string_lossy().into()));
    let _ = fs::create_dir_all(&d);
    d
}

// ---------------------------------------------------------------------------------
// worker side

pub fn worker(a: &[String]) -> i32 {
    let (prop, tier, profile) = (a[0].clone(), a[1].clone(), a[2].clone());
    let shard: u64 = a[3].parse().unwrap();
    let nshards: u64 = a[4].parse().unwrap();
    let outfile = a[5].clone();
    let trace = a.get(6).cloned();
    // never outlive the parent (it may be killed by a time limit)
    unsafe {
        libc::prctl(libc::PR_SET_PDEATHSIG, libc::SIGKILL);
    }
    exec::install_panic_hook();
    let _saved = exec::capture_stdout();
    // progress word shared with the parent through a file mapping
    let prog_path = format!("{}.prog", outfile);
    fs::write(&prog_path, [0u8; 8]).unwrap();
    std::env::set_var("JLMC_PROG", &prog_path);
    let prog_ptr = unsafe {
        let c = std::ffi::CString::new(prog_path.clone()).unwrap();
        let fd = libc::open(c.as_ptr(), libc::O_RDWR);
        let p = libc::mmap(std::ptr::null_mut(), 8, libc::PROT_READ | libc::PROT_WRITE, libc::MAP_SHARED, fd, 0);
        assert!(p != libc::MAP_FAILED);
        p as usize
    };
    let seed = seed();
    let h = std::thread::Builder::new()
        .stack_size(8 << 20)
        .spawn(move || {
            let mut ctx = Ctx::new(&prop, tier == "thorough", &profile, shard, nshards, seed);
            ctx.set_progress(prog_ptr as *mut u64);
            if let Some(t) = trace {
                ctx.set_trace(t);
            }
            let r = std::panic::catch_unwind(std::panic::AssertUnwindSafe(|| spaces::run(&mut ctx)));
            let mut out = ctx.to_json();
            if let Err(_) = r {
                out["machinery_panic"] = json!(true);
            }
            let hashes: Vec<u8> = ctx.nontrivial.iter().flat_map(|h| h.to_le_bytes()).collect();
            fs::write(format!("{}.hashes", outfile), hashes).unwrap();
            fs::write(&outfile, out.to_string()).unwrap();
        })
        .unwrap();
    match h.join() {
        Ok(_) => 0,
        Err(_) => 3,
    }
}

// ---------------------------------------------------------------------------------
// parent side

struct Job {
    profile: String,
    shard: u64,
    nshards: u64,
    outfile: String,
    trace: Option<String>,
}
struct Running {
    job: Job,
    child: Child,
    last_prog: u64,
    last_change: Instant,
}
enum JobEnd {
    Done,
    Died(String),
    Hung,
}

fn spawn(prop: &str, tier: &str, job: &Job) -> Child {
    if !bin_for(&job.profile).exists() {
        eprintln!("MACHINERY-ERROR: worker binary for profile {} is missing: {}", job.profile, bin_for(&job.profile).display());
        std::process::exit(2);
    }
    let _ = fs::remove_file(&job.outfile);
    let mut c = Command::new(bin_for(&job.profile));
    c.arg("worker")
        .arg(prop)
        .arg(tier)
        .arg(&job.profile)
        .arg(job.shard.to_string())
        .arg(job.nshards.to_string())
        .arg(&job.outfile);
    if let Some(t) = &job.trace {
        c.arg(t);
    }
    c.env_remove("RUST_BACKTRACE")
        .stdin(Stdio::null())
        .stdout(Stdio::null())
        .stderr(Stdio::inherit());
    c.spawn().expect("cannot spawn worker")
}

fn read_prog(outfile: &str) -> u64 {
    match fs::read(format!("{}.prog", outfile)) {
        Ok(b) if b.len() >= 8 => u64::from_le_bytes([b[0], b[1], b[2], b[3], b[4], b[5], b[6], b[7]]),
        _ => 0,
    }
}

/// Run jobs with at most `par` concurrently; returns how each ended.
fn run_jobs(prop: &str, tier: &str, jobs: Vec<Job>, par: usize) -> Vec<(Job, JobEnd)> {
    let mut queue: Vec<Job> = jobs;
    queue.reverse();
    let mut running: Vec<Running> = Vec::new();
    let mut ended = Vec::new();
    let hang = Duration::from_secs(
        std::env::var("JLMC_HANG_SECS").ok().and_then(|s| s.parse().ok()).unwrap_or(HANG_SECS),
    );
    while !queue.is_empty() || !running.is_empty() {
        while running.len() < par && !queue.is_empty() {
            let job = queue.pop().unwrap();
            let child = spawn(prop, tier, &job);
            running.push(Running { job, child, last_prog: 0, last_change: Instant::now() });
        }
        std::thread::sleep(Duration::from_millis(20));
        let mut i = 0;
        while i < running.len() {
            let r = &mut running[i];
            match r.child.try_wait() {
                Ok(Some(st)) => {
                    let r = running.remove(i);
                    if st.success() && fs::metadata(&r.job.outfile).is_ok() {
                        ended.push((r.job, JobEnd::Done));
                    } else {
                        ended.push((r.job, JobEnd::Died(format!("{}", st))));
                    }
                    continue;
                }
                Ok(None) => {
                    let p = read_prog(&r.job.outfile);
                    if p != r.last_prog {
                        r.last_prog = p;
                        r.last_change = Instant::now();
                    } else if r.last_change.elapsed() > hang {
                        if std::env::var("JLMC_DEBUG").is_ok() {
                            eprintln!("watchdog: killing {} shard {} at progress {}", r.job.profile, r.job.shard, p);
                        }
                        let _ = r.child.kill();
                        let _ = r.child.wait();
                        let r = running.remove(i);
                        ended.push((r.job, JobEnd::Hung));
                        continue;
                    }
                }
                Err(_) => {}
            }
            i += 1;
        }
    }
    ended
}

pub struct Merged {
    pub states: u64,
    pub transitions: u64,
    pub leaves: u64,
    pub evaluations: u64,
    pub unspecified: u64,
    pub outcomes: BTreeMap<String, u64>,
    pub subspaces: BTreeMap<String, u64>,
    pub per_profile: BTreeMap<String, u64>,
    pub violations: Vec<Value>,
    pub violation_count: u64,
    pub samples: Vec<Value>,
    pub hashes: HashSet<u64>,
    pub machinery_errors: Vec<String>,
    pub extra: BTreeMap<String, Value>,
}

fn add_map(into: &mut BTreeMap<String, u64>, v: &Value) {
    if let Some(m) = v.as_object() {
        for (k, n) in m {
            *into.entry(k.clone()).or_insert(0) += n.as_u64().unwrap_or(0);
        }
    }
}

pub fn check(prop: &str, tier: &str) -> i32 {
    let t0 = Instant::now();
    let thorough = tier == "thorough";
    if !spaces::known_prop(prop) {
        eprintln!("unknown property {}", prop);
        return 2;
    }
    // R must agree with the recorded JavaScript engine verdicts before it judges anything
    if crate::selftest::run(false) != 0 {
        eprintln!("MACHINERY-ERROR: reference model self-validation failed");
        return 2;
    }
    let plan = spaces::plan(prop, thorough);
    let par = ncpu();
    let wd = work_dir().join(format!("{}-{}-{}", prop, tier, std::process::id()));
    let _ = fs::remove_dir_all(&wd);
    fs::create_dir_all(&wd).unwrap();
    let mut jobs = Vec::new();
    for p in &plan.profiles {
        let n = plan.shards.min(par as u64).max(1);
        for s in 0..n {
            jobs.push(Job {
                profile: p.clone(),
                shard: s,
                nshards: n,
                outfile: wd.join(format!("{}-{}.json", p, s)).to_string_lossy().into(),
                trace: None,
            });
        }
    }
    let ended = run_jobs(prop, tier, jobs, par);

    let mut m = Merged {
        states: 0,
        transitions: 0,
        leaves: 0,
        evaluations: 0,
        unspecified: 0,
        outcomes: BTreeMap::new(),
        subspaces: BTreeMap::new(),
        per_profile: BTreeMap::new(),
        violations: Vec::new(),
        violation_count: 0,
        samples: Vec::new(),
        hashes: HashSet::new(),
        machinery_errors: Vec::new(),
        extra: BTreeMap::new(),
    };
    let mut exhaustive = true;
    let mut failed: Vec<(Job, String)> = Vec::new();
    for (job, end) in ended {
        match end {
            JobEnd::Done => merge_one(&mut m, &job),
            JobEnd::Died(s) => failed.push((job, format!("worker died ({})", s))),
            JobEnd::Hung => failed.push((job, format!("no progress for {} s (hang)", std::env::var("JLMC_HANG_SECS").ok().and_then(|s| s.parse::<u64>().ok()).unwrap_or(HANG_SECS)))),
        }
    }
    if !failed.is_empty() {
        exhaustive = false;
        // localise: re-run (a few of) the failed shards in trace mode, in parallel; the trace file
        // then holds the case that was executing when the worker died or stalled
        const LOCALISE: usize = 6;
        let mut reruns = Vec::new();
        for (job, _) in failed.iter().take(LOCALISE) {
            let trace = format!("{}.trace", job.outfile);
            let _ = fs::remove_file(&trace);
            reruns.push(Job {
                profile: job.profile.clone(),
                shard: job.shard,
                nshards: job.nshards,
                outfile: format!("{}.rerun", job.outfile),
                trace: Some(trace),
            });
        }
        let again = run_jobs(prop, tier, reruns, par);
        for (job, how) in failed.iter() {
            let rerun = again.iter().find(|(j, _)| j.profile == job.profile && j.shard == job.shard);
            match rerun {
                Some((j2, end2)) => {
                    let reproduced = !matches!(end2, JobEnd::Done);
                    let case: Option<Value> = j2.trace.as_ref().and_then(|t| fs::read_to_string(t).ok()).and_then(|s| serde_json::from_str(&s).ok());
                    match (reproduced, case) {
                        (true, Some(case)) => {
                            m.violation_count += 1;
                            m.violations.push(json!({
                                "sub": "process-fatal", "profile": job.profile, "case": case,
                                "expected": "Ok(_) or Err(_) (the call returns)",
                                "actual": format!("{} while executing this case", how), "site": Value::Null
                            }));
                        }
                        _ => m.machinery_errors.push(format!(
                            "{} in profile {} shard {} and the failure could not be localised (reproduced={})",
                            how, job.profile, job.shard, reproduced
                        )),
                    }
                }
                None => {
                    m.violation_count += 1;
                    m.violations.push(json!({
                        "sub": "process-fatal", "profile": job.profile,
                        "case": {"unlocalised_shard": format!("{}-{}", job.profile, job.shard), "note": "more shards failed than are localised per run"},
                        "expected": "Ok(_) or Err(_) (the call returns)", "actual": how, "site": Value::Null
                    }));
                }
            }
        }
    }
    if m.leaves == 0 {
        m.machinery_errors.push("no leaf was explored".into());
    }
    // C17: results of the fine-grained schedule exploration (separate nightly build, started by ./check)
    if let Ok(dir) = std::env::var("JLMC_FINE_DIR") {
        if dir.starts_with("BUILD-FAILED") {
            m.machinery_errors.push(format!("the fine-grained E3 harness did not build ({})", dir));
        } else {
            let (mut scheds, mut points, mut maxp, mut cfgs, mut divs, mut files) = (0u64, 0u64, 0u64, 0u64, 0u64, 0u64);
            let mut fine_names: std::collections::BTreeSet<String> = std::collections::BTreeSet::new();
            if let Ok(rd) = fs::read_dir(&dir) {
                for e in rd.flatten() {
                    if e.path().extension().map(|x| x == "json").unwrap_or(false) {
                        files += 1;
                        let v: Value = fs::read_to_string(e.path()).ok().and_then(|t| serde_json::from_str(&t).ok()).unwrap_or(Value::Null);
                        for r in v["results"].as_array().cloned().unwrap_or_default() {
                            if fine_names.insert(r["config"].as_str().unwrap_or("").to_string()) {
                                cfgs += 1;
                            }
                            scheds += r["schedules"].as_u64().unwrap_or(0);
                            points += r["points_total"].as_u64().unwrap_or(0);
                            maxp = maxp.max(r["max_points"].as_u64().unwrap_or(0));
                            divs += r["replay_divergences"].as_u64().unwrap_or(0);
                            if r["capped"].as_bool().unwrap_or(false) {
                                m.machinery_errors.push(format!("fine-grained E3: schedule cap hit in {}", r["config"]));
                            }
                            for viol in r["violations"].as_array().cloned().unwrap_or_default() {
                                m.violation_count += 1;
                                m.violations.push(json!({
                                    "sub": "schedule:function-entry-granularity", "profile": "fine",
                                    "case": {"config": r["config"], "threads": r["threads"], "schedule": viol["schedule"], "fine": true, "cold": viol["cold"]},
                                    "expected": viol["expected"], "actual": viol["actual"], "site": Value::Null
                                }));
                            }
                        }
                    }
                }
            }
            if files < 16 {
                m.machinery_errors.push(format!("fine-grained E3: only {} of 16 shard results were written (a shard died?)", files));
            }
            m.states += points + scheds;
            m.transitions += points;
            m.leaves += scheds;
            m.evaluations += scheds;
            *m.subspaces.entry("schedule:function-entry-granularity".into()).or_insert(0) += scheds;
            m.extra.insert("fine_grained_E3".into(), json!({
                "what": "tree under test compiled with -Z instrument-mcount at opt-level 0: every function entry (incl. monomorphised std generics such as Mutex::lock / RwLock::read) is a scheduling point; all schedules with at most one preemption, each configuration warm (in one process) and cold (every schedule in a forked child of a process that never evaluated anything), each execution followed by a sequential repetition of its calls",
                "configs": cfgs, "schedules": scheds, "scheduling_points_total": points, "max_points_per_execution": maxp, "replays_that_did_not_reproduce": divs
            }));
        }
    }
    // proviso for C17: verdict of the free-running miri run started by ./check (thorough tier)
    if let (Ok(log), Ok(status)) = (std::env::var("JLMC_MIRI_LOG"), std::env::var("JLMC_MIRI_STATUS")) {
        let txt = fs::read_to_string(&log).unwrap_or_default();
        let ok = status == "0" && txt.contains("MIRI-FREE-RUN ok");
        let ub = txt.contains("Undefined Behavior") || txt.contains("Data race") || txt.contains("data race") || txt.contains("differs from the single-threaded");
        let verdict = if ok { "no data race / UB reported" } else if ub { "miri reported a data race, UB or a wrong concurrent result" } else { "miri run did not complete (tooling); proviso not established in this run" };
        m.extra.insert("miri_free_run".into(), json!({"status": status, "verdict": verdict, "log": log}));
        if ub && !ok {
            m.violation_count += 1;
            let tail: String = txt.lines().rev().take(30).collect::<Vec<_>>().into_iter().rev().collect::<Vec<_>>().join("\n");
            m.violations.push(json!({
                "sub": "miri-free-run", "profile": "miri", "case": {"miri_log": log},
                "expected": "free-running concurrent calls on shared inputs: no data race, no UB, same results",
                "actual": tail, "site": Value::Null
            }));
        }
    }
    if m.outcomes.len() < 2 && m.violation_count == 0 && !plan.single_outcome_ok {
        m.machinery_errors.push(format!("vacuous space: one outcome class only: {:?}", m.outcomes));
    }

    // verdict
    let known = load_known();
    let mut unlisted = 0u64;
    let mut known_hits: BTreeMap<String, u64> = BTreeMap::new();
    let rdir = root().join("replays").join(prop);
    let mut lines: Vec<String> = Vec::new();
    for v in &m.violations {
        let case_txt = v["case"].to_string();
        let site = v["site"].as_str().unwrap_or("").to_string();
        let hit = known.iter().find(|k| {
            k.prop == prop && ((k.case.is_some() && k.case.as_deref() == Some(case_txt.as_str()))
                || (k.site.is_some() && !site.is_empty() && k.site.as_deref() == Some(site.as_str())))
        });
        match hit {
            Some(k) => {
                *known_hits.entry(k.text.clone()).or_insert(0) += 1;
            }
            None => {
                unlisted += 1;
                if unlisted <= 20 {
                    let _ = fs::create_dir_all(&rdir);
                    let mut rec = v.clone();
                    rec["property"] = json!(prop);
                    rec["tier"] = json!(tier);
                    if rec.get("profile").is_none() {
                        rec["profile"] = json!("release");
                    }
                    let path = rdir.join(format!("{:016x}.json", ctx::hash_str(&rec.to_string())));
                    let _ = fs::write(&path, serde_json::to_string_pretty(&rec).unwrap());
                    lines.push(format!("VIOLATION property={} replay={}", prop, path.display()));
                    let short = |v: &Value, n: usize| -> String {
                        let t = v.to_string();
                        if t.chars().count() > n {
                            format!("{}...", t.chars().take(n).collect::<String>())
                        } else {
                            t
                        }
                    };
                    let c = &v["case"];
                    let what = if c.get("rule").is_some() {
                        format!("rule={} data={}", short(&c["rule"], 300), short(&c["data"], 100))
                    } else {
                        short(c, 400)
                    };
                    eprintln!(
                        "  [{}|{}] {} :: expected {} :: got {}",
                        v["sub"].as_str().unwrap_or("?"),
                        v["profile"].as_str().unwrap_or("?"),
                        what,
                        short(&v["expected"], 200),
                        short(&v["actual"], 200)
                    );
                }
            }
        }
    }
    // violations beyond the per-worker cap are unlisted by definition
    let kept = m.violations.len() as u64;
    if m.violation_count > kept {
        unlisted += m.violation_count - kept;
    }
    for (k, n) in &known_hits {
        println!("KNOWN-FINDING: property={} {} (matched {} case(s))", prop, k, n);
    }
    for l in &lines {
        println!("{}", l);
    }
    let wall = t0.elapsed().as_secs_f64();
    let meta = spaces::meta(prop, thorough);
    let ev = json!({
        "property_id": prop,
        "tier": tier,
        "seed": seed(),
        "level": "model_checking",
        "coverage": {
            "states": m.states,
            "transitions": m.transitions,
            "traces_validated_against_impl": m.leaves,
            "evaluations": m.evaluations,
            "distinct_nontrivial": m.hashes.len(),
            "rule": meta.rule,
            "samples": m.samples.iter().take(10).collect::<Vec<_>>(),
            "exhaustive": exhaustive && m.machinery_errors.is_empty(),
            "unspecified_by_reference_model": m.unspecified,
            "outcome_histogram": m.outcomes,
            "subspaces": m.subspaces,
            "leaves_per_profile": m.per_profile,
            "bounds": meta.bounds,
            "engines": meta.engines,
            "known_findings_matched": known_hits,
            "machinery_errors": m.machinery_errors,
            "extra": m.extra,
        },
        "assumptions": meta.assumptions,
        "wall_s": wall,
        "violations": unlisted,
    });
    let evdir = root().join("evidence");
    let _ = fs::create_dir_all(&evdir);
    fs::write(evdir.join(format!("{}.json", prop)), serde_json::to_string_pretty(&ev).unwrap()).unwrap();
    let _ = fs::remove_dir_all(&wd);
    eprintln!(
        "{} {}: states={} transitions={} leaves={} evaluations={} distinct_nontrivial={} unspecified={} outcomes={} profiles={:?} wall={:.1}s",
        prop, tier, m.states, m.transitions, m.leaves, m.evaluations, m.hashes.len(), m.unspecified,
        m.outcomes.len(), plan.profiles, wall
    );
    if !m.machinery_errors.is_empty() {
        for e in &m.machinery_errors {
            eprintln!("MACHINERY-ERROR: {}", e);
        }
        if unlisted == 0 {
            return 2;
        }
    }
    if unlisted > 0 {
        if lines.is_empty() {
            println!("VIOLATION property={} replay={}", prop, rdir.display());
        }
        1
    } else {
        println!("OK property={} tier={} (no unlisted violation in {} executions)", prop, tier, m.evaluations);
        0
    }
}

fn merge_one(m: &mut Merged, job: &Job) {
    let txt = match fs::read_to_string(&job.outfile) {
        Ok(t) => t,
        Err(e) => {
            m.machinery_errors.push(format!("cannot read {}: {}", job.outfile, e));
            return;
        }
    };
    let v: Value = match serde_json::from_str(&txt) {
        Ok(v) => v,
        Err(e) => {
            // never silently: an unreadable result would hide whatever that worker found
            m.machinery_errors.push(format!("result of profile {} shard {} is not readable JSON: {}", job.profile, job.shard, e));
            return;
        }
    };
    if v.get("machinery_panic").is_some() {
        m.machinery_errors.push(format!("harness panicked in profile {} shard {}", job.profile, job.shard));
    }
    m.states += v["states"].as_u64().unwrap_or(0);
    m.transitions += v["transitions"].as_u64().unwrap_or(0);
    let leaves = v["leaves"].as_u64().unwrap_or(0);
    m.leaves += leaves;
    *m.per_profile.entry(job.profile.clone()).or_insert(0) += leaves;
    m.evaluations += v["evaluations"].as_u64().unwrap_or(0);
    m.unspecified += v["unspecified"].as_u64().unwrap_or(0);
    add_map(&mut m.outcomes, &v["outcomes"]);
    add_map(&mut m.subspaces, &v["subspaces"]);
    m.violation_count += v["violation_count"].as_u64().unwrap_or(0);
    if let Some(vs) = v["violations"].as_array() {
        for x in vs {
            let mut x = x.clone();
            x["profile"] = json!(job.profile);
            // the same case may fail in several profiles / shards: keep one
            if !m.violations.iter().any(|y| y["case"] == x["case"] && y["sub"] == x["sub"]) {
                m.violations.push(x);
            } else {
                m.violation_count -= 1;
            }
        }
    }
    if let Some(ss) = v["samples"].as_array() {
        if m.samples.len() < 10 {
            for s in ss.iter().take(3) {
                m.samples.push(s.clone());
            }
        }
    }
    if let Some(ex) = v["extra"].as_object() {
        for (k, val) in ex {
            let is_max = k.starts_with("max_") || k.contains("_max_") || k.ends_with("_alphabet_calls");
            match (m.extra.get(k).and_then(|x| x.as_u64()), val.as_u64()) {
                (Some(a), Some(b)) => {
                    m.extra.insert(k.clone(), json!(if is_max { a.max(b) } else { a + b }));
                }
                (None, _) => {
                    m.extra.insert(k.clone(), val.clone());
                }
                _ => {}
            }
        }
    }
    if let Ok(b) = fs::read(format!("{}.hashes", job.outfile)) {
        for c in b.chunks_exact(8) {
            m.hashes.insert(u64::from_le_bytes([c[0], c[1], c[2], c[3], c[4], c[5], c[6], c[7]]));
        }
    }
}

// ---------------------------------------------------------------------------------
// known findings

pub struct Known {
    pub prop: String,
    pub case: Option<String>,
    pub site: Option<String>,
    pub text: String,
}

/// Lines: `known: property=<id> case=<canonical json> :: <what fails>`
///        `known: property=<id> site=<src/file.rs:line> :: <what fails>`
///        `fixed: property=<id> <commit> <what failed>`        (suppresses nothing)
pub fn load_known() -> Vec<Known> {
    let mut out = Vec::new();
    let txt = fs::read_to_string(root().join("KNOWN_FINDINGS.txt")).unwrap_or_default();
    for line in txt.lines() {
        let line = line.trim();
        if !line.starts_with("known:") {
            continue;
        }
        let body = line["known:".len()..].trim();
        let (head, text) = match body.split_once(" :: ") {
            Some((h, t)) => (h.trim(), t.trim().to_string()),
            None => (body, String::new()),
        };
        let prop = head.split_whitespace().next().and_then(|t| t.strip_prefix("property=")).unwrap_or("").to_string();
        let rest = head.splitn(2, char::is_whitespace).nth(1).unwrap_or("").trim();
        let (mut case, mut site) = (None, None);
        if let Some(c) = rest.strip_prefix("case=") {
            // canonicalise through the parser so spacing does not matter
            case = serde_json::from_str::<Value>(c).ok().map(|v| v.to_string());
        } else if let Some(s) = rest.strip_prefix("site=") {
            site = Some(s.trim().to_string());
        }
        out.push(Known { prop, case, site, text: if text.is_empty() { rest.to_string() } else { text } });
    }
    out
}

// ---------------------------------------------------------------------------------
// replay

pub fn replay(path: &str) -> i32 {
    let txt = fs::read_to_string(path).expect("cannot read replay file");
    let mut rec: Value = serde_json::from_str(&txt).expect("replay file is not JSON");
    let prop = rec["property"].as_str().unwrap_or("?").to_string();
    // cases carried as text (nested too deeply to embed in the record): rebuilt when the parser accepts them
    if let Some(t) = rec["case"]["case_text"].as_str().map(|s| s.to_string()) {
        match serde_json::from_str::<Value>(&t) {
            Ok(v) => rec["case"] = v,
            Err(e) => {
                println!("the recorded case is nested deeper than JSON text can carry ({}); it cannot be rebuilt from the record - re-run the check", e);
                return 2;
            }
        }
    } else if let (Some(r), Some(d)) = (rec["case"]["rule_text"].as_str().map(|s| s.to_string()), rec["case"]["data_text"].as_str().map(|s| s.to_string())) {
        match (serde_json::from_str::<Value>(&r), serde_json::from_str::<Value>(&d)) {
            (Ok(rv), Ok(dv)) => rec["case"] = json!({"rule": rv, "data": dv}),
            _ => {
                println!("the recorded case is nested deeper than JSON text can carry; it cannot be rebuilt from the record - re-run the check");
                return 2;
            }
        }
    }
    let case = &rec["case"];
    exec::install_panic_hook();
    if let Some(code) = spaces::replay_special(&prop, &rec) {
        return code;
    }
    let (rule, data) = (&case["rule"], &case["data"]);
    let saved = exec::capture_stdout();
    let obs = exec::apply(rule, data);
    let (exp, tr) = refmodel::reference(rule, data);
    unsafe {
        libc::dup2(saved, 1);
    }
    println!("property : {}", prop);
    println!("rule     : {}", rule);
    println!("data     : {}", data);
    println!("reference: {} log={:?}", exp.show(), tr.lines);
    println!("observed : {}", obs.show());
    println!("recorded : expected {} / actual {}", rec["expected"], rec["actual"]);
    let mut c = Ctx::new(&prop, false, "replay", 0, 1, 0);
    c.judge("replay", rule, data, &obs, &exp, &tr, true);
    if c.violation_count > 0 || matches!(obs.out, exec::Outcome::Panic(..)) {
        println!("VIOLATION property={} replay={}", prop, path);
        1
    } else {
        println!("(this build of the tree does not violate the reference on this case; laws and profile-specific failures need `./check {} quick`)", prop);
        0
    }
}
