//! R: the reference model. A deliberately boring, single-pass interpreter of the
//! *property statements* (DESIGN.md Appendix A), independent of the code under test.
//! It is partial: wherever the statements do not pin behaviour it answers `Unspec`,
//! and then only totality (C01) is demanded of the implementation.

use serde_json::{Map, Number, Value};

#[derive(Clone, Debug, PartialEq)]
pub enum Exp {
    Val(Value),
    Err,
    Unspec,
}

impl Exp {
    pub fn show(&self) -> String {
        match self {
            Exp::Val(v) => format!("Ok({})", v),
            Exp::Err => "Err".into(),
            Exp::Unspec => "Unspecified".into(),
        }
    }
}

#[derive(Debug, Clone)]
pub struct Trace {
    /// JSON text of every logged value, in R's (left-to-right) evaluation order
    pub lines: Vec<String>,
    /// the logged values themselves (the line format is not pinned by any property)
    pub values: Vec<Value>,
    /// false once an eager operator (or map / filter over >= 2 elements, or reduce's collection vs
    /// initial value) had two or more operands that print: the properties fix the order of evaluation
    /// only for if / ?: / and / or / all / some / none and within reduce's fold
    pub order_pinned: bool,
}
impl Default for Trace {
    fn default() -> Self {
        Trace { lines: Vec::new(), values: Vec::new(), order_pinned: true }
    }
}

pub const OPS: [&str; 35] = [
    "==", "!=", "===", "!==", "!", "!!", "<", "<=", ">", ">=", "+", "-", "*", "/", "%", "max",
    "min", "merge", "in", "cat", "substr", "log", "var", "missing", "missing_some", "if", "?:",
    "or", "and", "map", "filter", "reduce", "all", "some", "none",
];

pub const LAZY: [&str; 10] = [
    "if", "?:", "or", "and", "map", "filter", "reduce", "all", "some", "none",
];

/// The 22 operators whose operands are plain values (no access to data, eager).
pub const EAGER: [&str; 22] = [
    "==", "!=", "===", "!==", "!", "!!", "<", "<=", ">", ">=", "+", "-", "*", "/", "%", "max",
    "min", "merge", "in", "cat", "substr", "log",
];

pub fn is_op(name: &str) -> bool {
    OPS.contains(&name)
}
pub fn is_lazy(name: &str) -> bool {
    LAZY.contains(&name)
}

/// Accepted operand counts, transcribed from the statement of C03.
pub fn arity_ok(op: &str, n: usize) -> bool {
    match op {
        "==" | "!=" | "===" | "!==" | "/" | "%" | "in" | "map" | "filter" | "all" | "some"
        | "none" | "missing_some" => n == 2,
        "<" | "<=" | ">" | ">=" | "substr" => n == 2 || n == 3,
        "reduce" => n == 3,
        "!" | "!!" | "log" => n == 1,
        "-" => n == 1 || n == 2,
        "var" => n <= 2,
        "*" | "max" | "min" | "and" | "or" => n >= 1,
        "+" | "cat" | "merge" | "missing" | "if" | "?:" => true,
        _ => false,
    }
}

/// `v` is an operation iff it is an object with exactly one key which is an operator name.
/// Returns the name and the operand list (`[x]` for a non-array operand `x`).
pub fn as_operation(v: &Value) -> Option<(&str, Vec<&Value>)> {
    let obj = v.as_object()?;
    if obj.len() != 1 {
        return None;
    }
    let (k, a) = obj.iter().next()?;
    if !is_op(k) {
        return None;
    }
    let args = match a {
        Value::Array(xs) => xs.iter().collect(),
        x => vec![x],
    };
    Some((k.as_str(), args))
}

/// Is every operation-shaped node reachable by eager parsing well-formed (arity)?
/// Used only to decide `Unspec` for expressions that are never evaluated (empty collections).
pub fn static_ok(v: &Value) -> bool {
    match as_operation(v) {
        None => true,
        Some((op, args)) => {
            if !arity_ok(op, args.len()) {
                return false;
            }
            args.iter().all(|a| static_ok(a))
        }
    }
}

// ---------------------------------------------------------------------------------
// A.2 truthiness

pub fn truthy(v: &Value) -> bool {
    match v {
        Value::Null => false,
        Value::Bool(b) => *b,
        Value::Number(n) => num(n) != 0.0,
        Value::String(s) => !s.is_empty(),
        Value::Array(a) => !a.is_empty(),
        Value::Object(_) => true,
    }
}

pub fn num(n: &Number) -> f64 {
    n.as_f64().unwrap_or(f64::NAN)
}

// ---------------------------------------------------------------------------------
// A.3 string form

pub fn str_form(v: &Value) -> String {
    match v {
        Value::Null => "null".into(),
        Value::Bool(b) => b.to_string(),
        Value::Number(n) => n.to_string(),
        Value::String(s) => s.clone(),
        Value::Array(a) => a
            .iter()
            .map(|x| if x.is_null() { String::new() } else { str_form(x) })
            .collect::<Vec<_>>()
            .join(","),
        Value::Object(_) => "[object Object]".into(),
    }
}

// ---------------------------------------------------------------------------------
// A.4 StringToNumber / ToNumber / parseFloat

/// ECMAScript WhiteSpace + LineTerminator.
pub fn is_js_space(c: char) -> bool {
    matches!(
        c,
        '\u{9}' | '\u{A}' | '\u{B}' | '\u{C}' | '\u{D}' | ' ' | '\u{A0}' | '\u{1680}'
            | '\u{2000}'..='\u{200A}' | '\u{2028}' | '\u{2029}' | '\u{202F}' | '\u{205F}'
            | '\u{3000}' | '\u{FEFF}'
    )
}

fn scan_digits(b: &[u8], mut i: usize) -> usize {
    while i < b.len() && b[i].is_ascii_digit() {
        i += 1;
    }
    i
}

/// Longest prefix of `s` that is a StrDecimalLiteral without sign/Infinity handling:
/// digits(.digits*)? | .digits, optionally followed by a complete exponent. Returns its length.
fn scan_decimal(b: &[u8]) -> usize {
    let mut i = scan_digits(b, 0);
    let int_digits = i;
    let mut mant_end;
    if i < b.len() && b[i] == b'.' {
        let j = scan_digits(b, i + 1);
        let frac_digits = j - (i + 1);
        if int_digits == 0 && frac_digits == 0 {
            return 0;
        }
        mant_end = j;
        i = j;
    } else {
        if int_digits == 0 {
            return 0;
        }
        mant_end = i;
    }
    if i < b.len() && (b[i] == b'e' || b[i] == b'E') {
        let mut j = i + 1;
        if j < b.len() && (b[j] == b'+' || b[j] == b'-') {
            j += 1;
        }
        let k = scan_digits(b, j);
        if k > j {
            mant_end = k;
        }
    }
    mant_end
}

fn parse_validated_decimal(s: &str) -> f64 {
    // `s` matches digits(.digits*)?|.digits with optional exponent: Rust's parser is
    // correctly rounded on this grammar ("1." and ".5" are accepted).
    s.parse::<f64>().unwrap_or(f64::NAN)
}

/// StringToNumber (Number("...")): NaN when not numeric.
pub fn string_to_number(s: &str) -> f64 {
    let t = s.trim_matches(is_js_space);
    if t.is_empty() {
        return 0.0;
    }
    let b = t.as_bytes();
    if b.len() > 2 && b[0] == b'0' {
        let radix = match b[1] {
            b'x' | b'X' => 16,
            b'o' | b'O' => 8,
            b'b' | b'B' => 2,
            _ => 0,
        };
        if radix != 0 {
            // the value of the digit string, correctly rounded once (radix is a power of two, so
            // the binary expansion is the concatenation of the digits' bits)
            let bits_per = match radix {
                16 => 4,
                8 => 3,
                _ => 1,
            };
            let mut bits: Vec<u8> = Vec::new();
            for &c in &b[2..] {
                let d = match (c as char).to_digit(radix) {
                    Some(d) => d,
                    None => return f64::NAN,
                };
                for k in (0..bits_per).rev() {
                    bits.push(((d >> k) & 1) as u8);
                }
            }
            let first = bits.iter().position(|&x| x == 1);
            let bits = match first {
                None => return 0.0,
                Some(i) => &bits[i..],
            };
            if bits.len() <= 64 {
                let mut v: u64 = 0;
                for &x in bits {
                    v = (v << 1) | x as u64;
                }
                return v as f64; // u64 -> f64 conversion rounds to nearest, ties to even
            }
            let mut m: u64 = 0;
            for &x in &bits[..64] {
                m = (m << 1) | x as u64;
            }
            let sticky = bits[64..].iter().any(|&x| x == 1);
            let exp = (bits.len() - 64) as i32;
            let mut top = m >> 11;
            let rem = m & 0x7ff;
            let half = 0x400;
            if rem > half || (rem == half && (sticky || top & 1 == 1)) {
                top += 1;
            }
            return (top as f64) * 2f64.powi(11 + exp);
        }
    }
    let (neg, rest) = match b[0] {
        b'+' => (false, &t[1..]),
        b'-' => (true, &t[1..]),
        _ => (false, t),
    };
    let v = if rest == "Infinity" {
        f64::INFINITY
    } else {
        let rb = rest.as_bytes();
        let n = scan_decimal(rb);
        if n == 0 || n != rb.len() {
            return f64::NAN;
        }
        parse_validated_decimal(rest)
    };
    if neg {
        -v
    } else {
        v
    }
}

/// ToNumber over JSON values.
pub fn to_number(v: &Value) -> f64 {
    match v {
        Value::Null => 0.0,
        Value::Bool(b) => {
            if *b {
                1.0
            } else {
                0.0
            }
        }
        Value::Number(n) => num(n),
        Value::String(s) => string_to_number(s),
        _ => string_to_number(&str_form(v)),
    }
}

/// parseFloat on a string.
pub fn parse_float_str(s: &str) -> f64 {
    let t = s.trim_start_matches(is_js_space);
    let b = t.as_bytes();
    if b.is_empty() {
        return f64::NAN;
    }
    let (neg, off) = match b[0] {
        b'+' => (false, 1),
        b'-' => (true, 1),
        _ => (false, 0),
    };
    let rest = &t[off..];
    let v = if rest.starts_with("Infinity") {
        f64::INFINITY
    } else {
        let n = scan_decimal(rest.as_bytes());
        if n == 0 {
            return f64::NAN;
        }
        parse_validated_decimal(&rest[..n])
    };
    if neg {
        -v
    } else {
        v
    }
}

pub fn parse_float(v: &Value) -> f64 {
    match v {
        Value::Number(n) => num(n),
        Value::String(s) => parse_float_str(s),
        _ => parse_float_str(&str_form(v)),
    }
}

// ---------------------------------------------------------------------------------
// A.5 equality

pub fn strict_eq(a: &Value, b: &Value) -> bool {
    match (a, b) {
        (Value::Null, Value::Null) => true,
        (Value::Bool(x), Value::Bool(y)) => x == y,
        (Value::Number(x), Value::Number(y)) => num(x) == num(y),
        (Value::String(x), Value::String(y)) => x == y,
        _ => false,
    }
}

fn is_container(v: &Value) -> bool {
    v.is_array() || v.is_object()
}

pub fn loose_eq(a: &Value, b: &Value) -> bool {
    match (a, b) {
        (Value::Null, Value::Null) => true,
        (Value::Null, _) | (_, Value::Null) => false,
        (Value::Number(_), Value::Number(_))
        | (Value::String(_), Value::String(_))
        | (Value::Bool(_), Value::Bool(_)) => strict_eq(a, b),
        (Value::Number(x), Value::String(s)) => num(x) == string_to_number(s),
        (Value::String(s), Value::Number(y)) => string_to_number(s) == num(y),
        (Value::Bool(x), _) => loose_eq(&Value::from(if *x { 1 } else { 0 }), b),
        (_, Value::Bool(y)) => loose_eq(a, &Value::from(if *y { 1 } else { 0 })),
        (x, y) if is_container(x) && is_container(y) => false,
        (x, _) if is_container(x) => loose_eq(&Value::String(str_form(x)), b),
        (_, y) if is_container(y) => loose_eq(a, &Value::String(str_form(y))),
        _ => false,
    }
}

// ---------------------------------------------------------------------------------
// A.6 relational

enum Prim {
    S(String),
    N(f64),
}
fn prim(v: &Value) -> Prim {
    match v {
        Value::Null | Value::Bool(_) | Value::Number(_) => Prim::N(to_number(v)),
        Value::String(s) => Prim::S(s.clone()),
        _ => Prim::S(str_form(v)),
    }
}
fn cmp_cp(a: &str, b: &str) -> std::cmp::Ordering {
    a.chars().cmp(b.chars())
}

/// op in {"<", "<=", ">", ">="}
pub fn relational(op: &str, a: &Value, b: &Value) -> bool {
    use std::cmp::Ordering::*;
    match (prim(a), prim(b)) {
        (Prim::S(x), Prim::S(y)) => {
            let o = cmp_cp(&x, &y);
            match op {
                "<" => o == Less,
                "<=" => o != Greater,
                ">" => o == Greater,
                _ => o != Less,
            }
        }
        (x, y) => {
            let f = |p: Prim| match p {
                Prim::N(n) => n,
                Prim::S(s) => string_to_number(&s),
            };
            let (x, y) = (f(x), f(y));
            match op {
                "<" => x < y,
                "<=" => x <= y,
                ">" => x > y,
                _ => x >= y,
            }
        }
    }
}

// ---------------------------------------------------------------------------------
// A.7 arithmetic result spelling

/// JSON number for a finite double: integer spelling iff integral and in [-2^63, 2^64).
pub fn number_value(x: f64) -> Option<Value> {
    if !x.is_finite() {
        return None;
    }
    if x.fract() == 0.0 {
        if x >= -9223372036854775808.0 && x < 9223372036854775808.0 {
            return Some(Value::from(x as i64));
        }
        if x >= 9223372036854775808.0 && x < 18446744073709551616.0 {
            return Some(Value::from(x as u64));
        }
    }
    Number::from_f64(x).map(Value::Number)
}

fn arith(op: &str, vals: &[Value]) -> Exp {
    let conv: Vec<f64> = match op {
        "+" | "*" => vals.iter().map(parse_float).collect(),
        _ => vals.iter().map(to_number).collect(),
    };
    if conv.iter().any(|x| x.is_nan()) {
        return Exp::Err;
    }
    let r = match op {
        "+" => conv.iter().fold(0.0, |a, x| a + x),
        "*" => conv.iter().fold(1.0, |a, x| a * x),
        "-" => {
            if conv.len() == 1 {
                -conv[0]
            } else {
                conv[0] - conv[1]
            }
        }
        "/" => conv[0] / conv[1],
        "%" => conv[0] % conv[1],
        "max" => conv.iter().cloned().fold(f64::NEG_INFINITY, f64::max),
        "min" => conv.iter().cloned().fold(f64::INFINITY, f64::min),
        _ => unreachable!(),
    };
    if !r.is_finite() {
        return Exp::Err;
    }
    // An infinite *operand* with a finite result ("Infinity" through min, or as a
    // divisor) is not pinned by the statement either way.
    if conv.iter().any(|x| x.is_infinite()) {
        return Exp::Unspec;
    }
    match number_value(r) {
        Some(v) => Exp::Val(v),
        None => Exp::Err,
    }
}

// ---------------------------------------------------------------------------------
// A.8 var / missing / missing_some

pub enum Look {
    Found(Value),
    Absent,
    Unspec,
}

/// Split on unescaped dots; `None` when the spelling is outside the specified fragment
/// (empty segment, dangling backslash).
pub fn split_path(s: &str) -> Option<Vec<String>> {
    let mut out = Vec::new();
    let mut cur = String::new();
    let mut esc = false;
    for c in s.chars() {
        if esc {
            cur.push(c);
            esc = false;
        } else if c == '\\' {
            esc = true;
        } else if c == '.' {
            if cur.is_empty() {
                return None;
            }
            out.push(std::mem::take(&mut cur));
        } else {
            cur.push(c);
        }
    }
    if esc || cur.is_empty() {
        return None;
    }
    out.push(cur);
    Some(out)
}

enum Idx {
    I(i128),
    NotIndex,
    Unspec,
}
fn index_of(seg: &str) -> Idx {
    let b = seg.as_bytes();
    let (neg, d) = if b.first() == Some(&b'-') { (true, &b[1..]) } else { (false, b) };
    let all_digits = !d.is_empty() && d.iter().all(|c| c.is_ascii_digit());
    if all_digits {
        let canonical = (d == b"0" && !neg) || (d[0] != b'0');
        if !canonical {
            return Idx::Unspec;
        }
        if d.len() > 30 {
            return Idx::I(if neg { i128::MIN / 2 } else { i128::MAX / 2 });
        }
        let v: i128 = std::str::from_utf8(d).unwrap().parse().unwrap();
        return Idx::I(if neg { -v } else { v });
    }
    // other spellings some integer parsers accept
    if b.first() == Some(&b'+') && b.len() > 1 && b[1..].iter().all(|c| c.is_ascii_digit()) {
        return Idx::Unspec;
    }
    Idx::NotIndex
}

fn nth<T: Clone>(items: &[T], i: i128) -> Option<T> {
    let n = items.len() as i128;
    let j = if i >= 0 { i } else { n + i };
    if j < 0 || j >= n {
        None
    } else {
        Some(items[j as usize].clone())
    }
}

fn step_index(cur: &Value, i: i128) -> Look {
    match cur {
        Value::Array(a) => match nth(a, i) {
            Some(v) => Look::Found(v),
            None => Look::Absent,
        },
        Value::String(s) => {
            let cs: Vec<char> = s.chars().collect();
            match nth(&cs, i) {
                Some(c) => Look::Found(Value::String(c.to_string())),
                None => Look::Absent,
            }
        }
        _ => Look::Absent,
    }
}

pub fn lookup(data: &Value, key: &Value) -> Look {
    match key {
        Value::Null => Look::Found(data.clone()),
        Value::String(s) if s.is_empty() => Look::Found(data.clone()),
        Value::String(s) => {
            let segs = match split_path(s) {
                Some(x) => x,
                None => return Look::Unspec,
            };
            let mut cur = data.clone();
            for seg in segs {
                let next = match &cur {
                    Value::Object(m) => match m.get(&seg) {
                        Some(v) => Look::Found(v.clone()),
                        None => Look::Absent,
                    },
                    Value::Array(_) | Value::String(_) => match index_of(&seg) {
                        Idx::I(i) => step_index(&cur, i),
                        Idx::NotIndex => Look::Absent,
                        Idx::Unspec => Look::Unspec,
                    },
                    _ => Look::Absent,
                };
                match next {
                    Look::Found(v) => cur = v,
                    other => return other,
                }
            }
            Look::Found(cur)
        }
        Value::Number(n) => {
            let i = match n.as_i64() {
                Some(i) => i,
                None => return Look::Unspec,
            };
            match data {
                Value::Object(m) => match m.get(&i.to_string()) {
                    Some(v) => Look::Found(v.clone()),
                    None => Look::Absent,
                },
                Value::Array(_) | Value::String(_) => step_index(data, i as i128),
                _ => Look::Absent,
            }
        }
        _ => Look::Unspec,
    }
}

fn missing(data: &Value, vals: &[Value]) -> Exp {
    let keys: Vec<Value> = match vals.first() {
        Some(Value::Array(a)) => a.clone(),
        _ => vals.to_vec(),
    };
    let mut out: Vec<Value> = Vec::new();
    let mut seen: std::collections::HashSet<String> = std::collections::HashSet::new();
    for k in &keys {
        if k.is_null() {
            continue;
        }
        match lookup(data, k) {
            Look::Found(_) => {}
            Look::Absent => {
                if !seen.insert(k.to_string()) {
                    // whether a repeated absent key is reported once or twice is not pinned
                    return Exp::Unspec;
                }
                out.push(k.clone())
            }
            Look::Unspec => return Exp::Unspec,
        }
    }
    Exp::Val(Value::Array(out))
}

fn missing_some(data: &Value, vals: &[Value]) -> Exp {
    let n = match &vals[0] {
        Value::Number(n) => match n.as_u64() {
            Some(n) => n,
            None => return Exp::Unspec,
        },
        _ => return Exp::Unspec,
    };
    let keys = match &vals[1] {
        Value::Array(a) => a,
        _ => return Exp::Unspec,
    };
    let mut present_distinct: Vec<&Value> = Vec::new();
    let mut present_total = 0u64;
    let mut absent: Vec<Value> = Vec::new();
    let mut seen_present: std::collections::HashSet<String> = std::collections::HashSet::new();
    let mut seen_absent: std::collections::HashSet<String> = std::collections::HashSet::new();
    for k in keys {
        if k.is_null() {
            return Exp::Unspec;
        }
        match lookup(data, k) {
            Look::Found(_) => {
                present_total += 1;
                if seen_present.insert(k.to_string()) {
                    present_distinct.push(k);
                }
            }
            Look::Absent => {
                if seen_absent.insert(k.to_string()) {
                    absent.push(k.clone());
                }
            }
            Look::Unspec => return Exp::Unspec,
        }
    }
    if present_distinct.len() as u64 >= n {
        Exp::Val(Value::Array(vec![]))
    } else if present_total >= n {
        Exp::Unspec
    } else {
        Exp::Val(Value::Array(absent))
    }
}

// ---------------------------------------------------------------------------------
// A.11 in / substr

/// Deep structural equality with numeric comparison of numbers. `None` = the exact
/// and the double comparison disagree (unspecified corner).
pub fn deep_eq(a: &Value, b: &Value) -> Option<bool> {
    match (a, b) {
        (Value::Number(x), Value::Number(y)) => {
            let as_int = |n: &Number| -> Option<i128> {
                n.as_i64().map(|v| v as i128).or(n.as_u64().map(|v| v as i128))
            };
            let d = num(x) == num(y);
            let exact = match (as_int(x), as_int(y)) {
                // two integers: numerically equal iff the same integer, nothing unspecified about it
                (Some(i), Some(j)) => return Some(i == j),
                (Some(i), None) => float_eq_int(num(y), i),
                (None, Some(j)) => float_eq_int(num(x), j),
                (None, None) => d,
            };
            if exact == d {
                Some(d)
            } else {
                None
            }
        }
        (Value::Array(x), Value::Array(y)) => {
            if x.len() != y.len() {
                return Some(false);
            }
            let mut unspec = false;
            for (p, q) in x.iter().zip(y) {
                match deep_eq(p, q) {
                    Some(false) => return Some(false),
                    None => unspec = true,
                    _ => {}
                }
            }
            if unspec {
                None
            } else {
                Some(true)
            }
        }
        (Value::Object(x), Value::Object(y)) => {
            if x.len() != y.len() {
                return Some(false);
            }
            let mut unspec = false;
            for (k, p) in x {
                match y.get(k) {
                    None => return Some(false),
                    Some(q) => match deep_eq(p, q) {
                        Some(false) => return Some(false),
                        None => unspec = true,
                        _ => {}
                    },
                }
            }
            if unspec {
                None
            } else {
                Some(true)
            }
        }
        (Value::Number(_), _) | (_, Value::Number(_)) => Some(false),
        _ => Some(a == b),
    }
}

fn float_eq_int(f: f64, i: i128) -> bool {
    f.fract() == 0.0 && f.abs() < 1e30 && (f as i128) == i
}

fn op_in(vals: &[Value]) -> Exp {
    let (needle, hay) = (&vals[0], &vals[1]);
    match hay {
        Value::Null => Exp::Val(Value::Bool(false)),
        Value::String(h) => match needle {
            Value::String(n) => Exp::Val(Value::Bool(h.contains(n.as_str()))),
            _ => Exp::Err,
        },
        Value::Array(items) => {
            let mut unspec = false;
            for it in items {
                match deep_eq(needle, it) {
                    Some(true) => return Exp::Val(Value::Bool(true)),
                    None => unspec = true,
                    _ => {}
                }
            }
            if unspec {
                Exp::Unspec
            } else {
                Exp::Val(Value::Bool(false))
            }
        }
        _ => Exp::Err,
    }
}

fn substr(vals: &[Value]) -> Exp {
    let s = match &vals[0] {
        Value::String(s) => s,
        _ => return Exp::Unspec,
    };
    let int = |v: &Value| -> Option<i128> {
        match v {
            Value::Number(n) => n.as_i64().map(|x| x as i128),
            _ => None,
        }
    };
    let i = match int(&vals[1]) {
        Some(i) => i,
        None => return Exp::Unspec,
    };
    let chars: Vec<char> = s.chars().collect();
    let n = chars.len() as i128;
    let start = if i >= 0 { i.min(n) } else { (n + i).max(0) };
    let end = if vals.len() > 2 {
        let l = match int(&vals[2]) {
            Some(l) => l,
            None => return Exp::Unspec,
        };
        if l >= 0 {
            (start + l).min(n)
        } else {
            (n + l).max(0)
        }
    } else {
        n
    };
    let out: String = if end > start {
        chars[start as usize..end as usize].iter().collect()
    } else {
        String::new()
    };
    Exp::Val(Value::String(out))
}

// ---------------------------------------------------------------------------------
// the interpreter

macro_rules! need {
    ($e:expr) => {
        match $e {
            Exp::Val(v) => v,
            other => return other,
        }
    };
}

pub fn eval(rule: &Value, data: &Value, tr: &mut Trace) -> Exp {
    let (op, args) = match as_operation(rule) {
        None => return Exp::Val(rule.clone()),
        Some(x) => x,
    };
    if !arity_ok(op, args.len()) {
        return Exp::Err;
    }
    if is_lazy(op) {
        return eval_lazy(op, &args, data, tr);
    }
    // `var` with a default: whether the default expression is evaluated when the key is present is
    // not pinned by any property (C04 says "at most once"); R decides only when it makes no difference
    if op == "var" && args.len() == 2 {
        let key = match eval(args[0], data, tr) {
            Exp::Val(v) => v,
            other => return other,
        };
        let mut scratch = Trace::default();
        let dflt = eval(args[1], data, &mut scratch);
        let silent = scratch.lines.is_empty();
        return match lookup(data, &key) {
            Look::Unspec => Exp::Unspec,
            Look::Found(v) => {
                if silent && matches!(dflt, Exp::Val(_)) {
                    Exp::Val(v)
                } else {
                    // an erroring / printing / unspecified default next to a present key: either behaviour is fine
                    Exp::Unspec
                }
            }
            Look::Absent => {
                tr.lines.extend(scratch.lines);
                tr.values.extend(scratch.values);
                if !scratch.order_pinned {
                    tr.order_pinned = false;
                }
                dflt
            }
        };
    }
    // eager: operands left to right; an error in any of them is the result
    let mut vals = Vec::with_capacity(args.len());
    let mut unspec = false;
    let mut printing_operands = 0;
    for a in &args {
        let before = tr.lines.len();
        let r = eval(a, data, tr);
        if tr.lines.len() > before {
            printing_operands += 1;
            if printing_operands >= 2 {
                tr.order_pinned = false;
            }
        }
        match r {
            Exp::Val(v) => vals.push(v),
            Exp::Err => return Exp::Err,
            Exp::Unspec => {
                unspec = true;
                vals.push(Value::Null)
            }
        }
    }
    if unspec {
        return Exp::Unspec;
    }
    apply_eager(op, &vals, data, tr)
}

fn b(x: bool) -> Exp {
    Exp::Val(Value::Bool(x))
}

pub fn apply_eager(op: &str, vals: &[Value], data: &Value, tr: &mut Trace) -> Exp {
    match op {
        "==" => b(loose_eq(&vals[0], &vals[1])),
        "!=" => b(!loose_eq(&vals[0], &vals[1])),
        "===" => b(strict_eq(&vals[0], &vals[1])),
        "!==" => b(!strict_eq(&vals[0], &vals[1])),
        "!" => b(!truthy(&vals[0])),
        "!!" => b(truthy(&vals[0])),
        "<" | "<=" | ">" | ">=" => {
            let mut r = relational(op, &vals[0], &vals[1]);
            if vals.len() == 3 {
                r = r && relational(op, &vals[1], &vals[2]);
            }
            b(r)
        }
        "+" | "-" | "*" | "/" | "%" | "max" | "min" => arith(op, vals),
        "merge" => {
            let mut out = Vec::new();
            for v in vals {
                match v {
                    Value::Array(a) => out.extend(a.iter().cloned()),
                    x => out.push(x.clone()),
                }
            }
            Exp::Val(Value::Array(out))
        }
        "in" => op_in(vals),
        "cat" => Exp::Val(Value::String(vals.iter().map(str_form).collect::<String>())),
        "substr" => substr(vals),
        "log" => {
            tr.lines.push(vals[0].to_string());
            tr.values.push(vals[0].clone());
            Exp::Val(vals[0].clone())
        }
        "var" => {
            if vals.is_empty() {
                return Exp::Val(data.clone());
            }
            match lookup(data, &vals[0]) {
                Look::Found(v) => Exp::Val(v),
                Look::Absent => Exp::Val(vals.get(1).cloned().unwrap_or(Value::Null)),
                Look::Unspec => Exp::Unspec,
            }
        }
        "missing" => missing(data, vals),
        "missing_some" => missing_some(data, vals),
        _ => unreachable!("eager op {}", op),
    }
}

enum Coll {
    Items(Vec<Value>),
    Err,
    Unspec,
}

/// Collection operand of map / filter / reduce.
fn array_collection(arg: &Value, data: &Value, tr: &mut Trace) -> Coll {
    match eval(arg, data, tr) {
        Exp::Val(Value::Array(a)) => Coll::Items(a),
        Exp::Val(Value::Null) => Coll::Items(vec![]),
        Exp::Val(_) => Coll::Err,
        Exp::Err => Coll::Err,
        Exp::Unspec => Coll::Unspec,
    }
}

fn eval_lazy(op: &str, args: &[&Value], data: &Value, tr: &mut Trace) -> Exp {
    match op {
        "if" | "?:" => {
            let n = args.len();
            if n == 0 {
                return Exp::Val(Value::Null);
            }
            if n == 1 {
                return eval(args[0], data, tr);
            }
            let mut i = 0;
            loop {
                if i + 1 < n {
                    let c = need!(eval(args[i], data, tr));
                    if truthy(&c) {
                        return eval(args[i + 1], data, tr);
                    }
                    i += 2;
                } else if i < n {
                    return eval(args[i], data, tr);
                } else {
                    return Exp::Val(Value::Null);
                }
            }
        }
        "and" | "or" => {
            let mut last = Value::Null;
            for a in args {
                let v = need!(eval(a, data, tr));
                let t = truthy(&v);
                if (op == "and" && !t) || (op == "or" && t) {
                    return Exp::Val(v);
                }
                last = v;
            }
            Exp::Val(last)
        }
        "map" | "filter" => {
            let items = match array_collection(args[0], data, tr) {
                Coll::Items(x) => x,
                Coll::Err => return Exp::Err,
                Coll::Unspec => return Exp::Unspec,
            };
            if items.is_empty() && !static_ok(args[1]) {
                return Exp::Unspec;
            }
            let mut out = Vec::new();
            let mut printing_elements = 0;
            for it in items {
                let before = tr.lines.len();
                let r = eval(args[1], &it, tr);
                if tr.lines.len() > before {
                    printing_elements += 1;
                    if printing_elements >= 2 {
                        tr.order_pinned = false;
                    }
                }
                let v = need!(r);
                if op == "map" {
                    out.push(v);
                } else if truthy(&v) {
                    out.push(it);
                }
            }
            Exp::Val(Value::Array(out))
        }
        "reduce" => {
            // The statement fixes the values, not the order in which the collection and the
            // initial value are evaluated relative to each other; R uses collection first.
            let b0 = tr.lines.len();
            let items = array_collection(args[0], data, tr);
            let b1 = tr.lines.len();
            let init = eval(args[2], data, tr);
            if b1 > b0 && tr.lines.len() > b1 {
                tr.order_pinned = false;
            }
            let items = match items {
                Coll::Items(x) => x,
                Coll::Err => return Exp::Err,
                Coll::Unspec => {
                    return if init == Exp::Err { Exp::Err } else { Exp::Unspec };
                }
            };
            let mut acc = need!(init);
            if items.is_empty() && !static_ok(args[1]) {
                return Exp::Unspec;
            }
            for it in items {
                let mut m = Map::new();
                m.insert("current".into(), it);
                m.insert("accumulator".into(), acc);
                acc = need!(eval(args[1], &Value::Object(m), tr));
            }
            Exp::Val(acc)
        }
        "all" | "some" | "none" => {
            // collection: a literal array keeps its elements as rule text (evaluated one by
            // one against the outer data); anything else is evaluated once and is then data.
            enum Items<'a> {
                Text(&'a Vec<Value>),
                Data(Vec<Value>),
            }
            let items = match args[0] {
                Value::Array(a) => Items::Text(a),
                other => match eval(other, data, tr) {
                    Exp::Val(Value::Array(a)) => Items::Data(a),
                    Exp::Val(Value::String(s)) => {
                        Items::Data(s.chars().map(|c| Value::String(c.to_string())).collect())
                    }
                    Exp::Val(Value::Null) => Items::Data(vec![]),
                    Exp::Val(_) => return Exp::Err,
                    Exp::Err => return Exp::Err,
                    Exp::Unspec => return Exp::Unspec,
                },
            };
            let n = match &items {
                Items::Text(a) => a.len(),
                Items::Data(a) => a.len(),
            };
            if n == 0 {
                if !static_ok(args[1]) {
                    return Exp::Unspec;
                }
                return b(op == "none");
            }
            let want_all = op == "all";
            let mut result = want_all;
            for i in 0..n {
                let el = match &items {
                    Items::Text(a) => need!(eval(&a[i], data, tr)),
                    Items::Data(a) => a[i].clone(),
                };
                let p = need!(eval(args[1], &el, tr));
                let t = truthy(&p);
                if want_all && !t {
                    result = false;
                    break;
                }
                if !want_all && t {
                    result = true;
                    break;
                }
            }
            if op == "none" {
                b(!result)
            } else {
                b(result)
            }
        }
        _ => unreachable!("lazy op {}", op),
    }
}

/// Convenience: full evaluation with a fresh trace.
pub fn reference(rule: &Value, data: &Value) -> (Exp, Trace) {
    let mut tr = Trace::default();
    let e = eval(rule, data, &mut tr);
    (e, tr)
}
