//! Exploration context of one worker: sharding, choice-tree accounting, the
//! impl-vs-R comparison, violation and sample collection, progress reporting.

use crate::exec::{self, Obs, Outcome};
use crate::refmodel::{self, Exp, Trace};
use serde_json::{json, Value};
use std::collections::hash_map::DefaultHasher;
use std::collections::{BTreeMap, HashSet};
use std::hash::{Hash, Hasher};

pub const MAX_VIOLATIONS_KEPT: usize = 40;
pub const MAX_SAMPLES: usize = 8;

#[derive(Clone, Debug)]
pub struct Violation {
    pub sub: String,
    pub case: Value,
    pub expected: String,
    pub actual: String,
    /// panic location (short), if the violation is a panic
    pub site: Option<String>,
}

pub struct Ctx {
    pub prop: String,
    pub tier_thorough: bool,
    pub profile: String,
    pub shard: u64,
    pub nshards: u64,
    pub seed: u64,
    outer: u64,
    // accounting
    pub states: u64,
    pub transitions: u64,
    pub leaves: u64,
    pub evaluations: u64,
    pub unspecified: u64,
    pub nontrivial: HashSet<u64>,
    pub outcomes: BTreeMap<String, u64>,
    pub subspaces: BTreeMap<String, u64>,
    pub violations: Vec<Violation>,
    pub violation_count: u64,
    pub samples: Vec<Value>,
    // progress / tracing (crash and hang localisation)
    progress: Option<*mut u64>,
    trace_path: Option<String>,
    pub check_inputs: bool,
    /// C01 re-runs the other spaces for totality only: no reference comparison, no laws
    pub total_only: bool,
    pub space_tag: Option<String>,
    pub extra: BTreeMap<String, Value>,
    beats: u64,
}

pub fn hash_case(rule: &Value, data: &Value) -> u64 {
    let mut h = DefaultHasher::new();
    rule.to_string().hash(&mut h);
    0xffu8.hash(&mut h);
    data.to_string().hash(&mut h);
    h.finish()
}

pub fn hash_str(s: &str) -> u64 {
    let mut h = DefaultHasher::new();
    s.hash(&mut h);
    h.finish()
}

impl Ctx {
    pub fn new(prop: &str, thorough: bool, profile: &str, shard: u64, nshards: u64, seed: u64) -> Ctx {
        Ctx {
            prop: prop.to_string(),
            tier_thorough: thorough,
            profile: profile.to_string(),
            shard,
            nshards,
            seed,
            outer: 0,
            states: 1,
            transitions: 0,
            leaves: 0,
            evaluations: 0,
            unspecified: 0,
            nontrivial: HashSet::new(),
            outcomes: BTreeMap::new(),
            subspaces: BTreeMap::new(),
            violations: Vec::new(),
            violation_count: 0,
            samples: Vec::new(),
            progress: None,
            trace_path: None,
            check_inputs: false,
            total_only: false,
            space_tag: None,
            extra: BTreeMap::new(),
            beats: 0,
        }
    }

    pub fn set_progress(&mut self, p: *mut u64) {
        self.progress = Some(p);
    }
    /// address of the progress word (0 if none): forked children may bump it directly
    pub fn progress_addr(&self) -> usize {
        self.progress.map(|p| p as usize).unwrap_or(0)
    }
    pub fn set_trace(&mut self, path: String) {
        // engines that run calls in other processes (Python driver) write the current call there themselves
        std::env::set_var("JLMC_TRACE", &path);
        self.trace_path = Some(path);
    }

    /// Call once per iteration of a space's outermost loop: true iff the iteration
    /// belongs to this worker. (The seed only rotates the assignment.)
    pub fn mine(&mut self) -> bool {
        let m = (self.outer + self.seed) % self.nshards == self.shard;
        self.outer += 1;
        if m {
            self.edge();
        }
        m
    }

    /// One choice taken in the choice tree (an inner loop iteration).
    #[inline]
    pub fn edge(&mut self) {
        self.states += 1;
        self.transitions += 1;
    }

    fn tick(&mut self, describe: &dyn Fn() -> String) {
        self.evaluations += 1;
        if let Some(p) = self.progress {
            unsafe { std::ptr::write_volatile(p, self.evaluations) };
        }
        if let Some(path) = &self.trace_path {
            let _ = std::fs::write(path, describe());
        }
    }

    /// Progress / trace bookkeeping for executions that happen outside this process.
    pub fn tick_external(&mut self, case: &Value) {
        self.tick(&|| case.to_string());
    }

    /// Progress only (no execution is counted): keeps the parent's hang watchdog informed
    /// during long engine-internal phases.
    pub fn heartbeat(&mut self, case: &Value) {
        self.beats += 1;
        if let Some(p) = self.progress {
            unsafe { std::ptr::write_volatile(p, (1u64 << 48) + self.beats) };
        }
        if let Some(path) = &self.trace_path {
            let _ = std::fs::write(path, case.to_string());
        }
    }

    /// Execute the real `apply` once.
    pub fn exec(&mut self, rule: &Value, data: &Value) -> Obs {
        self.tick(&|| json!({"rule": rule, "data": data}).to_string());
        if self.check_inputs {
            let (r0, d0) = (rule.clone(), data.clone());
            let mut o = exec::apply(rule, data);
            if &r0 != rule || &d0 != data || r0.to_string() != rule.to_string() || d0.to_string() != data.to_string() {
                o.out = Outcome::Panic("INPUT MODIFIED by apply".into(), "-".into());
            }
            o
        } else {
            exec::apply(rule, data)
        }
    }

    /// Execute a closure over public helpers of the real code.
    pub fn exec_fn<F: FnOnce() -> Value>(&mut self, what: &dyn Fn() -> String, f: F) -> Obs {
        self.tick(what);
        exec::call(f)
    }
    pub fn exec_try<F: FnOnce() -> Result<Value, String>>(&mut self, what: &dyn Fn() -> String, f: F) -> Obs {
        self.tick(what);
        exec::try_call(f)
    }

    pub fn note_outcome(&mut self, sub: &str, class: String) {
        *self.outcomes.entry(class).or_insert(0) += 1;
        *self.subspaces.entry(sub.to_string()).or_insert(0) += 1;
    }

    pub fn sample(&mut self, v: impl FnOnce() -> Value) {
        // the first few, then sparser and sparser
        let l = self.leaves;
        if self.samples.len() < MAX_SAMPLES && (l < 3 || (l % 997 == (self.seed % 997)) ) {
            let x = v();
            // (samples, like violation records, must survive the trip through JSON text)
            if depth_of(&x) <= 100 {
                self.samples.push(x);
            }
        }
    }

    /// keep this sample regardless of the thinning rule (engine-level samples)
    pub fn sample_force(&mut self, v: Value) {
        if self.samples.len() < MAX_SAMPLES + 4 && depth_of(&v) <= 100 {
            self.samples.insert(0, v);
        }
    }

    pub fn fail(&mut self, sub: &str, case: Value, expected: String, actual: String, site: Option<String>) {
        if self.total_only && !actual.starts_with("PANIC") {
            return;
        }
        self.violation_count += 1;
        if self.violations.len() < MAX_VIOLATIONS_KEPT {
            // a record must survive the trip through JSON text (worker result file, replay file): serde_json
            // reads at most 128 levels, so a deeply nested case is carried as text
            let case = if depth_of(&case) > 100 {
                match (case.get("rule"), case.get("data")) {
                    (Some(r), Some(d)) => json!({"rule_text": r.to_string(), "data_text": d.to_string(), "note": "nested too deeply to embed"}),
                    _ => json!({"case_text": case.to_string(), "note": "nested too deeply to embed"}),
                }
            } else {
                case
            };
            self.violations.push(Violation { sub: sub.to_string(), case, expected, actual, site });
        }
    }

    /// The central leaf: run the real code on (rule, data), run R, compare per DESIGN Section 2.
    /// Returns the observation so that spaces can add laws on top.
    pub fn check(&mut self, sub: &str, rule: &Value, data: &Value) -> Obs {
        if self.total_only {
            let tag = match &self.space_tag {
                Some(t) => format!("union:{}", t),
                None => sub.to_string(),
            };
            return self.check_total(&tag, rule, data);
        }
        let obs = self.exec(rule, data);
        let (exp, tr) = refmodel::reference(rule, data);
        self.judge(sub, rule, data, &obs, &exp, &tr, true);
        obs
    }

    /// Totality only (C01): the outcome must be Ok or Err.
    pub fn check_total(&mut self, sub: &str, rule: &Value, data: &Value) -> Obs {
        let obs = self.exec(rule, data);
        self.leaves += 1;
        self.note_outcome(sub, obs.class());
        self.nontrivial.insert(hash_case(rule, data));
        if let Outcome::Panic(m, l) = &obs.out {
            self.fail(
                sub,
                json!({"rule": rule, "data": data}),
                "Ok(_) or Err(_)".into(),
                format!("PANIC[{} at {}]", m, l),
                Some(l.clone()),
            );
        }
        self.sample(|| json!({"rule": rule, "data": data, "observed": obs.show()}));
        obs
    }

    pub fn judge(&mut self, sub: &str, rule: &Value, data: &Value, obs: &Obs, exp: &Exp, tr: &Trace, count_leaf: bool) {
        if count_leaf {
            self.leaves += 1;
            self.note_outcome(sub, obs.class());
        }
        let case = || json!({"rule": rule, "data": data});
        let mut bad: Option<(String, String)> = None;
        match exp {
            Exp::Unspec => {
                self.unspecified += 1;
                // only the universal obligations remain; panics are C01's business and are
                // reported there (C01 re-runs every space for totality)
            }
            Exp::Err => {
                if !matches!(obs.out, Outcome::Err(_)) {
                    bad = Some(("Err".into(), obs.show()));
                }
            }
            Exp::Val(v) => match &obs.out {
                Outcome::Ok(got) if got == v => {
                    if !log_matches(&obs.log, tr) {
                        bad = Some((format!("Ok({}) log={:?}", v, tr.lines), obs.show()));
                    }
                }
                _ => bad = Some((format!("Ok({}) log={:?}", v, tr.lines), obs.show())),
            },
        }
        if bad.is_none() && *exp == Exp::Err {
            // on errors the implementation may stop earlier than R (parse-time detection),
            // never print more
            if !log_dominated(&obs.log, tr) {
                bad = Some((format!("Err with log within {:?}", tr.lines), obs.show()));
            }
        }
        if bad.is_none() && obs.log.iter().any(|l| l.contains("LEAK")) && !tr.lines.iter().any(|l| l.contains("LEAK")) {
            bad = Some(("no LEAK line (data must stay inert)".into(), obs.show()));
        }
        if *exp != Exp::Unspec {
            self.nontrivial.insert(hash_case(rule, data));
        }
        if let Some((e, a)) = bad {
            let site = match &obs.out {
                Outcome::Panic(_, l) => Some(l.clone()),
                _ => None,
            };
            self.fail(sub, case(), e, a, site);
        }
        self.sample(|| json!({"rule": rule, "data": data, "reference": exp.show(), "observed": obs.show()}));
    }

    /// Leaf judged by the space itself (`bad` = expected / actual when the property's own
    /// clause is broken); does the accounting of `check` without consulting R.
    pub fn record(&mut self, sub: &str, rule: &Value, data: &Value, obs: &Obs, bad: Option<(String, String)>) {
        self.leaves += 1;
        self.note_outcome(sub, obs.class());
        self.nontrivial.insert(hash_case(rule, data));
        let bad = match (&obs.out, bad) {
            (Outcome::Panic(m, l), None) if self.prop == "C01" || self.total_only => Some(("Ok(_) or Err(_)".to_string(), format!("PANIC[{} at {}]", m, l))),
            (_, b) => b,
        };
        if let Some((e, a)) = bad {
            let site = match &obs.out {
                Outcome::Panic(_, l) => Some(l.clone()),
                _ => None,
            };
            self.fail(sub, json!({"rule": rule, "data": data}), e, a, site);
        }
        self.sample(|| json!({"rule": rule, "data": data, "observed": obs.show()}));
    }

    /// Leaf for a direct call of a public helper: a panic is always a violation, a wrong
    /// value only where the property at hand defines it (`want`).
    pub fn judge_helper(&mut self, sub: &str, case: Value, obs: &Obs, want: Option<&Value>) {
        self.leaves += 1;
        self.note_outcome(sub, obs.class());
        self.nontrivial.insert(hash_str(&case.to_string()));
        match &obs.out {
            Outcome::Panic(m, l) => {
                let (m, l) = (m.clone(), l.clone());
                self.fail(sub, case, "a return value".into(), format!("PANIC[{} at {}]", m, l), Some(l));
            }
            Outcome::Ok(v) => {
                if let Some(w) = want {
                    if v != w {
                        self.fail(sub, case, format!("{}", w), obs.show(), None);
                    }
                }
            }
            Outcome::Err(_) => {}
        }
    }

    /// A law between several real executions failed.
    pub fn law_fail(&mut self, sub: &str, rule: &Value, data: &Value, expected: String, actual: String) {
        self.fail(sub, json!({"rule": rule, "data": data}), expected, actual, None);
    }

    pub fn to_json(&self) -> Value {
        json!({
            "states": self.states,
            "transitions": self.transitions,
            "leaves": self.leaves,
            "evaluations": self.evaluations,
            "unspecified": self.unspecified,
            "outcomes": self.outcomes,
            "subspaces": self.subspaces,
            "violation_count": self.violation_count,
            "violations": self.violations.iter().map(|v| json!({
                "sub": v.sub, "case": v.case, "expected": v.expected, "actual": v.actual, "site": v.site
            })).collect::<Vec<_>>(),
            "samples": self.samples,
            "extra": self.extra,
        })
    }
}

/// Does an observed line report this logged value? The line *format* is not pinned by any
/// property, so a line matches when it contains the value's JSON text (or, for a string, its
/// raw content).
pub fn line_reports(line: &str, value: &Value) -> bool {
    let t = value.to_string();
    if line.contains(&t) {
        return true;
    }
    match value {
        Value::String(s) => !s.is_empty() && line.contains(s.as_str()),
        _ => false,
    }
}

/// The observed log against R's trace: one line per evaluated `log`; in R's order where the
/// properties pin the order of evaluation, as a multiset otherwise.
pub fn log_matches(obs: &[String], tr: &Trace) -> bool {
    if obs.len() != tr.values.len() {
        return false;
    }
    if tr.order_pinned {
        return obs.iter().zip(&tr.values).all(|(l, v)| line_reports(l, v));
    }
    let mut pool: Vec<&Value> = tr.values.iter().collect();
    // match exact texts first so that a value contained in another one's text cannot steal its line
    let mut rest: Vec<&String> = Vec::new();
    for l in obs {
        match pool.iter().position(|v| v.to_string() == *l) {
            Some(i) => {
                pool.remove(i);
            }
            None => rest.push(l),
        }
    }
    for l in rest {
        match pool.iter().position(|v| line_reports(l, v)) {
            Some(i) => {
                pool.remove(i);
            }
            None => return false,
        }
    }
    true
}

/// On errors the implementation may stop earlier than R, never print more.
pub fn log_dominated(obs: &[String], tr: &Trace) -> bool {
    let mut pool: Vec<&Value> = tr.values.iter().collect();
    for l in obs {
        match pool.iter().position(|v| line_reports(l, v)) {
            Some(i) => {
                pool.remove(i);
            }
            None => return false,
        }
    }
    true
}

/// multiset inclusion of log lines
pub fn dominated(small: &[String], big: &[String]) -> bool {
    let mut pool: Vec<&String> = big.iter().collect();
    for s in small {
        match pool.iter().position(|b| *b == s) {
            Some(i) => {
                pool.remove(i);
            }
            None => return false,
        }
    }
    true
}

/// Nesting depth of a JSON value (scalars 0).
pub fn depth_of(v: &Value) -> usize {
    // iterative: the values measured here are the ones too deep for recursion-limited code
    let mut max = 0;
    let mut stack: Vec<(&Value, usize)> = vec![(v, 0)];
    while let Some((x, d)) = stack.pop() {
        max = max.max(d);
        match x {
            Value::Array(a) => stack.extend(a.iter().map(|y| (y, d + 1))),
            Value::Object(m) => stack.extend(m.values().map(|y| (y, d + 1))),
            _ => {}
        }
    }
    max
}
