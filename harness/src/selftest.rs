//! Binding R to the properties rather than to the code: before R judges anything it is
//! validated against (a) the verdicts of a real JavaScript engine (V8, node v20) recorded in
//! fixtures/es_truth.json for the whole pairwise corpus, and (b) the shared JsonLogic test
//! cases (fixtures/jsonlogic_tests.json). A mismatch is a machinery error, never a VIOLATION.

use crate::alphabet;
use crate::driver::root;
use crate::refmodel::{self, Exp};
use serde_json::{json, Value};

/// Encode a value so that node can rebuild it with numbers spelled as serde_json spells them.
fn dump(v: &Value) -> Value {
    match v {
        Value::Number(n) => json!({"$n": n.to_string()}),
        Value::Array(a) => Value::Array(a.iter().map(dump).collect()),
        Value::Object(m) => {
            let mut o = serde_json::Map::new();
            for (k, x) in m {
                o.insert(k.clone(), dump(x));
            }
            json!({ "$o": o })
        }
        x => x.clone(),
    }
}

pub fn corpus_json_thorough() -> String {
    corpus_json_of(alphabet::pair_corpus_thorough())
}

pub fn unary_corpus() -> Vec<Value> {
    let mut v = alphabet::ws_block_strings();
    v.extend(alphabet::mutated_literals());
    v.extend(alphabet::radix_families());
    v.extend(alphabet::integer_digit_strings());
    v.extend(alphabet::radix_tails());
    alphabet::dedup(v)
}

pub fn corpus_json_blocks() -> String {
    corpus_json_of(unary_corpus())
}

pub fn corpus_json() -> String {
    corpus_json_of(alphabet::pair_corpus())
}

fn corpus_json_of(c: Vec<Value>) -> String {
    json!({
        "values": c.iter().map(dump).collect::<Vec<_>>(),
        "texts": c.iter().map(|v| v.to_string()).collect::<Vec<_>>(),
    })
    .to_string()
}

fn parse_js_number(s: &str) -> f64 {
    match s {
        "NaN" => f64::NAN,
        "Infinity" => f64::INFINITY,
        "-Infinity" => f64::NEG_INFINITY,
        "-0" => -0.0,
        t => t.parse::<f64>().expect("js number text"),
    }
}

fn same_f64(a: f64, b: f64) -> bool {
    (a.is_nan() && b.is_nan()) || (a == b && a.is_sign_negative() == b.is_sign_negative())
}

pub fn run(verbose: bool) -> i32 {
    let a = run_table(verbose, "fixtures/es_truth.json", alphabet::pair_corpus(), true);
    let b = run_table(verbose, "fixtures/es_truth_thorough.json", alphabet::pair_corpus_thorough(), false);
    // per-value verdicts only (Number(), parseFloat(), String()): white-space blocks, mutated literals, radix families
    let c = run_table(verbose, "fixtures/es_blocks.json", unary_corpus(), false);
    if a != 0 || b != 0 || c != 0 {
        1
    } else {
        0
    }
}

fn run_table(verbose: bool, fixture: &str, corpus: Vec<Value>, with_shared_cases: bool) -> i32 {
    let mut errors = 0u64;
    let mut checked = 0u64;
    let path = root().join(fixture);
    let txt = match std::fs::read_to_string(&path) {
        Ok(t) => t,
        Err(e) => {
            eprintln!("selftest: cannot read {}: {}", path.display(), e);
            return 1;
        }
    };
    let fx: Value = serde_json::from_str(&txt).expect("truth table is not JSON");
    let texts: Vec<String> = corpus.iter().map(|v| v.to_string()).collect();
    let fx_texts: Vec<String> = fx["texts"].as_array().unwrap().iter().map(|t| t.as_str().unwrap().to_string()).collect();
    if texts != fx_texts {
        eprintln!("selftest: {} was recorded for a different corpus; regenerate it with tools/gen_es_truth.sh", fixture);
        return 1;
    }
    let n = corpus.len();
    let rows = |k: &str| -> Vec<Vec<u8>> {
        fx[k].as_array().unwrap().iter().map(|r| r.as_str().unwrap().as_bytes().to_vec()).collect()
    };
    let (eq, seq, lt, le, gt, ge) = (rows("eq"), rows("seq"), rows("lt"), rows("le"), rows("gt"), rows("ge"));
    let want = |c: u8| -> Option<bool> {
        match c {
            b'1' => Some(true),
            b'0' => Some(false),
            _ => None,
        }
    };
    let pairwise = !eq.is_empty();
    for i in 0..(if pairwise { n } else { 0 }) {
        for j in 0..n {
            let (a, b) = (&corpus[i], &corpus[j]);
            let mut one = |name: &str, w: Option<bool>, got: bool| {
                if let Some(w) = w {
                    checked += 1;
                    if w != got {
                        errors += 1;
                        if errors <= 20 {
                            eprintln!("selftest: R disagrees with V8: {} {} {} : V8 {} R {}", a, name, b, w, got);
                        }
                    }
                }
            };
            one("==", want(eq[i][j]), refmodel::loose_eq(a, b));
            // the table compares distinct instances; for i == j the JS side clones
            one("===", want(seq[i][j]), refmodel::strict_eq(a, b));
            one("<", want(lt[i][j]), refmodel::relational("<", a, b));
            one("<=", want(le[i][j]), refmodel::relational("<=", a, b));
            one(">", want(gt[i][j]), refmodel::relational(">", a, b));
            one(">=", want(ge[i][j]), refmodel::relational(">=", a, b));
        }
    }
    let tn = fx["tonumber"].as_array().unwrap();
    let pf = fx["parsefloat"].as_array().unwrap();
    let sf = fx["strform"].as_array().unwrap();
    for i in 0..n {
        let v = &corpus[i];
        checked += 3;
        let w = parse_js_number(tn[i].as_str().unwrap());
        let g = refmodel::to_number(v);
        if !same_f64(w, g) && !(w == 0.0 && g == 0.0) {
            errors += 1;
            eprintln!("selftest: Number({}) : V8 {} R {}", v, w, g);
        }
        let w = parse_js_number(pf[i].as_str().unwrap());
        let g = refmodel::parse_float(v);
        if !same_f64(w, g) && !(w == 0.0 && g == 0.0) {
            errors += 1;
            eprintln!("selftest: parseFloat({}) : V8 {} R {}", v, w, g);
        }
        if !v.is_number() {
            let w = sf[i].as_str().unwrap();
            let g = refmodel::str_form(v);
            if w != g {
                errors += 1;
                eprintln!("selftest: String({}) : V8 {:?} R {:?}", v, w, g);
            }
        }
    }
    // shared JsonLogic cases
    let mut shared = 0;
    if with_shared_cases {
    let tpath = root().join("fixtures/jsonlogic_tests.json");
    let ttxt = std::fs::read_to_string(&tpath).expect("fixtures/jsonlogic_tests.json");
    let cases: Value = serde_json::from_str(&ttxt).unwrap();
    for c in cases.as_array().unwrap() {
        if let Value::Array(t) = c {
            shared += 1;
            checked += 1;
            let (e, _) = refmodel::reference(&t[0], &t[1]);
            match e {
                Exp::Val(v) if v == t[2] => {}
                Exp::Unspec => {}
                other => {
                    errors += 1;
                    eprintln!("selftest: shared case {} on {} expects {} but R says {}", t[0], t[1], t[2], other.show());
                }
            }
        }
    }
    }
    if verbose || errors > 0 {
        eprintln!(
            "selftest: corpus {} values, {} verdicts checked against V8 table and {} shared JsonLogic cases, {} disagreement(s)",
            n, checked, shared, errors
        );
    }
    if errors > 0 {
        1
    } else {
        0
    }
}
