//! E3: preemption-bounded schedule exploration of real threads at hook points (C17).
pub fn free_run() -> i32 { 0 }
