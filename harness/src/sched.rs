//! E3: preemption-bounded exhaustive schedule exploration (C17).
//!
//! Real OS threads call the real `apply` on shared `Arc<Value>` inputs. A token decides who
//! runs; it changes hands only at the hook points the crate exposes under the cargo feature
//! `verif_hooks` (entry of Parsed::from_value / Parsed::evaluate, every *Operator::execute,
//! just before log's println!) and when a thread finishes. The explorer is the stateless DFS
//! of iterative context bounding: run the default schedule, then branch at every scheduling
//! point within the preemption budget; executions always run to completion.
//!
//! Oracle per execution: every call returns what it returns in isolation; the multiset of
//! printed lines is the expected one and every thread's own lines keep their order; the shared
//! inputs are untouched.

use crate::ctx::Ctx;
use crate::exec::{self, Obs, Outcome};
use serde_json::{json, Value};
use std::cell::Cell;
use std::collections::BTreeSet;
use std::sync::{Arc, Condvar, Mutex};

#[derive(Clone, Debug)]
pub struct Point {
    pub enabled: Vec<usize>,
    pub chosen: usize,
    /// the thread that was running when the point was reached, if it can continue
    pub running: Option<usize>,
}

struct State {
    /// who holds the token (usize::MAX = nobody yet)
    current: usize,
    finished: Vec<bool>,
    arrived: Vec<bool>,
    /// choices to replay (indices into the canonical enabled order), then default 0
    prefix: Vec<usize>,
    points: Vec<Point>,
    diverged: bool,
    hook_sites: u64,
    /// threads found blocked on something the scheduler does not control (a real lock held by a
    /// preempted thread): they are not enabled until they show up at a point again
    blocked: Vec<bool>,
    last_event: std::time::Instant,
    forced_switches: u64,
    deadlock: bool,
    /// kernel thread ids of the participants (to tell "sleeping on a lock" from "starved of CPU")
    tids: Vec<i32>,
}

/// Is the kernel thread sleeping (state S or D in /proc)? A runnable thread that merely did not get
/// a CPU for a while is R and must not be taken for blocked.
fn thread_sleeping(tid: i32) -> bool {
    if tid <= 0 {
        return false;
    }
    match std::fs::read_to_string(format!("/proc/self/task/{}/stat", tid)) {
        Ok(t) => match t.rfind(')') {
            Some(i) => matches!(t[i + 1..].trim_start().chars().next(), Some('S') | Some('D')),
            None => false,
        },
        Err(_) => false,
    }
}

struct Sched {
    m: Mutex<State>,
    cv: Condvar,
}

static SCHED: Mutex<Option<Arc<Sched>>> = Mutex::new(None);

thread_local! {
    static MY_ID: Cell<Option<usize>> = Cell::new(None);
}

fn current_sched() -> Option<Arc<Sched>> {
    SCHED.lock().unwrap().clone()
}

/// canonical order: the running thread first if it is still enabled, then ascending ids
fn canonical(enabled: &BTreeSet<usize>, running: Option<usize>) -> Vec<usize> {
    let mut v = Vec::new();
    if let Some(r) = running {
        if enabled.contains(&r) {
            v.push(r);
        }
    }
    for &e in enabled {
        if Some(e) != running {
            v.push(e);
        }
    }
    v
}

impl Sched {
    /// A scheduling decision. `me_running` = the calling thread may continue.
    fn decide(&self, st: &mut State, running: Option<usize>) {
        st.last_event = std::time::Instant::now();
        let enabled: BTreeSet<usize> = (0..st.finished.len()).filter(|&i| !st.finished[i] && !st.blocked[i]).collect();
        if enabled.is_empty() {
            // everybody finished - or everybody left is blocked; the watchdog in run_once tells the two apart
            st.current = usize::MAX - 1;
            return;
        }
        let order = canonical(&enabled, running);
        let idx = st.points.len();
        let choice = if idx < st.prefix.len() { st.prefix[idx] } else { 0 };
        let chosen = if choice < order.len() {
            order[choice]
        } else {
            st.diverged = true;
            order[0]
        };
        st.points.push(Point { enabled: order, chosen, running });
        st.current = chosen;
    }

    fn yield_point(&self, me: usize) {
        let mut st = self.m.lock().unwrap();
        st.hook_sites += 1;
        if st.current != me {
            // I was found blocked and lost the token meanwhile; I am runnable again: wait for my turn
            st.blocked[me] = false;
            st.last_event = std::time::Instant::now();
            self.cv.notify_all();
            while st.current != me {
                st = self.cv.wait(st).unwrap();
            }
            return;
        }
        self.decide(&mut st, Some(me));
        self.cv.notify_all();
        while st.current != me {
            st = self.cv.wait(st).unwrap();
        }
    }

    fn start(&self, me: usize) {
        let mut st = self.m.lock().unwrap();
        st.arrived[me] = true;
        st.tids[me] = unsafe { libc::syscall(libc::SYS_gettid) as i32 };
        self.cv.notify_all();
        while st.current != me {
            st = self.cv.wait(st).unwrap();
        }
    }

    fn finish(&self, me: usize) {
        let mut st = self.m.lock().unwrap();
        st.finished[me] = true;
        st.blocked[me] = false;
        if st.current == me || st.current >= st.finished.len() {
            self.decide(&mut st, None);
        }
        st.last_event = std::time::Instant::now();
        self.cv.notify_all();
    }
}

fn hook(_site: &'static str) {
    // in the fine-grained build every function entry is a point already (verif_hook::point included)
    if FINE_ON.load(std::sync::atomic::Ordering::Relaxed) {
        return;
    }
    if let Some(me) = MY_ID.with(|c| c.get()) {
        if let Some(s) = current_sched() {
            s.yield_point(me);
        }
    }
}

static FINE_ON: std::sync::atomic::AtomicBool = std::sync::atomic::AtomicBool::new(false);

/// Scheduling point at a function entry of the instrumented tree under test (fine-grained E3).
pub fn fine_point() {
    if !FINE_ON.load(std::sync::atomic::Ordering::Relaxed) {
        return;
    }
    // thread-local access is valid only while the thread is alive and registered
    let me = MY_ID.try_with(|c| c.get()).ok().flatten();
    if let Some(me) = me {
        // generic std code is shared between crates in this build, so the scheduler's own use of, say,
        // Range::next lands here again: ignore points reached from inside the scheduler
        let entered = IN_SCHED.try_with(|f| f.replace(true)).unwrap_or(true);
        if entered {
            return;
        }
        if let Some(s) = current_sched() {
            s.yield_point(me);
        }
        let _ = IN_SCHED.try_with(|f| f.set(false));
    }
}

thread_local! {
    static IN_SCHED: Cell<bool> = Cell::new(false);
}

/// Configurations of the fine-grained exploration: tiny calls (a few hundred function entries each),
/// every pair of them on two threads sharing rule and data, preemption bound 1.
pub fn fine_configs(thorough: bool) -> Vec<(String, Vec<Vec<Call>>)> {
    let d1 = Arc::new(json!({"a": {"b": "ab", "c": "é水"}, "c": {"d": "cd"}, "xs": [1, 2], "n": "0x10", "s": "añb", "h.n": {"p": 8080}, "u.n": {"f": "Ada"}}));
    let d2 = Arc::new(json!({"a": {"b": "AB"}, "c": {"d": "CD"}, "xs": [3], "n": 2, "s": "ñu", "h.n": {"p": 22}, "u.n": {"f": "Bob"}}));
    let mut fam: Vec<(&str, Value)> = vec![
        ("var:a.b", json!({"var": "a.b"})),
        ("var:c.d", json!({"var": "c.d"})),
        ("var:s.1", json!({"var": "s.1"})),
        // the same escaped key twice in one call, and another escaped key on the other thread: whatever is
        // remembered about "the last such key" between the two uses can be replaced in between
        ("var:esc-h", json!({"merge": [{"var": "h\\.n.p"}, {"var": "h\\.n.p"}]})),
        ("var:esc-u", json!({"merge": [{"var": "u\\.n.f"}, {"var": "u\\.n.f"}]})),
        ("var:miss", json!({"var": ["a.zz", {"var": "c.d"}]})),
        ("missing", json!({"missing": ["a.b", "zz", "c.d"]})),
        ("missing_some", json!({"missing_some": [2, ["a.b", "zz", "c.q"]]})),
        ("cat", json!({"cat": [{"var": "a.b"}, "-", {"var": "c.d"}]})),
        ("filter", json!({"filter": [{"var": "xs"}, {"var": ""}]})),
        ("substr", json!({"substr": [{"var": "s"}, -2]})),
        ("arith", json!({"+": [{"var": "n"}, "2"]})),
    ];
    if thorough {
        fam.extend(vec![
            ("reduce", json!({"reduce": [{"var": "xs"}, {"+": [{"var": "current"}, {"var": "accumulator"}]}, 0]})),
            ("all", json!({"all": [{"var": "s"}, {"!==": [{"var": ""}, "x"]}]})),
            ("in", json!({"in": [{"var": "n"}, {"var": "xs"}]})),
            ("cmp", json!({"<": [{"var": "n"}, "0x11"]})),
            ("merge", json!({"merge": [{"var": "xs"}, {"var": "a.b"}]})),
            ("log", json!({"log": {"var": "a.b"}})),
        ]);
    }
    // quick tier: all pairs of the first three, plus the one pair of escaped-key rules
    let extra: Vec<(&str, Arc<Value>)> = if thorough { vec![] } else { fam[3..5].iter().map(|(n, r)| (*n, Arc::new(r.clone()))).collect() };
    if !thorough {
        fam.truncate(3);
    }
    let rules: Vec<(&str, Arc<Value>)> = fam.into_iter().map(|(n, r)| (n, Arc::new(r))).collect();
    let mut v = Vec::new();
    if !thorough {
        // two threads each writing one log line: the line is one write, whatever the other thread does meanwhile
        let (l1, l2) = (Arc::new(json!({"log": {"var": "a"}})), Arc::new(json!({"log": [{"var": "xs"}]})));
        v.push(("fine:log|log".to_string(), vec![vec![Call { rule: l1, data: d1.clone() }], vec![Call { rule: l2, data: d2.clone() }]]));
    }
    if !thorough {
        // two quantifiers over arrays WRITTEN in the rule whose items are operations: whatever tells "operation" from
        // "literal" (a table built on first use) is complete before anybody relies on it - cold start included
        // (an item taken for a literal object is truthy; evaluated, these are null)
        let (q1, q2) = (Arc::new(json!({"all": [[{"var": "zz"}], {"var": ""}]})), Arc::new(json!({"some": [[{"var": "zq"}], {"var": ""}]})));
        // two conversions of numeric strings (one padded with white space, one seen for the first time): whatever is
        // remembered about converted texts behaves the same with and without contention
        let (n1, n2) = (Arc::new(json!({"==": [" 1", 1]})), Arc::new(json!({"-": ["\u{a0}5"]})));
        v.push(("fine:num-padded|num-fresh(cold only)".to_string(), vec![vec![Call { rule: n1, data: d1.clone() }], vec![Call { rule: n2, data: d2.clone() }]]));
        v.push(("fine:all-literal|some-literal(cold only)".to_string(), vec![vec![Call { rule: q1, data: d1.clone() }], vec![Call { rule: q2, data: d1.clone() }]]));
    }
    if extra.len() == 2 {
        v.push((
            format!("fine:{}|{}", extra[0].0, extra[1].0),
            vec![vec![Call { rule: extra[0].1.clone(), data: d1.clone() }], vec![Call { rule: extra[1].1.clone(), data: d1.clone() }]],
        ));
    }
    for i in 0..rules.len() {
        for j in i..rules.len() {
            v.push((
                format!("fine:{}|{}", rules[i].0, rules[j].0),
                vec![vec![Call { rule: rules[i].1.clone(), data: d1.clone() }], vec![Call { rule: rules[j].1.clone(), data: if i == j { d2.clone() } else { d1.clone() } }]],
            ));
        }
    }
    v
}

/// `jlmc fine-run <tier> <shard> <nshards> <outfile>` (fine build only): exhaustive schedules with
/// at most one preemption at function-entry granularity; writes a JSON summary.
pub fn fine_run(a: &[String]) -> i32 {
    let thorough = a.get(0).map(|t| t == "thorough").unwrap_or(false);
    let shard: usize = a.get(1).and_then(|s| s.parse().ok()).unwrap_or(0);
    let nshards: usize = a.get(2).and_then(|s| s.parse().ok()).unwrap_or(1);
    let out = a.get(3).cloned().unwrap_or_else(|| "/dev/stdout".into());
    unsafe {
        libc::prctl(libc::PR_SET_PDEATHSIG, libc::SIGKILL);
    }
    exec::install_panic_hook();
    let _saved = exec::capture_stdout();
    install_hook();
    let cap: u64 = std::env::var("JLMC_FINE_CAP").ok().and_then(|s| s.parse().ok()).unwrap_or(200_000);
    let mut results = Vec::new();
    // units of work: (configuration, cold start?) - the cold units of a shard run first, while this
    // process has evaluated nothing itself (a cold pass only forks; its children do the evaluating)
    let cfgs = fine_configs(thorough);
    // with few configurations (quick tier) a unit is further split by first-level branch so that all
    // shards have work
    let mut units: Vec<(usize, bool, usize, usize)> = Vec::new();
    let parts = if cfgs.len() * 2 >= nshards * 4 { 1 } else { 8 };
    // ordered by part first, so that the (possibly heavier) equal-numbered parts of different configurations
    // go to different shards; cold units of a shard still run before its warm ones (see below)
    for part in 0..parts {
        for cold in [true, false] {
            for i in 0..cfgs.len() {
                // configurations aimed at what happens on FIRST use (tables, memos built lazily) are explored from a
                // cold start only: in a warm process the window they look at is closed
                if !cold && cfgs[i].0.contains("(cold only)") {
                    continue;
                }
                units.push((i, cold, part, parts));
            }
        }
    }
    // (shifted by the part number, so that the parts of one configuration go to different shards whatever the
    // number of configurations is)
    let mut mine: Vec<(usize, bool, usize, usize)> = units.iter().enumerate().filter(|(u, x)| (u + x.2) % nshards == shard).map(|(_, x)| *x).collect();
    mine.sort_by_key(|u| !u.1);
    for (i, cold, part, parts) in mine {
        let (name, bodies) = &cfgs[i];
        PART.0.store(part, std::sync::atomic::Ordering::Relaxed);
        PART.1.store(parts, std::sync::atomic::Ordering::Relaxed);
        FINE_ON.store(true, std::sync::atomic::Ordering::SeqCst);
        let t0 = std::time::Instant::now();
        let mut st0 = explore_mode(bodies, 0, cap, cold, &mut |_| {});
        let st = explore_mode(bodies, 1, cap, cold, &mut |_| {});
        FINE_ON.store(false, std::sync::atomic::Ordering::SeqCst);
        PART.1.store(1, std::sync::atomic::Ordering::Relaxed);
        st0.violations.extend(st.violations.iter().cloned());
        let threads: Vec<Value> = bodies.iter().map(|b| Value::Array(b.iter().map(|c| json!({"rule": *c.rule, "data": *c.data})).collect())).collect();
        results.push(json!({
            "config": format!("{}{}", if cold { "cold:" } else { "" }, name), "part": format!("{}/{}", part + 1, parts), "schedules": st.schedules + st0.schedules, "points_total": st.points + st0.points, "max_points": st.max_points,
            "capped": st.capped || st0.capped, "replay_divergences": st.replay_divergences + st0.replay_divergences, "wall_s": t0.elapsed().as_secs_f64(),
            "threads": threads,
            "violations": st0.violations.iter().take(3).map(|(ch, e, a)| json!({"schedule": ch, "expected": e, "actual": a, "cold": cold})).collect::<Vec<_>>(),
        }));
    }
    let _ = std::fs::write(&out, json!({"shard": shard, "results": results}).to_string());
    0
}

pub fn install_hook() {
    jsonlogic_rs::verif_hook::install(hook);
}

#[derive(Clone)]
pub struct Call {
    pub rule: Arc<Value>,
    pub data: Arc<Value>,
}

pub struct Execution {
    pub points: Vec<Point>,
    pub results: Vec<Vec<Obs>>,
    pub stdout: Vec<String>,
    pub diverged: bool,
    pub hook_sites: u64,
    pub inputs_intact: bool,
    /// every call once more, sequentially, in the same process after all threads have finished:
    /// whatever the interleaving left behind in process-wide state shows here
    pub aftermath: Vec<Vec<Obs>>,
}

/// Run the thread bodies once under the schedule `prefix` (default choices afterwards).
pub fn run_once(bodies: &[Vec<Call>], prefix: &[usize]) -> Execution {
    let n = bodies.len();
    let sched = Arc::new(Sched {
        m: Mutex::new(State {
            current: usize::MAX,
            finished: vec![false; n],
            arrived: vec![false; n],
            prefix: prefix.to_vec(),
            points: Vec::new(),
            diverged: false,
            hook_sites: 0,
            blocked: vec![false; n],
            last_event: std::time::Instant::now(),
            forced_switches: 0,
            deadlock: false,
            tids: vec![0; n],
        }),
        cv: Condvar::new(),
    });
    *SCHED.lock().unwrap() = Some(sched.clone());
    let pristine: Vec<Vec<(Value, Value)>> = bodies.iter().map(|b| b.iter().map(|c| ((*c.rule).clone(), (*c.data).clone())).collect()).collect();
    let _ = exec::drain_stdout();
    let mut handles = Vec::new();
    for (id, body) in bodies.iter().enumerate() {
        let body = body.clone();
        let s = sched.clone();
        handles.push(
            std::thread::Builder::new()
                .stack_size(4 << 20)
                .spawn(move || {
                    MY_ID.with(|c| c.set(Some(id)));
                    s.start(id);
                    let mut out = Vec::new();
                    for call in &body {
                        // no per-call stdout drain here: lines of all threads interleave in one stream
                        let r = std::panic::catch_unwind(std::panic::AssertUnwindSafe(|| jsonlogic_rs::apply(&call.rule, &call.data)));
                        let o = match r {
                            Ok(Ok(v)) => Outcome::Ok(v),
                            Ok(Err(e)) => Outcome::Err(e.to_string()),
                            Err(_) => Outcome::Panic("panic in thread".into(), "-".into()),
                        };
                        out.push(Obs { out: o, log: vec![] });
                    }
                    MY_ID.with(|c| c.set(None));
                    s.finish(id);
                    out
                })
                .unwrap(),
        );
    }
    // wait until every thread has arrived, then make the first decision (who starts)
    {
        let mut st = sched.m.lock().unwrap();
        while !st.arrived.iter().all(|&a| a) {
            st = sched.cv.wait(st).unwrap();
        }
        sched.decide(&mut st, None);
        sched.cv.notify_all();
    }
    // watchdog: the token holder may block on a real lock held by a preempted thread ("make waiting
    // visible"): after 40 ms without any scheduling event it is marked blocked and the token moves on
    let mut deadlocked = false;
    loop {
        let mut st = sched.m.lock().unwrap();
        if st.finished.iter().all(|&f| f) {
            break;
        }
        let (g, _) = sched.cv.wait_timeout(st, std::time::Duration::from_millis(5)).unwrap();
        st = g;
        if st.finished.iter().all(|&f| f) {
            break;
        }
        if st.last_event.elapsed() > std::time::Duration::from_millis(60) {
            let cur = st.current;
            // only a token holder that is really asleep in the kernel (twice, 20 ms apart) counts as blocked
            let tid = if cur < st.tids.len() { st.tids[cur] } else { 0 };
            if cur < st.finished.len() && !st.finished[cur] {
                let first = thread_sleeping(tid);
                drop(st);
                std::thread::sleep(std::time::Duration::from_millis(20));
                st = sched.m.lock().unwrap();
                if !(first && thread_sleeping(tid)) || st.current != cur || st.last_event.elapsed() < std::time::Duration::from_millis(60) || st.finished[cur] {
                    continue;
                }
                st.blocked[cur] = true;
            }
            let next = (0..st.finished.len()).find(|&i| !st.finished[i] && !st.blocked[i]);
            match next {
                Some(nx) => {
                    st.current = nx;
                    st.forced_switches += 1;
                    st.last_event = std::time::Instant::now();
                    sched.cv.notify_all();
                }
                None => {
                    // every unfinished thread is blocked: a real deadlock of the code under test
                    st.deadlock = true;
                    deadlocked = true;
                    break;
                }
            }
        }
    }
    let mut results = Vec::new();
    for h in handles {
        if deadlocked {
            // the threads can never be joined; leave them behind
            results.push(Vec::new());
            std::mem::forget(h);
        } else {
            results.push(h.join().unwrap_or_default());
        }
    }
    use std::io::Write;
    let _ = std::io::stdout().flush();
    let stdout = exec::drain_stdout();
    *SCHED.lock().unwrap() = None;
    let st = sched.m.lock().unwrap();
    let mut intact = true;
    for (b, p) in bodies.iter().zip(&pristine) {
        for (c, (r0, d0)) in b.iter().zip(p) {
            if *c.rule != *r0 || *c.data != *d0 || c.rule.to_string() != r0.to_string() || c.data.to_string() != d0.to_string() {
                intact = false;
            }
        }
    }
    let points = st.points.clone();
    let (diverged, hook_sites) = (st.diverged, st.hook_sites);
    drop(st);
    // aftermath: no scheduler is installed any more, the hook is a no-op for this thread
    let mut aftermath = Vec::new();
    if !deadlocked {
        let fine_was = FINE_ON.swap(false, std::sync::atomic::Ordering::SeqCst);
        for b in bodies {
            aftermath.push(b.iter().map(|c| exec::apply(&c.rule, &c.data)).collect::<Vec<Obs>>());
        }
        FINE_ON.store(fine_was, std::sync::atomic::Ordering::SeqCst);
    }
    Execution { points, results, stdout, diverged, hook_sites, inputs_intact: intact, aftermath }
}

fn obs_json(o: &Obs) -> Value {
    match &o.out {
        Outcome::Ok(v) => json!({"ok": v.to_string(), "log": o.log}),
        Outcome::Err(e) => json!({"err": e, "log": o.log}),
        Outcome::Panic(m, l) => json!({"panic": [m, l], "log": o.log}),
    }
}

fn obs_from(v: &Value) -> Obs {
    let log: Vec<String> = v["log"].as_array().map(|a| a.iter().map(|x| x.as_str().unwrap_or("").to_string()).collect()).unwrap_or_default();
    let out = if let Some(x) = v.get("ok") {
        // the text is the identity of the value (number spelling included); it is parsed back only for display
        Outcome::Ok(Value::String(format!("\u{1}{}", x.as_str().unwrap_or(""))))
    } else if let Some(e) = v.get("err") {
        Outcome::Err(e.as_str().unwrap_or("").to_string())
    } else {
        Outcome::Panic(v["panic"][0].as_str().unwrap_or("").into(), v["panic"][1].as_str().unwrap_or("").into())
    };
    Obs { out, log }
}

/// Run `f` in a forked child of this process and return what it wrote (None: the child died).
fn in_child(f: &dyn Fn() -> String) -> Option<String> {
    unsafe {
        let mut fds = [0i32; 2];
        if libc::pipe(fds.as_mut_ptr()) != 0 {
            return None;
        }
        let pid = libc::fork();
        if pid < 0 {
            return None;
        }
        if pid == 0 {
            libc::close(fds[0]);
            libc::prctl(libc::PR_SET_PDEATHSIG, libc::SIGKILL);
            let msg = std::panic::catch_unwind(std::panic::AssertUnwindSafe(|| f())).unwrap_or_default();
            let b = msg.as_bytes();
            let mut off = 0;
            while off < b.len() {
                let n = libc::write(fds[1], b[off..].as_ptr() as *const libc::c_void, b.len() - off);
                if n <= 0 {
                    break;
                }
                off += n as usize;
            }
            libc::_exit(0);
        }
        libc::close(fds[1]);
        let mut buf = Vec::new();
        let mut chunk = [0u8; 65536];
        loop {
            let n = libc::read(fds[0], chunk.as_mut_ptr() as *mut libc::c_void, chunk.len());
            if n <= 0 {
                break;
            }
            buf.extend_from_slice(&chunk[..n as usize]);
        }
        libc::close(fds[0]);
        let mut st = 0;
        libc::waitpid(pid, &mut st, 0);
        if !(libc::WIFEXITED(st) && libc::WEXITSTATUS(st) == 0) || buf.is_empty() {
            return None;
        }
        String::from_utf8(buf).ok()
    }
}

/// Cold start: the same execution in a forked child of a process that has never evaluated anything,
/// so that every schedule meets lazily built process-wide state in its initial condition (an
/// interleaving of two *first* uses exists only once per process otherwise).
pub fn run_once_cold(bodies: &[Vec<Call>], prefix: &[usize]) -> Option<Execution> {
    let txt = in_child(&|| {
        let e = run_once(bodies, prefix);
        json!({
            "points": e.points.iter().map(|p| json!([p.enabled, p.chosen, p.running])).collect::<Vec<_>>(),
            "results": e.results.iter().map(|t| t.iter().map(obs_json).collect::<Vec<_>>()).collect::<Vec<_>>(),
            "aftermath": e.aftermath.iter().map(|t| t.iter().map(obs_json).collect::<Vec<_>>()).collect::<Vec<_>>(),
            "stdout": e.stdout, "diverged": e.diverged, "hook_sites": e.hook_sites, "intact": e.inputs_intact,
        })
        .to_string()
    })?;
    let v: Value = serde_json::from_str(&txt).ok()?;
    let obs2 = |k: &str| -> Vec<Vec<Obs>> { v[k].as_array().map(|ts| ts.iter().map(|t| t.as_array().map(|os| os.iter().map(obs_from).collect()).unwrap_or_default()).collect()).unwrap_or_default() };
    Some(Execution {
        points: v["points"]
            .as_array()?
            .iter()
            .map(|p| Point {
                enabled: p[0].as_array().map(|a| a.iter().map(|x| x.as_u64().unwrap_or(0) as usize).collect()).unwrap_or_default(),
                chosen: p[1].as_u64().unwrap_or(0) as usize,
                running: p[2].as_u64().map(|x| x as usize),
            })
            .collect(),
        results: obs2("results"),
        aftermath: obs2("aftermath"),
        stdout: v["stdout"].as_array().map(|a| a.iter().map(|x| x.as_str().unwrap_or("").to_string()).collect()).unwrap_or_default(),
        diverged: v["diverged"].as_bool().unwrap_or(true),
        hook_sites: v["hook_sites"].as_u64().unwrap_or(0),
        inputs_intact: v["intact"].as_bool().unwrap_or(false),
    })
}

/// Isolated outcomes for the cold mode: each call as the first call of a fresh child, in the same
/// textual form as the results of `run_once_cold`.
fn isolated_cold(bodies: &[Vec<Call>]) -> Option<Vec<Vec<Obs>>> {
    let mut out = Vec::new();
    for b in bodies {
        let mut t = Vec::new();
        for c in b {
            let txt = in_child(&|| {
                let fine_was = FINE_ON.swap(false, std::sync::atomic::Ordering::SeqCst);
                let o = exec::apply(&c.rule, &c.data);
                FINE_ON.store(fine_was, std::sync::atomic::Ordering::SeqCst);
                obs_json(&o).to_string()
            })?;
            t.push(obs_from(&serde_json::from_str::<Value>(&txt).ok()?));
        }
        out.push(t);
    }
    Some(out)
}

fn preemptions(points: &[Point]) -> usize {
    points.iter().filter(|p| p.running.is_some() && Some(p.chosen) != p.running && p.running.map(|r| p.enabled.contains(&r)).unwrap_or(false)).count()
}

pub struct Stats {
    pub schedules: u64,
    pub by_preemptions: Vec<u64>,
    pub points: u64,
    pub max_points: u64,
    pub interleavings: BTreeSet<String>,
    pub replays: u64,
    pub replay_divergences: u64,
    pub violations: Vec<(Vec<usize>, String, String)>,
    pub capped: bool,
}

/// Isolated outcome of a call: single-threaded, nobody else running.
fn isolated(c: &Call) -> Obs {
    exec::apply(&c.rule, &c.data)
}

fn same_out(a: &Outcome, b: &Outcome) -> bool {
    match (a, b) {
        (Outcome::Ok(x), Outcome::Ok(y)) => x == y && x.to_string() == y.to_string(),
        (Outcome::Err(_), Outcome::Err(_)) => true,
        _ => false,
    }
}

fn is_subsequence(small: &[String], big: &[String]) -> bool {
    let mut i = 0;
    for b in big {
        if i < small.len() && small[i] == *b {
            i += 1;
        }
    }
    i == small.len()
}

/// Display of an observation (cold-mode observations carry the value as marked text).
fn pretty(o: &Obs) -> String {
    if let Outcome::Ok(Value::String(t)) = &o.out {
        if let Some(rest) = t.strip_prefix('\u{1}') {
            return if o.log.is_empty() { format!("Ok({})", rest) } else { format!("Ok({}) log={:?}", rest, o.log) };
        }
    }
    o.show()
}

/// Oracle for one execution.
fn judge(bodies: &[Vec<Call>], iso: &[Vec<Obs>], e: &Execution) -> Option<(String, String)> {
    if e.diverged {
        return Some(("schedule prefix replays deterministically".into(), "a replayed choice was out of range (uncontrolled nondeterminism)".into()));
    }
    if !e.inputs_intact {
        return Some(("shared inputs untouched".into(), "a shared rule or data value was modified".into()));
    }
    for (t, (body, res)) in bodies.iter().zip(&e.results).enumerate() {
        if res.len() != body.len() {
            return Some((format!("thread {} completes its {} call(s)", t, body.len()), format!("{} result(s)", res.len())));
        }
        for (k, r) in res.iter().enumerate() {
            if !same_out(&r.out, &iso[t][k].out) {
                return Some((format!("thread {} call {} as in isolation: {}", t, k, pretty(&iso[t][k])), pretty(r)));
            }
        }
    }
    // aftermath: the same calls once more after the threads are gone
    for (t, res) in e.aftermath.iter().enumerate() {
        for (k, r) in res.iter().enumerate() {
            if !same_out(&r.out, &iso[t][k].out) || r.log != iso[t][k].log {
                return Some((format!("after the concurrent phase, thread {}'s call {} repeated sequentially is as in isolation: {}", t, k, pretty(&iso[t][k])), pretty(r)));
            }
        }
    }
    // stdout: multiset equality and per-thread order
    let mut expected: Vec<String> = iso.iter().flat_map(|t| t.iter().flat_map(|o| o.log.clone())).collect();
    let mut got = e.stdout.clone();
    let per_thread_ok = iso.iter().all(|t| {
        let lines: Vec<String> = t.iter().flat_map(|o| o.log.clone()).collect();
        is_subsequence(&lines, &e.stdout)
    });
    expected.sort();
    got.sort();
    if expected != got || !per_thread_ok {
        return Some((format!("exactly the lines {:?}, each thread's in order", expected), format!("{:?}", e.stdout)));
    }
    None
}

pub fn explore(bodies: &[Vec<Call>], bound: usize, cap: u64, progress: &mut dyn FnMut(u64)) -> Stats {
    explore_mode(bodies, bound, cap, false, progress)
}

/// (part, parts): this process explores only the preemptive branches at points i with i % parts == part.
static PART: (std::sync::atomic::AtomicUsize, std::sync::atomic::AtomicUsize) = (std::sync::atomic::AtomicUsize::new(0), std::sync::atomic::AtomicUsize::new(1));

/// `cold`: every execution (and every isolated reference call) runs in a forked child of this
/// process, which itself never evaluates anything: each schedule starts from the initial process state.
pub fn explore_mode(bodies: &[Vec<Call>], bound: usize, cap: u64, cold: bool, progress: &mut dyn FnMut(u64)) -> Stats {
    let died = |prefix: &[usize]| -> Execution {
        // the child did not survive the schedule: a crash of the code under test (or of the machinery; the
        // replay decides) - reported as an execution whose every result is a panic
        Execution {
            points: prefix.iter().map(|&c| Point { enabled: (0..=c).collect(), chosen: c, running: None }).collect(),
            results: bodies.iter().map(|b| b.iter().map(|_| Obs { out: Outcome::Panic("the process died under this schedule".into(), "-".into()), log: vec![] }).collect()).collect(),
            stdout: vec![], diverged: false, hook_sites: 0, inputs_intact: true, aftermath: vec![],
        }
    };
    let run = |prefix: &[usize]| -> Execution {
        if cold { run_once_cold(bodies, prefix).unwrap_or_else(|| died(prefix)) } else { run_once(bodies, prefix) }
    };
    let iso: Vec<Vec<Obs>> = if cold {
        match isolated_cold(bodies) {
            Some(i) => i,
            None => {
                let mut st = Stats { schedules: 0, by_preemptions: vec![0; bound + 1], points: 0, max_points: 0, interleavings: BTreeSet::new(), replays: 0, replay_divergences: 1, violations: Vec::new(), capped: false };
                st.replay_divergences = 1;
                return st;
            }
        }
    } else {
        bodies.iter().map(|b| b.iter().map(isolated).collect()).collect()
    };
    let mut st = Stats {
        schedules: 0,
        by_preemptions: vec![0; bound + 1],
        points: 0,
        max_points: 0,
        interleavings: BTreeSet::new(),
        replays: 0,
        replay_divergences: 0,
        violations: Vec::new(),
        capped: false,
    };
    let mut stack: Vec<Vec<usize>> = vec![vec![]];
    while let Some(prefix) = stack.pop() {
        if st.schedules >= cap {
            st.capped = true;
            break;
        }
        let e = run(&prefix);
        st.schedules += 1;
        if st.schedules % 20 == 0 {
            progress(st.schedules);
        }
        st.points += e.points.len() as u64;
        st.max_points = st.max_points.max(e.points.len() as u64);
        let pre = preemptions(&e.points);
        if pre <= bound {
            st.by_preemptions[pre] += 1;
        }
        st.interleavings.insert(e.stdout.join("|"));
        if let Some((exp, act)) = judge(bodies, &iso, &e) {
            // the same schedule must fail the same way before it is believed
            let choices: Vec<usize> = e.points.iter().map(|p| p.enabled.iter().position(|&x| x == p.chosen).unwrap_or(0)).collect();
            // believed only if the recorded schedule fails again (up to three attempts: where real locks are
            // involved the blocked-thread watchdog makes timing matter)
            let mut reproduced = false;
            for _ in 0..3 {
                let again = run(&choices);
                if judge(bodies, &iso, &again).is_some() {
                    reproduced = true;
                    break;
                }
            }
            if !reproduced {
                st.replay_divergences += 1;
            } else if st.violations.len() < 5 {
                st.violations.push((choices, exp, act));
            }
        } else if st.schedules % 100 == 0 {
            let choices: Vec<usize> = e.points.iter().map(|p| p.enabled.iter().position(|&x| x == p.chosen).unwrap_or(0)).collect();
            let again = run(&choices);
            st.replays += 1;
            let same = again.stdout == e.stdout
                && again.points.len() == e.points.len()
                && again.results.iter().zip(&e.results).all(|(a, b)| a.len() == b.len() && a.iter().zip(b).all(|(x, y)| same_out(&x.out, &y.out)));
            if !same {
                st.replay_divergences += 1;
            }
        }
        // branch: every alternative at every point after the prefix, within the budget
        let mut cost = 0usize;
        let choices: Vec<usize> = e.points.iter().map(|p| p.enabled.iter().position(|&x| x == p.chosen).unwrap_or(0)).collect();
        for (i, p) in e.points.iter().enumerate() {
            let still = p.running.map(|r| p.enabled.contains(&r)).unwrap_or(false);
            // a partitioned exploration keeps only its own share of the first-level branches
            let (part, parts) = (PART.0.load(std::sync::atomic::Ordering::Relaxed), PART.1.load(std::sync::atomic::Ordering::Relaxed));
            // (only branches that spend a preemption are partitioned - at any depth; the free ones, such as the
            // choice of who starts, are explored by every part, so that each part sees its share below them)
            let mine = !(still && parts > 1 && i % parts != part);
            if i >= prefix.len() && mine {
                for alt in 1..p.enabled.len() {
                    let c = cost + if still { 1 } else { 0 };
                    if c <= bound {
                        let mut np = choices[..i].to_vec();
                        np.push(alt);
                        stack.push(np);
                    }
                }
            }
            if still && Some(p.chosen) != p.running {
                cost += 1;
            }
        }
    }
    st
}

fn call(rule: Value, data: &Arc<Value>) -> Call {
    Call { rule: Arc::new(rule), data: data.clone() }
}

/// Harness configurations: thread bodies chosen to collide.
pub fn configs(thorough: bool) -> Vec<(String, Vec<Vec<Call>>, usize)> {
    let d1 = Arc::new(json!({"a": "xyz", "xs": [1, 2, 3], "n": 2, "b": {"c": "deep"}}));
    let d2 = Arc::new(json!({"a": "7", "xs": [3, 0], "n": 7.0}));
    let filter = Arc::new(json!({"filter": [{"var": "xs"}, {">": [{"var": ""}, 1]}]}));
    let b = if thorough { 3 } else { 2 };
    let mut v: Vec<(String, Vec<Vec<Call>>, usize)> = Vec::new();
    // same rule (shared), different data
    v.push(("same-rule/different-data:filter".into(), vec![vec![Call { rule: filter.clone(), data: d1.clone() }], vec![Call { rule: filter.clone(), data: d2.clone() }]], b));
    // identical call twice
    v.push(("identical-call:filter".into(), vec![vec![Call { rule: filter.clone(), data: d1.clone() }], vec![Call { rule: filter.clone(), data: d1.clone() }]], b));
    // same data, different rules
    v.push((
        "same-data/different-rule:cat-vs-reduce".into(),
        vec![vec![call(json!({"cat": ["<", {"var": "a"}, ">", {"var": "n"}]}), &d1)], vec![call(json!({"reduce": [{"var": "xs"}, {"+": [{"var": "current"}, {"var": "accumulator"}]}, 0]}), &d1)]],
        b,
    ));
    v.push((
        "same-data/different-rule:merge-vs-missing".into(),
        vec![vec![call(json!({"merge": [{"var": "xs"}, [0], {"var": "a"}]}), &d1)], vec![call(json!({"missing_some": [2, ["a", "zz", "n"]]}), &d1)]],
        b,
    ));
    // log lines with thread-distinct markers
    v.push((
        "log:thread-distinct-markers".into(),
        vec![vec![call(json!({"cat": [{"log": "A1"}, {"log": "A2"}]}), &d1)], vec![call(json!({"cat": [{"log": "B1"}, {"log": "B2"}]}), &d2)]],
        b,
    ));
    // lazy operators spanning many hook points
    v.push((
        "lazy:if-and-or-vs-all".into(),
        vec![vec![call(json!({"if": [{"and": [{"var": "a"}, {"or": [{"var": "nope"}, {"var": "n"}]}]}, {"var": "a"}, "else"]}), &d1)], vec![call(json!({"all": [{"var": "xs"}, {">": [{"var": ""}, 0]}]}), &d1)]],
        b,
    ));
    v.push((
        "map-vs-map:same-rule".into(),
        {
            let m = Arc::new(json!({"map": [{"var": "xs"}, {"cat": [{"var": ""}, "!"]}]}));
            vec![vec![Call { rule: m.clone(), data: d1.clone() }], vec![Call { rule: m.clone(), data: d2.clone() }]]
        },
        b,
    ));
    v.push((
        "substr-var-arith".into(),
        vec![vec![call(json!({"substr": [{"var": "a"}, 1, 1]}), &d1)], vec![call(json!({"+": [{"var": "n"}, "3.5", [2]]}), &d2)]],
        b,
    ));
    // two calls per thread (history and interleaving together)
    v.push((
        "2x2:filter-then-cat".into(),
        vec![
            vec![Call { rule: filter.clone(), data: d1.clone() }, call(json!({"cat": [{"var": "a"}, "-", {"var": "n"}]}), &d1)],
            vec![call(json!({"cat": [{"var": "a"}, "+", {"var": "n"}]}), &d2), Call { rule: filter.clone(), data: d2.clone() }],
        ],
        if thorough { 2 } else { 1 },
    ));
    // three threads
    v.push((
        "3-threads:filter-filter-cat".into(),
        vec![
            vec![Call { rule: filter.clone(), data: d1.clone() }],
            vec![Call { rule: filter.clone(), data: d2.clone() }],
            vec![call(json!({"cat": [{"log": "C"}, {"var": "a"}]}), &d1)],
        ],
        if thorough { 2 } else { 1 },
    ));
    // every pair of operator families (identical pairs included), on shared data
    {
        let fam: Vec<(&str, Value)> = vec![
            ("cat", json!({"cat": [{"var": "a"}, "-", {"var": "n"}]})),
            ("merge", json!({"merge": [{"var": "xs"}, {"var": "a"}]})),
            ("missing", json!({"missing": ["a", "zz", "b.c"]})),
            ("missing_some", json!({"missing_some": [2, ["a", "zz", "n", "yy"]]})),
            ("filter", json!({"filter": [{"var": "xs"}, {">": [{"var": ""}, 1]}]})),
            ("map", json!({"map": [{"var": "xs"}, {"+": [{"var": ""}, 1]}]})),
            ("reduce", json!({"reduce": [{"var": "xs"}, {"cat": [{"var": "accumulator"}, {"var": "current"}]}, ""]})),
            ("all", json!({"all": [{"var": "xs"}, {"var": ""}]})),
            ("some", json!({"some": [[{"var": "n"}, {"var": "nope"}], {"var": ""}]})),
            ("substr", json!({"substr": [{"var": "a"}, -2, 1]})),
            ("var", json!({"var": ["b.c", {"var": "a"}]})),
            ("arith", json!({"+": [{"var": "n"}, "3.5", [2]]})),
            ("max", json!({"max": [{"var": "n"}, "10", 3]})),
            ("if", json!({"if": [{"var": "nope"}, 1, {"var": "a"}, {"var": "n"}, 3]})),
            ("and-or", json!({"and": [{"var": "a"}, {"or": [{"var": "nope"}, {"var": "xs"}]}]})),
            ("cmp", json!({"<": [{"var": "n"}, {"var": "a"}, "9"]})),
            ("in", json!({"in": [{"var": "n"}, {"var": "xs"}]})),
            ("log", json!({"log": {"var": "a"}})),
            ("paths", json!({"cat": [{"var": "b.c"}, "|", {"var": "xs.0"}, "|", {"var": "xs.-1"}, "|", {"var": "a.1"}]})),
        ];
        let rules: Vec<(&str, Arc<Value>)> = fam.into_iter().map(|(n, r)| (n, Arc::new(r))).collect();
        for i in 0..rules.len() {
            for j in i..rules.len() {
                // same rule object for identical pairs (shared Arc), different data for the two threads
                v.push((
                    format!("pair:{}|{}", rules[i].0, rules[j].0),
                    vec![vec![Call { rule: rules[i].1.clone(), data: d1.clone() }], vec![Call { rule: rules[j].1.clone(), data: if i == j { d2.clone() } else { d1.clone() } }]],
                    if thorough { 2 } else { 1 },
                ));
            }
        }
    }
    // rules nested close to the depth the text interfaces deliver (each fine alone): collide on
    // any process-wide budget such as a shared recursion-depth counter
    {
        let deep = |k: &str, depth: usize| -> Value {
            let t = format!("{}{}{}", format!("{{\"{}\":", k).repeat(depth), "[1]", "}".repeat(depth));
            serde_json::from_str(&t).unwrap()
        };
        let r1 = Arc::new(deep("!", 100));
        let r2 = Arc::new(deep("!!", 100));
        v.push(("deep-chain-x2:depth-100".into(), vec![vec![Call { rule: r1.clone(), data: d1.clone() }], vec![Call { rule: r2.clone(), data: d2.clone() }]], 1));
        if thorough {
            let r3 = Arc::new(deep("cat", 50));
            v.push((
                "deep-chain-x3:depth-50".into(),
                vec![vec![Call { rule: r3.clone(), data: d1.clone() }], vec![Call { rule: r3.clone(), data: d2.clone() }], vec![Call { rule: Arc::new(deep("!", 50)), data: d1.clone() }]],
                1,
            ));
        }
    }
    if thorough {
        v.push((
            "3-threads:reduce-some-in".into(),
            vec![
                vec![call(json!({"reduce": [{"var": "xs"}, {"cat": [{"var": "accumulator"}, {"var": "current"}]}, ""]}), &d1)],
                vec![call(json!({"some": [{"var": "xs"}, {"==": [{"var": ""}, 3]}]}), &d1)],
                vec![call(json!({"in": [{"var": "n"}, {"var": "xs"}]}), &d1)],
            ],
            2,
        ));
    }
    v
}

pub fn run(ctx: &mut Ctx) {
    install_hook();
    let cap: u64 = std::env::var("JLMC_SCHED_CAP").ok().and_then(|s| s.parse().ok()).unwrap_or(if ctx.tier_thorough { 400_000 } else { 60_000 });
    // every configuration twice: warm (all schedules in this process, process-wide state as the
    // isolated reference calls left it) and cold (every schedule in a forked child of a process that
    // never evaluated anything: two *first* uses of lazily built state race in every schedule)
    let mut all: Vec<(String, Vec<Vec<Call>>, usize, bool)> = Vec::new();
    // (all cold passes first: until the first warm pass this worker process has evaluated nothing itself)
    for (name, bodies, bound) in configs(ctx.tier_thorough) {
        all.push((format!("cold:{}", name), bodies.clone(), bound, true));
    }
    all.extend(configs(ctx.tier_thorough).into_iter().map(|(n, b, bd)| (n, b, bd, false)));
    for (name, bodies, bound, cold) in all {
        if !ctx.mine() {
            continue;
        }
        ctx.tick_external(&json!({"schedule_config": name}));
        // iterate the bound: 0, 1, .. so that the first counterexample has the fewest preemptions
        let mut last: Option<Stats> = None;
        for bnd in 0..=bound {
            let nm = name.clone();
            let st = {
                let c = &mut *ctx;
                explore_mode(&bodies, bnd, cap, cold, &mut |n| c.heartbeat(&json!({"schedule_config": nm, "bound": bnd, "schedules_so_far": n})))
            };
            ctx.tick_external(&json!({"schedule_config": name, "bound": bnd, "schedules": st.schedules}));
            let failed = !st.violations.is_empty();
            if bnd == bound || failed {
                last = Some(st);
                if failed {
                    break;
                }
            } else {
                crate::history::add_extra(ctx, &format!("schedules_bound_{}", bnd), st.schedules);
            }
        }
        let st = last.unwrap();
        ctx.states += st.points + st.schedules;
        ctx.transitions += st.points;
        ctx.leaves += st.schedules;
        ctx.evaluations += st.schedules + st.replays;
        *ctx.subspaces.entry(format!("schedule:{}", name)).or_insert(0) += st.schedules;
        *ctx.outcomes.entry(format!("schedule-ok")).or_insert(0) += st.schedules - st.violations.len().min(st.schedules as usize) as u64;
        crate::history::add_extra(ctx, &format!("schedules_bound_{}", bound.min(st.by_preemptions.len() - 1)), st.schedules);
        crate::history::add_extra(ctx, "schedules_total", st.schedules);
        if cold {
            crate::history::add_extra(ctx, "schedules_cold_start", st.schedules);
        }
        crate::history::add_extra(ctx, "scheduling_points_total", st.points);
        crate::history::add_extra(ctx, "distinct_stdout_interleavings", st.interleavings.len() as u64);
        crate::history::add_extra(ctx, "replayed_twice", st.replays);
        crate::history::add_extra(ctx, "replay_divergences", st.replay_divergences);
        let cur = ctx.extra.get("max_points_per_execution").and_then(|v| v.as_u64()).unwrap_or(0);
        ctx.extra.insert("max_points_per_execution".into(), json!(cur.max(st.max_points)));
        for i in 0..st.schedules.min(2_000_000) {
            ctx.nontrivial.insert(crate::ctx::hash_str(&format!("sched-{}-{}", name, i)));
        }
        if st.capped {
            ctx.fail("schedule:machinery", json!({"config": name}), "the bounded space is closed".into(), "PANIC-like: schedule cap hit before the space was closed".into(), None);
        }
        if st.replay_divergences > 0 {
            ctx.fail("schedule:machinery", json!({"config": name}), "a replayed schedule reproduces the same observations".into(), "PANIC-like: divergence while replaying a schedule (uncontrolled nondeterminism)".into(), None);
        }
        for (choices, exp, act) in &st.violations {
            let threads: Vec<Value> = bodies.iter().map(|b| Value::Array(b.iter().map(|c| json!({"rule": *c.rule, "data": *c.data})).collect())).collect();
            ctx.fail("schedule", json!({"config": name, "threads": threads, "schedule": choices, "cold": cold}), exp.clone(), act.clone(), None);
        }
        ctx.sample_force(json!({"config": name, "threads": bodies.len(), "preemption_bound": bound, "schedules": st.schedules, "scheduling_points_max": st.max_points, "distinct_stdout_interleavings": st.interleavings.len(),
            "thread_bodies": bodies.iter().map(|b| Value::Array(b.iter().map(|c| json!({"rule": *c.rule, "data": *c.data})).collect())).collect::<Vec<_>>()}));
    }
}

/// PROVISO (sampling, not exhaustive, not the deciding step): the same thread bodies free-running -
/// no token, every thread repeats its calls in a tight loop after a common barrier - so that
/// interleavings finer than a hook point (inside code that has no hook, e.g. newly added shared
/// state) get a chance to occur. Every result is still compared with the isolated one; a mismatch
/// is a real observed failure and is reported, a silent run proves nothing beyond E3.
pub fn stress(ctx: &mut Ctx, budget_ms: u64) {
    use std::sync::Barrier;
    let cfgs = configs(ctx.tier_thorough);
    let mine: Vec<_> = cfgs.into_iter().enumerate().filter(|(i, _)| (*i as u64 + ctx.seed) % ctx.nshards == ctx.shard).map(|(_, c)| c).collect();
    if mine.is_empty() {
        return;
    }
    let per_cfg = std::time::Duration::from_millis((budget_ms / mine.len() as u64).max(5));
    let mut rounds_total = 0u64;
    for (name, bodies, _) in mine {
        if name.starts_with("deep-chain") {
            continue;
        }
        let iso: Vec<Vec<Obs>> = bodies.iter().map(|b| b.iter().map(isolated).collect()).collect();
        let expected: Vec<Vec<Outcome>> = iso.iter().map(|t| t.iter().map(|o| o.out.clone()).collect()).collect();
        let t0 = std::time::Instant::now();
        let mut mismatch: Option<String> = None;
        while t0.elapsed() < per_cfg && mismatch.is_none() {
            ctx.heartbeat(&json!({"free_run_config": name}));
            let barrier = Arc::new(Barrier::new(bodies.len()));
            let mut hs = Vec::new();
            for (t, body) in bodies.iter().cloned().enumerate() {
                let barrier = barrier.clone();
                let exp = expected[t].clone();
                hs.push(std::thread::spawn(move || {
                    barrier.wait();
                    for rep in 0..40 {
                        for (k, c) in body.iter().enumerate() {
                            let o = match std::panic::catch_unwind(std::panic::AssertUnwindSafe(|| jsonlogic_rs::apply(&c.rule, &c.data))) {
                                Ok(Ok(v)) => Outcome::Ok(v),
                                Ok(Err(e)) => Outcome::Err(e.to_string()),
                                Err(_) => Outcome::Panic("panic in thread".into(), "-".into()),
                            };
                            if !same_out(&o, &exp[k]) {
                                return Some(format!("thread {} call {} repetition {}: {:?} instead of {:?}", t, k, rep, o, exp[k]));
                            }
                        }
                    }
                    None
                }));
            }
            for h in hs {
                if let Ok(Some(m)) = h.join() {
                    mismatch = Some(m);
                }
            }
            rounds_total += 1;
            let _ = exec::drain_stdout();
        }
        if let Some(m) = mismatch {
            let threads: Vec<Value> = bodies.iter().map(|b| Value::Array(b.iter().map(|c| json!({"rule": *c.rule, "data": *c.data})).collect())).collect();
            ctx.fail("free-run (sampling proviso)", json!({"config": name, "threads": threads, "free_running": true}), "every concurrent call returns its isolated result".into(), m, None);
        }
    }
    crate::history::add_extra(ctx, "free_run_rounds_sampling_proviso", rounds_total);
}

/// Replay one recorded schedule without the explorer.
pub fn replay(rec: &Value) -> i32 {
    install_hook();
    let _saved = exec::capture_stdout();
    let case = &rec["case"];
    let bodies: Vec<Vec<Call>> = case["threads"]
        .as_array()
        .map(|ts| {
            ts.iter()
                .map(|t| t.as_array().map(|cs| cs.iter().map(|c| Call { rule: Arc::new(c["rule"].clone()), data: Arc::new(c["data"].clone()) }).collect()).unwrap_or_default())
                .collect()
        })
        .unwrap_or_default();
    let choices: Vec<usize> = case["schedule"].as_array().map(|a| a.iter().map(|x| x.as_u64().unwrap_or(0) as usize).collect()).unwrap_or_default();
    let cold = case["cold"].as_bool().unwrap_or(false);
    let fine = case["fine"].as_bool().unwrap_or(false);
    if fine && !cfg!(feature = "fine") {
        eprintln!("this schedule was recorded at function-entry granularity; replay it with ./check replay <file> (it builds the instrumented harness)");
        return 2;
    }
    FINE_ON.store(fine, std::sync::atomic::Ordering::SeqCst);
    let (iso, e) = if cold {
        let iso = match isolated_cold(&bodies) {
            Some(i) => i,
            None => {
                eprintln!("a reference child died");
                return 2;
            }
        };
        match run_once_cold(&bodies, &choices) {
            Some(e) => (iso, e),
            None => {
                eprintln!("the process died under the recorded schedule");
                eprintln!("VIOLATION property=C17 (schedule replay)");
                return 1;
            }
        }
    } else {
        let iso: Vec<Vec<Obs>> = bodies.iter().map(|b| b.iter().map(isolated).collect()).collect();
        (iso, run_once(&bodies, &choices))
    };
    let verdict = judge(&bodies, &iso, &e);
    // run-length form: "0 x 1523, 1, 0 x 730"
    let mut rl: Vec<String> = Vec::new();
    let mut i = 0;
    while i < choices.len() {
        let mut j = i;
        while j < choices.len() && choices[j] == choices[i] {
            j += 1;
        }
        rl.push(if j - i > 1 { format!("{} x {}", choices[i], j - i) } else { format!("{}", choices[i]) });
        i = j;
    }
    eprintln!("schedule [{}]{}: {} scheduling points, stdout {:?}", rl.join(", "), if cold { " (cold start)" } else { "" }, e.points.len(), e.stdout);
    match verdict {
        Some((exp, act)) => {
            eprintln!("expected {} / got {}", exp, act);
            eprintln!("VIOLATION property=C17 (schedule replay)");
            1
        }
        None => {
            eprintln!("this build does not violate the oracle under the recorded schedule");
            0
        }
    }
}

/// The same thread bodies free-running (no token, no hand-offs): a sampling stress run and the
/// body used under miri's data-race detector; NOT the deciding step.
pub fn free_run() -> i32 {
    exec::install_panic_hook();
    let _saved = exec::capture_stdout();
    let mut bad = 0;
    for (name, bodies, _) in configs(true) {
        let iso: Vec<Vec<Obs>> = bodies.iter().map(|b| b.iter().map(isolated).collect()).collect();
        for _round in 0..200 {
            let mut hs = Vec::new();
            for body in bodies.iter().cloned() {
                hs.push(std::thread::spawn(move || body.iter().map(|c| jsonlogic_rs::apply(&c.rule, &c.data).map_err(|e| e.to_string())).collect::<Vec<_>>()));
            }
            for (t, h) in hs.into_iter().enumerate() {
                let rs = h.join().unwrap();
                for (k, r) in rs.iter().enumerate() {
                    let o = match r {
                        Ok(v) => Outcome::Ok(v.clone()),
                        Err(e) => Outcome::Err(e.clone()),
                    };
                    if !same_out(&o, &iso[t][k].out) {
                        bad += 1;
                        eprintln!("free-run mismatch in {} thread {} call {}", name, t, k);
                    }
                }
            }
            let _ = exec::drain_stdout();
        }
    }
    if bad > 0 {
        1
    } else {
        0
    }
}
