//! Finite alphabets (DESIGN.md Section 4): one representative per case split visible in the
//! code and per corner named in a property. Ordered simplest-first.

use serde_json::{json, Value};

pub fn parse(s: &str) -> Value {
    serde_json::from_str(s).unwrap_or_else(|e| panic!("alphabet text {:?}: {}", s, e))
}
fn many(texts: &[&str]) -> Vec<Value> {
    texts.iter().map(|t| parse(t)).collect()
}

/// V0: the eight simplest values.
pub fn v0() -> Vec<Value> {
    many(&["null", "false", "true", "0", "1", r#""""#, r#""a""#, "[]"])
}

/// Operation-shaped values (markers): re-interpreting any of them is observable.
pub fn markers() -> Vec<Value> {
    vec![
        json!({"var": "s"}),
        json!({"+": ["x"]}),
        json!({"log": "LEAK"}),
        json!({"var": "s", "z": 1}),
        // shaped like operations that are ill-formed or would fail: as data they are objects like any other
        json!({"==": [1]}),
        json!({"!": []}),
        json!({"substr": "abc"}),
        json!({"in": [1, 2]}),
        json!({"var": [[1]]}),
        json!({"if": [{"none": []}]}),
    ]
}

/// V1 core corpus (~50) without the operation-shaped markers.
pub fn v1_plain() -> Vec<Value> {
    let mut v = v0();
    v.extend(many(&[
        "-0.0", "-1", "1.0", "1.5", "2", r#""0""#, r#""1""#, r#""1.0""#, r#"" ""#, r#"" 1 ""#,
        r#""b""#, r#""abc""#, r#""true""#, r#""null""#, r#""[object Object]""#, "[0]", "[1]",
        "[null]", "[[]]", "[[1]]", "[1,2]", r#"["a"]"#, r#"["1"]"#, "[1,[2,[null]]]", "{}",
        r#"{"a":1}"#, r#"{"a":1,"b":2}"#,
    ]));
    v
}
pub fn v1() -> Vec<Value> {
    let mut v = v1_plain();
    v.extend(markers());
    v
}

/// N: numbers around every representation boundary, integer and float spellings.
pub fn numbers() -> Vec<Value> {
    many(&[
        "0", "-0.0", "1", "-1", "1.0", "1e0", "0.1", "0.2", "0.5", "-0.5", "2", "3", "10", "1e-7", "5e-324",
        "1e-320", "9007199254740991", "9007199254740992", "9007199254740993",
        "-9007199254740993", "9223372036854775807", "9223372036854775808",
        "-9223372036854775808", "-9223372036854775809.0", "-9223372036854775807",
        "18446744073709551615", "18446744073709551616.0", "1e19", "-1e19", "1e21", "1e308", "-1e308",
        "1.7976931348623157e308", "-1.7976931348623157e308", "4294967296", "2147483648",
        "0.30000000000000004", "123456789.125",
    ])
}

pub fn numbers_small() -> Vec<Value> {
    many(&["0", "-0.0", "1", "-1", "1.0", "1.5", "2", "9007199254740993", "9223372036854775808", "1e308", "5e-324"])
}

/// S_num: string spellings for StringToNumber / parseFloat.
pub fn s_num() -> Vec<Value> {
    let t = [
        "", " ", "\t\n", "1", "+1", "-1", "1.", ".5", "-.5", "+.5", "1e3", "1E3", "1e+3", "1e-3", "1e", "1e+",
        "e1", ".", "+", "-", "0x10", "0X1f", "0b11", "0B11", "0o17", "0O17", "-0x10", "+0x10", "0x", "0x1.8", "0xg",
        "0b2", "0o8", "Infinity", "-Infinity", "+Infinity", "infinity", "INFINITY", "inf", "-inf", "INF", "nan", "NaN",
        "-nan", "1_000", "1,000", "1 2", "12px", "1-2", "1+2", "1ee", "1e5e", "1.5.3", "--1", "+-1", "1e1000",
        "-1e1000", "00012", "1e-400", "0.0000001", " 1 ", "\n1\t", "\u{a0}1\u{a0}", "1 ", " 1", "１２", "١٢",
        "Infinityx", " Infinity ", "-Infinity1", "1e+3x", ".e1", "1.e1", "-.", "0.1", "1.0", "1.50", "010",
        "9007199254740993", "9223372036854775808", "1e21", "true", "null", "[object Object]", "a", "abc",
        // radix literals whose value needs rounding (beyond 2^53, 2^64 and 2^128)
        "0x20000000000001", "0x20000000000003", "0xffffffffffffffff", "0x10000000000000801", "0x10000000000000800", "0x1fffffffffffff8",
        "0x100000000000000000000000000000801", "0x1000000000000000000000000000008000000000000000001", "0o2000000000000000004001",
        "0x100000000000008000000000000000000001", "0x10000000000000800000000001",
        "0b100000000000000000000000000000000000000000000000000001", "0b111111111111111111111111111111111111111111111111111111",
        "9007199254740993.5", "0.1000000000000000055511151231257827", "123456789012345678901234567890", "4.35", "1.0000000000000002",
    ];
    t.iter().map(|s| Value::String(s.to_string())).collect()
}

/// Strings over {a, é (2 bytes), 水 (3 bytes), 😀 (4 bytes)} of length 0..=max_len.
pub fn s_uni(max_len: usize) -> Vec<String> {
    let letters = ['a', 'é', '水', '😀'];
    let mut out = vec![String::new()];
    let mut layer = vec![String::new()];
    for _ in 0..max_len {
        let mut next = Vec::new();
        for s in &layer {
            for c in letters {
                let mut t = s.clone();
                t.push(c);
                next.push(t);
            }
        }
        out.extend(next.iter().cloned());
        layer = next;
    }
    out
}

pub fn s_uni_extra() -> Vec<String> {
    vec![
        "héllo".into(),
        "日本語".into(),
        "a😀b水cé".into(),
        "e\u{301}".into(),          // combining sequence: two characters
        "\u{ffff}".into(),
        "\u{10000}".into(),
        "\u{0}".into(),
        "aaaaaaaa".into(),
        "水水水水水水水水".into(),
    ]
}

/// A small sample of non-ASCII strings for pairwise corpora.
pub fn s_uni_sample() -> Vec<Value> {
    ["é", "水", "😀", "aé", "éa", "\u{ffff}", "\u{10000}", "A", "B", "aa", "ab", "Z", "10", "9", "1,2", "-1"]
        .iter()
        .map(|s| Value::String(s.to_string()))
        .collect()
}

/// I: integers for indices and lengths.
pub fn ints_small() -> Vec<i64> {
    (-10..=10).collect()
}
pub fn ints_extreme() -> Vec<Value> {
    many(&[
        "-9223372036854775808", "-9223372036854775807", "9223372036854775807", "9223372036854775808",
        "18446744073709551615", "4294967296", "-4294967296", "2147483648", "-2147483649",
    ])
}

/// Wrap a value so that it reaches the operator through `var` (channel V).
/// Returns (operand expression, key, value) - the caller puts `key: value` in the data object.
pub fn via_var(i: usize) -> Value {
    json!({"var": format!("k{}", i)})
}

pub fn is_operation_shaped(v: &Value) -> bool {
    crate::refmodel::as_operation(v).is_some()
}

/// Does an operation-shaped value occur anywhere in v (as rule text it would be evaluated
/// if it sat in operand position)?
pub fn obj1(k: &str, v: Value) -> Value {
    let mut m = serde_json::Map::new();
    m.insert(k.to_string(), v);
    Value::Object(m)
}

pub fn op(k: &str, args: Vec<Value>) -> Value {
    obj1(k, Value::Array(args))
}

/// The pairwise corpus P for C07-C09 (also dumped for the V8 truth table).
pub fn pair_corpus() -> Vec<Value> {
    let mut v = v1_plain();
    v.extend(numbers());
    v.extend(s_num());
    // for every numeric string spelling, the number it denotes is in the corpus too (so equality can hold)
    for sv in s_num() {
        if let Some(st) = sv.as_str() {
            let x = crate::refmodel::string_to_number(st);
            if x.is_finite() && x.abs() > 9007199254740992.0 {
                if let Some(n) = serde_json::Number::from_f64(x) {
                    v.push(Value::Number(n));
                }
            }
        }
    }
    v.extend(s_uni_sample());
    v.extend(ws_strings());
    v.extend(many(&[r#"["1","2"]"#, "[1.0]", "[1e21]", r#"[" 1 "]"#, r#"["0x10"]"#, "[true]", "[false]", r#"[{}]"#, r#"[""]"#, "[-0.0]", "[[2],[3]]", r#"{"b":1}"#]));
    dedup(v)
}

pub fn dedup(v: Vec<Value>) -> Vec<Value> {
    let mut seen = std::collections::HashSet::new();
    let mut out = Vec::new();
    for x in v {
        if seen.insert(x.to_string()) {
            out.push(x);
        }
    }
    out
}

/// X: extremes for totality.
pub fn extremes() -> Vec<Value> {
    let mut v = many(&[
        "null", "true", "0", "-0.0", "1.5", "-9223372036854775808", "9223372036854775807", "9223372036854775808",
        "18446744073709551615", "1.7976931348623157e308", "-1.7976931348623157e308", "5e-324", "1e19",
        r#""""#, r#""a""#, r#""\u0000""#, r#""héllo水😀""#, r#""-9223372036854775808""#, r#""1e1000""#,
        r#""99999999999999999999999999""#, r#""a.b..c\\""#, r#""\\""#, "[]", "[null]", "[1,[2]]",
        "[-9223372036854775808]", "{}", r#"{"a":{"b":[1,2,{"c":"d"}]}}"#,
    ]);
    v.push(Value::String("z".repeat(10_000)));
    v.push(Value::String("水".repeat(3_000)));
    v.extend(markers());
    v
}

/// Text of a value nested `depth` arrays deep around `leaf`: [[[...leaf...]]]
pub fn nested_array_text(depth: usize, leaf: &str) -> String {
    format!("{}{}{}", "[".repeat(depth), leaf, "]".repeat(depth))
}
/// {"a":{"a":...leaf...}}
pub fn nested_object_text(depth: usize, leaf: &str) -> String {
    format!("{}{}{}", r#"{"a":"#.repeat(depth), leaf, "}".repeat(depth))
}

/// All tuples of length n over the alphabet, in lexicographic (simplest-first) order.
pub fn tuples(a: &[Value], n: usize) -> Vec<Vec<Value>> {
    let mut out: Vec<Vec<Value>> = vec![vec![]];
    for _ in 0..n {
        let mut next = Vec::with_capacity(out.len() * a.len());
        for t in &out {
            for x in a {
                let mut u = t.clone();
                u.push(x.clone());
                next.push(u);
            }
        }
        out = next;
    }
    out
}

/// Size classes beyond the exhaustively enumerated lengths: around powers of two, small-vector
/// and chunking thresholds. Used by the "size probe" sub-spaces (not exhaustive at these sizes:
/// a few position-sensitive patterns per size).
pub fn size_classes(thorough: bool) -> Vec<usize> {
    if thorough {
        vec![4, 5, 7, 8, 9, 12, 15, 16, 17, 24, 31, 32, 33, 63, 64, 65, 100, 127, 128, 129, 255, 256, 257, 1000]
    } else {
        vec![5, 8, 9, 16, 17, 32, 33, 64, 65, 129, 255, 256, 257]
    }
}

/// The larger pairwise corpus of the thorough tier (also recorded from V8: fixtures/es_truth_thorough.json).
pub fn pair_corpus_thorough() -> Vec<Value> {
    let mut v = pair_corpus();
    for s in s_uni(2) {
        v.push(Value::String(s));
    }
    v.extend(many(&[
        "1e-7", "123e-20", "0.000001", "-1e21", "2147483648", "4294967295", "-2147483648", "0.1e1", "100", "1e2", "12", "-12", "255", "16", "17", "8", "3", "0.5e0",
        "[1,2,3]", r#"["a","b"]"#, "[[],[]]", "[null,null]", "[0,0]", r#"[{"a":1}]"#, "[true,false]", r#"{"a":{}}"#, "[[[]]]", "[[null]]", r#"["",""]"#, r#"[" "]"#, "[1e21,1]",
        r#""1e21""#, r#""1E+21""#, r#""1e+21""#, r#""0.1e1""#, r#""1e-7""#, r#""0.0000001""#, r#""2147483648""#, r#""-0""#, r#""+0""#, r#""0.0""#, r#""-0.0""#, r#""00""#, r#""0e0""#,
        r#"" 1""#, r#""1 ""#, r#""﻿1""#, r#""1﻿""#, r#""\u00851""#, r#""᠎1""#, r#""　1""#, r#""\u000b1\f""#, r#""​1""#,
        r#""0x""#, r#""0X10""#, r#""0xff""#, r#""0xFF""#, r#""0b""#, r#""0b101""#, r#""0o""#, r#""0o777""#, r#""0x1g""#, r#""0x 1""#, r#"" 0x10 ""#, r#""0x-1""#, r#""1e""#,
        r#""Infinity ""#, r#""Infin""#, r#""InfinityInfinity""#, r#""- 1""#, r#""1 e3""#, r#""1e 3""#, r#""1.e""#, r#""..1""#, r#""1..""#, r#"".1.""#, r#""5.""#, r#"".5e1""#, r#""5.e1""#,
        r#""12""#, r#""-12""#, r#""100""#, r#""1,2,3""#, r#""a,b""#, r#"",""#, r#""false""#, r#""undefined""#, r#""[]""#, r#""{}""#, r#""[object Object],1""#, r#""Z""#, r#""a ""#, r#"" a""#,
    ]));
    dedup(v)
}

/// Letters chosen for how they collide in encodings: same UTF-8 lead byte (é/ü, 水/氵, 😀/😁), same
/// low byte of the code point ('-' U+002D / 中 U+4E2D, '4' U+0034 / д U+0434), ASCII, a combining mark.
pub fn uni_letters_rich() -> Vec<char> {
    vec!['a', '-', '4', 'é', 'ü', 'д', '水', '氵', '中', '😀', '😁', '\u{301}']
}

/// All strings of length 0..=max_len over the rich letters.
pub fn s_uni_rich(max_len: usize) -> Vec<String> {
    let letters = uni_letters_rich();
    let mut out = vec![String::new()];
    let mut layer = vec![String::new()];
    for _ in 0..max_len {
        let mut next = Vec::new();
        for s in &layer {
            for c in &letters {
                let mut t = s.clone();
                t.push(*c);
                next.push(t);
            }
        }
        out.extend(next.iter().cloned());
        layer = next;
    }
    out
}

/// Pairs of values of different JSON type whose string forms coincide ("spelling twins").
pub fn spelling_twins() -> Vec<(Value, Value)> {
    vec![
        (json!(1), json!("1")),
        (json!(null), json!("null")),
        (json!(true), json!("true")),
        (json!([1]), json!("1")),
        (json!([1, 2]), json!("1,2")),
        (json!(1.5), json!("1.5")),
        (json!({}), json!("[object Object]")),
        (json!(0), json!(-0.0)),
        (json!(1), json!(1.0)),
        (json!([]), json!("")),
    ]
}

/// Integers around the k-th roots of 2^53, 2^63 and 2^64 (k = 2, 3, 4): products of a few of them
/// cross the precision / integer-width boundaries.
pub fn factor_boundaries() -> Vec<Value> {
    many(&["94906265", "94906266", "94906267", "208064", "9742", "3037000500", "2097152", "55109", "65536", "32768", "2642246", "2147483647", "-2147483648", "46341"])
}

/// Decimal strings with 15..20 significant digits and exponents on both sides of zero: the range in
/// which "parse the digits as an integer, then scale" is rounded twice.
pub fn decimal_strings() -> Vec<Value> {
    let pats = ["12345678901234567890123", "90071992547409930000000", "99999999999999999999999", "10000000000000000000001", "30000000000000000444444"];
    let mut out = Vec::new();
    for p in pats {
        for nd in [15usize, 16, 17, 18, 19, 20] {
            let d = &p[..nd];
            out.push(format!("0.{}", d));
            out.push(format!("{}.{}", &d[..1], &d[1..]));
            out.push(format!("{}.{}", &d[..nd - 1], &d[nd - 1..]));
            for e in ["e1", "e-1", "e5", "e-7", "e22", "e-22", "e23", "e300"] {
                out.push(format!("{}{}", d, e));
            }
        }
    }
    out.into_iter().map(Value::String).collect()
}

/// Ways of fetching a value from the data through "hard" paths. Returns (expression, data) for a
/// given payload: plain key, nested key, negative / positive index, escaped dot, string-typed index,
/// default of a missing key, computed key, and the whole data.
pub fn path_fetches(payload: &Value) -> Vec<(&'static str, Value, Value)> {
    vec![
        ("plain", json!({"var": "k"}), json!({"k": payload})),
        ("nested", json!({"var": "a.b"}), json!({"a": {"b": payload, "c": 0}, "a.b": "flat-decoy"})),
        ("neg-index", json!({"var": "rows.-1"}), json!({"rows": ["decoy", payload]})),
        ("index", json!({"var": "rows.0"}), json!({"rows": [payload, "decoy"]})),
        ("escaped", json!({"var": "a\\.b"}), json!({"a.b": payload, "a": {"b": "nested-decoy"}})),
        ("int-key", json!({"var": 1}), json!(["decoy", payload])),
        ("int-key-neg", json!({"var": [-1]}), json!(["decoy", payload])),
        ("default", json!({"var": ["nope.x", {"var": "k"}]}), json!({"k": payload, "nope": 1})),
        ("computed-key", json!({"var": [{"cat": ["a", ".", "b"]}]}), json!({"a": {"b": payload}})),
        ("whole", json!({"var": ""}), payload.clone()),
        ("str-index-top", json!({"var": "1"}), json!(["decoy", payload])),
        ("str-index-neg-top", json!({"var": "-1"}), json!(["decoy", "decoy2", payload])),
        ("str-index-top-bracketed", json!({"var": ["0"]}), json!([payload, "decoy"])),
        ("long-key", json!({"var": "order.shipping.address.line2"}), json!({"order": {"shipping": {"address": {"line1": "decoy", "line2": payload}}}})),
    ]
}

/// Magnitude ladder: for every integer-width boundary 2^k (k = 7..128, and the f64 exponent range
/// beyond) the power itself, its two neighbouring doubles and - while they are exact - the
/// neighbouring integers, plus powers of ten on both sides of every boundary, in both signs.
/// Any representation change "number -> fixed-width key" (i32, i64, u64, i128, u128, f32)
/// conflates or reorders two distinct members of the ladder.
pub fn magnitude_ladder() -> Vec<Value> {
    let mut fs: Vec<f64> = Vec::new();
    for k in [7i32, 8, 15, 16, 23, 24, 31, 32, 52, 53, 63, 64, 65, 100, 126, 127, 128, 129, 200, 1000, 1023] {
        let p = 2f64.powi(k);
        fs.push(p);
        fs.push(f64::from_bits(p.to_bits() + 1));
        fs.push(f64::from_bits(p.to_bits() - 1));
    }
    for e in [9i32, 10, 18, 19, 20, 21, 22, 37, 38, 39, 40, 45, 100, 300, 308] {
        fs.push(format!("1e{}", e).parse().unwrap());
        fs.push(format!("3.5e{}", e - 1).parse().unwrap());
    }
    fs.push(f64::MAX);
    fs.push(3.4028234663852886e38); // f32::MAX
    fs.push(3.4028235677973366e38); // first double that rounds to f32 infinity
    let mut out: Vec<Value> = Vec::new();
    for f in fs {
        out.push(json!(f));
        out.push(json!(-f));
    }
    for s in ["127", "128", "255", "256", "32767", "32768", "65535", "65536", "2147483647", "2147483648", "4294967295", "4294967296",
              "9007199254740991", "9007199254740992", "9007199254740993", "9223372036854775807", "9223372036854775808",
              "18446744073709551615", "-128", "-129", "-32768", "-32769", "-2147483648", "-2147483649",
              "-9007199254740993", "-9223372036854775808", "-9223372036854775807",
              // integers that only the unsigned 64-bit representation holds, in pairs that are one double
              "18446744073709551614", "9223372036854775809", "9223372036854775810", "10000000000000000000", "10000000000000000001", "12000000000000000000",
              "-9007199254740992", "-9007199254740991", "9007199254740994"] {
        out.push(parse(s));
    }
    dedup(out)
}

/// Values whose rendering (JSON text, string form, error message) is long and made of multi-byte
/// characters at every byte alignment: any byte-indexed cut (truncation to 16 / 32 / 64 / 80 / 128 /
/// 255 ... bytes, fixed-size buffers) lands inside a character for one member of each family.
pub fn long_render_values() -> Vec<Value> {
    let mut out = Vec::new();
    for (ch, w) in [('é', 2usize), ('水', 3), ('😀', 4)] {
        for p in 0..w {
            let s: String = "a".repeat(p) + &ch.to_string().repeat(100);
            out.push(json!(s));
            out.push(json!({"k": s, "n": 1}));
            out.push(json!({s.clone(): 1, "n": 2}));
            out.push(json!([s]));
            out.push(json!([[s], {"k": s, "j": 2}]));
        }
    }
    out
}

/// Strings that spell other JSON values (rules, arrays, objects, numbers), bare and padded: a string
/// is a string wherever it stands, never re-read as the value it spells.
pub fn stringified() -> Vec<Value> {
    let mut out = Vec::new();
    let mut vals = v1();
    vals.extend(many(&[r#"{"var":"a"}"#, r#"{"==":[1]}"#, "{}", "[]", r#"{"if":[true,"yes","no"]}"#, r#"{"var":""}"#, r#"[{"var":"a"}]"#, r#"{"a":1,"b":2}"#, r#"{"log":"LEAK"}"#, r#"{"+":["x"]}"#]));
    for v in vals {
        let t = v.to_string();
        out.push(json!(t));
        out.push(json!(format!(" {}", t)));
        out.push(json!(format!("{}\n", t)));
        out.push(json!(serde_json::to_string_pretty(&v).unwrap()));
    }
    dedup(out)
}


/// White-space candidates: every character with the Unicode White_Space property, every ECMAScript
/// WhiteSpace / LineTerminator, and the characters commonly taken for one of those (zero-width
/// characters, the C0 information separators that Python's str.isspace accepts, NUL).
pub fn ws_candidates() -> Vec<char> {
    let mut v: Vec<char> = vec!['\u{9}', '\u{a}', '\u{b}', '\u{c}', '\u{d}', ' ', '\u{85}', '\u{a0}', '\u{1680}', '\u{180e}'];
    for c in 0x2000u32..=0x200d {
        v.push(char::from_u32(c).unwrap());
    }
    v.extend(['\u{2028}', '\u{2029}', '\u{202f}', '\u{205f}', '\u{2060}', '\u{3000}', '\u{feff}', '\u{1c}', '\u{1d}', '\u{1e}', '\u{1f}', '\u{0}', '\u{7f}', '\u{ad}']);
    v
}

/// "1" wrapped in each candidate, and each candidate alone.
pub fn ws_strings() -> Vec<Value> {
    let mut out = Vec::new();
    for c in ws_candidates() {
        out.push(Value::String(format!("{}1{}", c, c)));
        out.push(Value::String(c.to_string()));
    }
    out
}


/// Radix literals as *families*: for each radix and each digit count around the 32 / 64 / 128-bit
/// accumulator widths - all digits zero, all digits maximal, a single one at the top, a single one at
/// the bottom, alternating. Conversions that accumulate in a fixed-width register (or normalise by
/// shifting until a top bit appears) misbehave on exactly one member of a family.
pub fn radix_families() -> Vec<Value> {
    let mut out = Vec::new();
    for (prefix, maxd, counts) in [("0x", 'f', vec![7usize, 8, 9, 15, 16, 17, 31, 32, 33, 40]), ("0o", '7', vec![10, 11, 21, 22, 23, 42, 43, 44]), ("0b", '1', vec![31, 32, 33, 63, 64, 65, 127, 128, 129])] {
        for n in counts {
            let zeros = "0".repeat(n);
            let maxs = maxd.to_string().repeat(n);
            let top = format!("1{}", "0".repeat(n - 1));
            let bottom = format!("{}1", "0".repeat(n - 1));
            let alt: String = (0..n).map(|i| if i % 2 == 0 { '1' } else { '0' }).collect();
            for body in [zeros, maxs, top, bottom, alt] {
                out.push(Value::String(format!("{}{}", prefix, body)));
            }
        }
    }
    out
}

/// Radix literals followed by something that is not a digit of the radix (one character, two, a separator, a
/// fraction, a suffix), for short literals, for literals of exactly 64 bits and for literals whose leading 64 bits
/// are already full when the tail comes: a scanner that stops validating once it has what it needs, or that
/// swallows the character that ended the digits, accepts exactly these.
pub fn radix_tails() -> Vec<Value> {
    let mut out = Vec::new();
    let bodies = [("0x", vec!["1", "ff", "ffffffffffffffff", "1ffffffffffffffff", "10000000000000000", "80000000000004001", "ffffffffffffffffffff"]),
                  ("0o", vec!["7", "17", "1777777777777777777777", "3777777777777777777777", "10000000000000000020001"]),
                  ("0b", vec!["1", "101", "1111111111111111111111111111111111111111111111111111111111111111", "11111111111111111111111111111111111111111111111111111111111111111"])];
    for (pre, bs) in bodies.iter() {
        for b in bs {
            for tail in ["g", "gg", "8", "2", "9", "_", "_f", ".", ".8", "n", "L", "u", " 1", "x", "e1", "p1", "h", "+", "-1", "\u{660}", "\u{ff11}"] {
                out.push(Value::String(format!("{}{}{}", pre, b, tail)));
            }
            out.push(Value::String(format!("{}{}", pre, b)));
        }
        // the bare prefix, in both cases, padded
        out.push(Value::String(pre.to_string()));
        out.push(Value::String(pre.to_uppercase()));
        out.push(Value::String(format!(" {} ", pre)));
        out.push(Value::String(format!("{}0", pre)));
    }
    dedup(out)
}

/// Every scalar class wrapped in arrays of depth 1 and 2 ("[x] is x" holds for the string form of x, not
/// for x itself: [true] is "true", which is no number).
pub fn wrapped_scalars() -> Vec<Value> {
    let mut out = Vec::new();
    for x in many(&["true", "false", "null", r#""""#, r#""a""#, r#""5""#, "5", "{}", "[]", "-0.0", r#"" 7 ""#, r#""0x10""#, r#""12px""#, "1.5", r#""true""#, r#""Infinity""#]) {
        out.push(json!([x]));
        out.push(json!([[x]]));
    }
    out
}

/// Widths beyond every small-size regime: 15 / 16-bit counts and typical allocation caps.
pub fn width_classes(thorough: bool) -> Vec<usize> {
    if thorough {
        vec![1000, 1024, 4096, 4097, 10_000, 16384, 32767, 32768, 32769, 65535, 65536, 65537, 100_000, 262_145]
    } else {
        vec![1000, 4097, 10_000, 32769, 65537, 100_000]
    }
}


/// Type grid: one or two representatives of every JSON type and of every internal number
/// representation (i64, u64 beyond i64, float, negative zero, subnormal), numeric and non-numeric
/// strings, empty / singleton / nested arrays, empty / non-empty objects.
pub fn type_grid() -> Vec<Value> {
    many(&[
        "null", "true", "false", "0", "1", "-1.5", "-0.0", "5e-324", "9223372036854775808", "9007199254740993",
        r#""""#, r#""a""#, r#""1""#, r#"" ""#, "[]", "[1]", "[[1]]", r#"["a",null]"#, "{}", r#"{"a":1,"b":null}"#,
    ])
}


/// Whole code-point blocks around every white-space and format character (C0 and C1 controls, General
/// Punctuation U+2000..U+206F in full, Mongolian / Arabic format characters, BOM and the interlinear
/// annotation characters, a tag character): a trimmed-character table written with ranges, or borrowed
/// from another language's notion of white space, differs from ECMAScript's inside these blocks.
pub fn ws_block_chars() -> Vec<char> {
    let mut v: Vec<char> = Vec::new();
    let mut range = |a: u32, b: u32| {
        for c in a..=b {
            if let Some(ch) = char::from_u32(c) {
                v.push(ch);
            }
        }
    };
    range(0x00, 0x20);
    range(0x7f, 0xa0);
    range(0xad, 0xad);
    range(0x600, 0x605);
    range(0x61c, 0x61c);
    range(0x1680, 0x1680);
    range(0x180b, 0x180f);
    range(0x2000, 0x206f);
    range(0x3000, 0x3000);
    range(0xfeff, 0xfeff);
    range(0xfff9, 0xfffb);
    range(0xe0001, 0xe0001);
    v
}

/// "1" wrapped in each block character, and each block character alone.
pub fn ws_block_strings() -> Vec<Value> {
    let mut out = Vec::new();
    for c in ws_block_chars() {
        out.push(Value::String(format!("{}1{}", c, c)));
        out.push(Value::String(c.to_string()));
    }
    out
}


/// Numeric literals with one foreign character (sign, space, underscore, comma, dot, an invalid digit)
/// inserted at every position, and long radix literals with an invalid character at the front, in the
/// middle and at the end of their digits: a scanner that skips, swallows or stops early accepts some.
/// The numbers the un-mutated bases of `mutated_literals` denote (a scanner that swallows the foreign
/// character yields one of these).
pub fn mutated_literal_bases() -> Vec<Value> {
    many(&["31", "3", "15", "12", "1.5", "1000", "-7", "0.5", "7", "1", "-31", "-3", "-15", "-12", "-1.5", "-1000", "-0.5", "0", "19", "129", "1.59", "159"])
}

pub fn mutated_literals() -> Vec<Value> {
    let mut out: Vec<String> = Vec::new();
    for base in ["0x1f", "0b11", "0o17", "12", "1.5", "1e3", "-7", "Infinity", ".5"] {
        let chars: Vec<char> = base.chars().collect();
        for pos in 0..=chars.len() {
            for ins in ['+', '-', ' ', '_', ',', '.', 'g', '9', 'e'] {
                let mut t: String = chars[..pos].iter().collect();
                t.push(ins);
                t.extend(chars[pos..].iter());
                out.push(t);
            }
        }
    }
    for (prefix, good, bad) in [("0x", 'f', 'g'), ("0x", '0', 'z'), ("0o", '7', '8'), ("0b", '1', '2'), ("0b", '0', ' ')] {
        for n in [15usize, 16, 17, 22, 33, 65, 70] {
            let body = good.to_string().repeat(n);
            out.push(format!("{}{}{}", prefix, body, bad));
            out.push(format!("{}{}{}", prefix, bad, body));
            out.push(format!("{}{}{}{}", prefix, &body[..n / 2], bad, &body[n / 2..]));
            out.push(format!("{}{} 1", prefix, body));
        }
    }
    // white space around numeric-looking content that holds multi-byte characters (byte offsets computed on
    // the untrimmed text and applied to the trimmed one, or the reverse, land inside a character)
    for pad in ["", " ", "  ", "\t", "\u{a0}", "\u{feff}"] {
        for core in ["1é", "é1", "日本", "1日", "0xé", "+é", "-日", "Iné", "1e日", ".é", "0b😀", "12😀"] {
            out.push(format!("{}{}", pad, core));
            out.push(format!("{}{}", core, pad));
            out.push(format!("{}{}{}", pad, core, pad));
        }
    }
    dedup(out.into_iter().map(Value::String).collect())
}

/// Nesting depths around the limits that recursive helpers and "defensive" caps choose.
pub fn depth_classes(thorough: bool) -> Vec<usize> {
    if thorough {
        vec![8, 16, 17, 32, 33, 63, 64, 65, 100, 120, 126]
    } else {
        vec![17, 33, 65, 100, 126]
    }
}

/// `depth` arrays around `leaf`.
pub fn nest_arrays(depth: usize, leaf: Value) -> Value {
    let mut v = leaf;
    for _ in 0..depth {
        v = Value::Array(vec![v]);
    }
    v
}

/// `depth` single-member objects around `leaf` (key "k").
pub fn nest_objects(depth: usize, leaf: Value) -> Value {
    let mut v = leaf;
    for _ in 0..depth {
        v = json!({ "k": v });
    }
    v
}


/// Straddle strings: a multi-byte character lying ACROSS a block boundary of B bytes (B = 8 .. 256), for
/// every character width and every split of its bytes, with ASCII before and after it. Returns the string
/// and the character index of the straddling character. Block-wise scanners (word-at-a-time counting,
/// chunked decoding, offset tables) go wrong exactly at that character.
pub fn straddle_strings() -> Vec<(String, usize)> {
    let mut out = Vec::new();
    for b in [8usize, 16, 32, 64, 128, 256] {
        for (ch, w) in [('é', 2usize), ('水', 3), ('😀', 4)] {
            for o in 1..w {
                // the character starts o bytes before the boundary
                let s = format!("{}{}{}", "a".repeat(b - o), ch, "xyz");
                out.push((s, b - o));
            }
        }
    }
    out
}

pub fn many_pub(texts: &[&str]) -> Vec<Value> {
    many(texts)
}

/// The first and the last character of every UTF-8 lead byte (0xC2..=0xF4; the surrogate gap inside
/// 0xED respected), after a few ASCII ones: a hand-written width table or a byte-wise scan is wrong for
/// one lead byte or at one continuation-byte boundary.
pub fn lead_byte_chars() -> Vec<char> {
    let mut out = vec!['a', 'Z', '0', ' '];
    for lead in 0xC2u32..=0xDF {
        let lo = (lead & 0x1f) << 6;
        out.push(char::from_u32(lo).unwrap());
        out.push(char::from_u32(lo | 0x3f).unwrap());
    }
    for lead in 0xE0u32..=0xEF {
        let lo = ((lead & 0x0f) << 12).max(0x800);
        let hi = ((lead & 0x0f) << 12) | 0xfff;
        let (lo, hi) = if lead == 0xED { (0xD000, 0xD7FF) } else { (lo, hi) };
        out.push(char::from_u32(lo).unwrap());
        out.push(char::from_u32(hi).unwrap());
    }
    for lead in 0xF0u32..=0xF4 {
        let lo = ((lead & 0x07) << 18).max(0x10000);
        let hi = (((lead & 0x07) << 18) | 0x3ffff).min(0x10ffff);
        out.push(char::from_u32(lo).unwrap());
        out.push(char::from_u32(hi).unwrap());
    }
    out
}

/// Pairs of *different* strings that a well-meant normalisation makes equal: line endings, Unicode
/// normal forms, case, surrounding / inner blanks, leading zeros and signs, a trailing NUL, a byte-order
/// mark, width variants, ligatures, invisible joiners, escapes spelled out.
pub fn confusable_pairs() -> Vec<(String, String)> {
    let p = |a: &str, b: &str| (a.to_string(), b.to_string());
    vec![
        p("a\r\nb", "a\nb"),
        p("\r\n", "\n"),
        p("a\rb", "a\nb"),
        p("a\r\n", "a"),
        p("a\n", "a"),
        p("\u{e9}", "e\u{301}"),
        p("\u{c5}", "\u{212b}"),
        p("\u{1e69}", "s\u{323}\u{307}"),
        p("\u{ac00}", "\u{1100}\u{1161}"),
        p("a", "A"),
        p("\u{df}", "ss"),
        p("i", "\u{130}"),
        p("k", "\u{212a}"),
        p("a ", "a"),
        p(" a", "a"),
        p("a  b", "a b"),
        p("a\tb", "a b"),
        p("a\u{a0}b", "a b"),
        p("01", "1"),
        p("007", "7"),
        p("+1", "1"),
        p("-0", "0"),
        p("1.0", "1"),
        p("1e0", "1"),
        p(" 1", "1"),
        p("1 ", "1"),
        p("a\u{0}", "a"),
        p("\u{feff}a", "a"),
        p("\u{ff11}", "1"),
        p("\u{ff41}", "a"),
        p("\u{fb01}", "fi"),
        p("a\u{200d}b", "ab"),
        p("a\u{200b}b", "ab"),
        p("a\u{ad}b", "ab"),
        p("a\\nb", "a\nb"),
        p("a\\u0041", "aA"),
        p("%41", "A"),
        p("&amp;", "&"),
        p("a/b", "a\\/b"),
        p("\"a\"", "a"),
        p("'a'", "a"),
        p("null", ""),
        p("a.b", "a\\.b"),
        p("a..b", "a.b"),
        p(".a", "a"),
        p("a.", "a"),
        // other languages' ways of writing a reference or a path: plain text here
        p("$a", "a"),
        p("${a}", "a"),
        p("{{a}}", "a"),
        p("%a%", "a"),
        p("@a", "a"),
        p(":a", "a"),
        p("$.a", "a"),
        p("/a", "a"),
        p("a[0]", "a.0"),
        p("a[1]", "a.1"),
        p("a[-1]", "a.-1"),
        p("a/1", "a.1"),
        p("a['b']", "a.b"),
        p("a->b", "a.b"),
        p("a:b", "a.b"),
        p("pair[0]", "pair.0"),
        p("o[a]", "o.a"),
    ]
}

/// Integers written as digit strings, of every length 1..=40 (all nines, a one and zeros, a one-zeros-one)
/// and exactly at / next to every machine-integer limit (2^31 .. 2^128), bare, signed and zero-padded:
/// a conversion with an integer fast path (i32, i64, u64, u128) is wrong for the first string that does
/// not fit, whatever its digit count suggests.
pub fn integer_digit_strings() -> Vec<Value> {
    let mut out: Vec<String> = Vec::new();
    for d in 1..=40usize {
        out.push("9".repeat(d));
        out.push(format!("1{}", "0".repeat(d - 1)));
        if d >= 2 {
            out.push(format!("1{}1", "0".repeat(d - 2)));
            out.push(format!("{}{}", "9".repeat(d - 1), "8"));
        }
    }
    for k in [31u32, 32, 53, 63, 64, 65, 96, 127] {
        let p: u128 = 1u128 << k;
        for v in [p - 2, p - 1, p, p + 1, p + 2] {
            out.push(v.to_string());
        }
    }
    for t in ["340282366920938463463374607431768211454", "340282366920938463463374607431768211455", "340282366920938463463374607431768211456", "340282366920938463463374607431768211457",
              "31415926535897932384", "20000000000000000000", "50000000000000000000", "18446744073709551616000", "1844674407370955161"] {
        out.push(t.to_string());
    }
    let base: Vec<String> = out.clone();
    for t in base.iter().filter(|t| t.len() >= 9) .step_by(3) {
        out.push(format!("-{}", t));
        out.push(format!("+{}", t));
        out.push(format!("000{}", t));
        out.push(format!(" {} ", t));
        out.push(format!("{}.0", t));
    }
    dedup(out.into_iter().map(Value::String).collect())
}

/// Expressions with a defined value that contain an ill-formed operation (wrong operand count) in a place
/// evaluation never reaches: behind a decided `or` / `and`, in the branch of `if` / `?:` not taken. An
/// unreached operand is not evaluated and not validated; `x` stands for the expression deciding the
/// short-circuit (pass `{"var": ""}` for "the current element").
pub fn unreached_illformed(x: &Value) -> Vec<Value> {
    let mut out = Vec::new();
    for bad in [json!({"==": [1]}), json!({"substr": ["x"]}), json!({"map": [1]}), json!({"var": ["a", "b", "c"]}), json!({"!": [1, 2]}), json!({"reduce": [[1], 1]})] {
        out.push(json!({"or": [{"!": [{"!": [x]}]}, true, bad]}));
        out.push(json!({"and": [false, bad]}));
        out.push(json!({"or": [x, "fallback", bad]}));
        out.push(json!({"if": [true, x, bad]}));
        out.push(json!({"if": [false, bad, x]}));
        out.push(json!({"?:": [0, bad, "else"]}));
        out.push(json!({"if": [x, "yes", "", bad, "no"]}));
    }
    out
}

/// Pairs of different values that look alike under some fingerprint: same spelling across types, same
/// double across number representations, same string form across containers, same text up to case.
pub fn lookalike_twins() -> Vec<(Value, Value)> {
    let mut v = spelling_twins();
    for (a, b) in [("0", r#""0""#), ("false", "0"), (r#""""#, "null"), (r#""a""#, r#""A""#), ("9007199254740992", "9007199254740993"), ("18446744073709551614", "18446744073709551615"),
                   ("-9223372036854775808", "-9223372036854775807"), ("1.5", r#""1.5""#), ("false", r#""false""#), ("[1,2]", r#""1,2""#), (r#"{"a":1}"#, r#"{"a":1.0}"#), ("0.1", "0.10000000000000002"),
                   ("[0]", "[false]"), (r#"{"a":1,"b":2}"#, r#"{"a":1,"b":"2"}"#), (r#"{"b":1}"#, r#"{"a":null}"#), (r#"{"a":null}"#, "{}"), (r#"{"a":null,"k":0}"#, r#"{"b":1,"k":0}"#),
                   (r#"{"a":1,"b":2}"#, r#"{"b":2,"a":1,"c":null}"#), ("[1,2]", "[1,2,null]"), ("[[1,2]]", "[1,2]"), (r#"["a,b"]"#, r#"["a","b"]"#),
                   // containers whose texts coincide when strings are written without escaping (a string that spells JSON structure)
                   (r#"["a\",\"b"]"#, r#"["a","b"]"#), (r#"{"k":"v\",\"w\":\"x"}"#, r#"{"k":"v","w":"x"}"#), (r#"["a\""]"#, r#"["a"]"#), (r#"["[1]"]"#, "[[1]]"), (r#"[["a\"],[\"b"]]"#, r#"[["a"],["b"]]"#),
                   (r#"{"a":"1,\"b\":2"}"#, r#"{"a":1,"b":2}"#), (r#"["a\\"]"#, r#"["a\\\\"]"#), (r#"["\n"]"#, r#"["\\n"]"#)] {
        v.push((parse(a), parse(b)));
    }
    let rev: Vec<(Value, Value)> = v.iter().map(|(a, b)| (b.clone(), a.clone())).collect();
    v.extend(rev);
    v
}

/// Numbers whose JSON text is as long as number texts get (17 significant digits, a sign, a three-digit
/// exponent with its own sign: 24 bytes), the longest integers, and their neighbours in length: a fixed-size
/// formatting buffer, a "numbers are short" assumption or a round trip through another float format cuts or
/// alters exactly these.
pub fn long_number_texts() -> Vec<Value> {
    let mut fs: Vec<f64> = vec![
        1.7976931348623157e308, 2.2250738585072014e-308, 1.2345678901234567e100, 1.2345678901234567e-100, 1.2345678901234567e-7, 9.88131291682493e-324, 2.2250738585072009e-308,
        1.2345678901234568e20, 1.2345678901234567e21, 123456789012345.67, 0.00001234567890123456, 1.0000000000000002, 4.35, 0.1, 1e21, 1e-7, 123456789012345680.0, 5e-324, 1.7976931348623155e308,
        4.9406564584124654e-324, 0.30000000000000004, 1e300, 1.5e-300,
        // the decades in which ECMAScript's Number::toString and JSON text switch between positional and
        // exponent notation at different places
        1e-6, 1.5e-6, 9.999e-6, 1e-5, 1.5e-5, 1e-7, 9.9e-7, 1e15, 1e16, 1.5e16, 1e17, 1.5e18, 1e19, 1e20, 9.9e20, 1.5e21, 1e22, 123456789012345678.0, 0.000001, 0.0000015,
    ];
    let neg: Vec<f64> = fs.iter().map(|f| -f).collect();
    fs.extend(neg);
    let mut out: Vec<Value> = fs.into_iter().map(|f| json!(f)).collect();
    for t in ["-9223372036854775808", "9223372036854775807", "18446744073709551615", "-9007199254740993", "-1000000000000000000", "10000000000000000000"] {
        out.push(parse(t));
    }
    dedup(out)
}

/// Number texts with 16..19 significant digits in plain and exponent notation (a fixed pseudo-random corpus of
/// 600: a linear congruential sequence, no seed from outside): the region in which a fast float parser and an
/// exact one differ by one unit in the last place for a sizeable share of the texts, so that two builds which
/// parse with different algorithms (a dependency feature switched on for one binary only) disagree on them.
pub fn long_float_texts() -> Vec<String> {
    let mut out = Vec::new();
    let mut x: u64 = 0x9e3779b97f4a7c15;
    for i in 0..600u32 {
        x = x.wrapping_mul(6364136223846793005).wrapping_add(1442695040888963407);
        let digits = format!("{:019}", x % 10_000_000_000_000_000_000u64);
        let nd = 16 + (i % 4) as usize;
        let d = &digits[..nd];
        let text = match i % 6 {
            0 => format!("{}.{}", &d[..3], &d[3..]),
            1 => format!("{}.{}e{}", &d[..1], &d[1..], (x >> 40) % 40),
            2 => format!("0.{}", d),
            3 => format!("{}.{}e-{}", &d[..1], &d[1..], (x >> 40) % 40),
            4 => format!("{}.{}", &d[..nd - 3], &d[nd - 3..]),
            _ => format!("-{}.{}", &d[..2], &d[2..]),
        };
        out.push(text);
    }
    for t in ["985.6906946328695", "212.91890726713459", "479.60756426982596", "92.42132512813595", "3.0620278683873806e13", "8.68344978690736625851781286e-7", "0.8421859468585017754865971663804983e29", "0.9999999999999999"] {
        out.push(t.to_string());
    }
    out
}

/// Radix literals by WIDTH far beyond where the value is already infinite (257 hex digits): digit counts around
/// 2^10, 2^13, 2^15 and 2^16 significant bits and beyond, all digits maximal and a single leading one (a counter of
/// dropped bits, an exponent, a shift amount kept in a narrow integer goes wrong only here).
pub fn radix_widths() -> Vec<Value> {
    let mut out = Vec::new();
    for (pre, maxd, counts) in [("0x", 'f', vec![257usize, 300, 1000, 2049, 8190, 8210, 8300, 16400, 16500, 70000]), ("0o", '7', vec![400, 2731, 10930, 10950, 11000, 21900, 22000]), ("0b", '1', vec![1100, 8200, 32767, 32832, 32900, 33000, 65600, 66000])] {
        for n in counts {
            out.push(Value::String(format!("{}{}", pre, maxd.to_string().repeat(n))));
            out.push(Value::String(format!("{}1{}", pre, "0".repeat(n - 1))));
        }
    }
    out
}

/// Pairs of different texts that collide under the usual cheap 32-bit string hashes (found by search; the hash is
/// named with each pair): a memo, intern table or cache that keeps only a hash of the text - or compares hashes
/// before texts and forgets the second step - answers for one with what it learnt about the other.
pub fn hash_colliding_numbers() -> Vec<(&'static str, &'static str, &'static str)> {
    vec![("FNV-1a 32", "40189", "797186"), ("FNV-1a 32", "40188", "797187"), ("FNV-1 32", "479599", "662382"), ("djb2", "109799", "130100.0"), ("FxHash 32", "441603", "40169.0"), ("FxHash 32", "441602", "40169.1")]
}

pub fn hash_colliding_keys() -> Vec<(&'static str, &'static str, &'static str)> {
    vec![("FNV-1a 32", "k32728", "k261234"), ("FNV-1 32", "k37843", "k682900"), ("Java 31", "Aa", "BB"), ("Java 31", "AaAa", "BBBB"), ("Java 31", "AaBB", "BBAa"), ("FNV-1a 32", "k32729", "k261235")]
}

/// Names of environment variables a change could plausibly consult: the ones the Rust runtime, the usual logging /
/// colour / locale conventions and this tool's name suggest, PLUS every name the tree under test itself mentions
/// next to an environment accessor (`env::var("X")`, `var_os("X")`, `getenv("X")`, `environ["X"]`, `environ.get("X")`,
/// `env!("X")`, `option_env!("X")`) - found by scanning `$VERIF_REPO/src` and `$VERIF_REPO/py` when the check starts,
/// so a variable introduced by a change is in the alphabet of the run that checks that change.
pub fn env_names() -> Vec<String> {
    let mut names: Vec<String> = [
        "RUST_MIN_STACK", "RUST_BACKTRACE", "RUST_LIB_BACKTRACE", "RUST_LOG", "RUST_LOG_STYLE", "NO_COLOR", "CLICOLOR", "CLICOLOR_FORCE", "FORCE_COLOR", "COLORTERM", "TERM", "COLUMNS", "LINES",
        "LANG", "LC_ALL", "LC_NUMERIC", "LC_CTYPE", "LANGUAGE", "TZ", "HOME", "PWD", "OLDPWD", "TMPDIR", "USER", "SHELL", "PATH_INFO", "DEBUG", "VERBOSE", "CI", "RAYON_NUM_THREADS",
        "JSONLOGIC", "JSONLOGIC_DATA", "JSONLOGIC_RULE", "JSONLOGIC_LOGIC", "JSONLOGIC_STRICT", "JSONLOGIC_DEBUG", "JSONLOGIC_LOG", "JSONLOGIC_MAX_DEPTH", "JSONLOGIC_CACHE", "JSONLOGIC_RS_DEBUG",
        "PYTHONHASHSEED", "PYTHONUTF8", "PYTHONIOENCODING", "PYTHONOPTIMIZE", "PYTHONDEBUG", "PYTHONMALLOC",
    ]
    .iter()
    .map(|s| s.to_string())
    .collect();
    let repo = std::env::var("VERIF_REPO").unwrap_or_else(|_| "/repo".into());
    let mut stack = vec![std::path::PathBuf::from(format!("{}/src", repo)), std::path::PathBuf::from(format!("{}/py", repo)), std::path::PathBuf::from(format!("{}/build.rs", repo))];
    while let Some(p) = stack.pop() {
        if p.is_dir() {
            if let Ok(rd) = std::fs::read_dir(&p) {
                for e in rd.flatten() {
                    stack.push(e.path());
                }
            }
            continue;
        }
        let ext = p.extension().and_then(|e| e.to_str()).unwrap_or("");
        if ext != "rs" && ext != "py" {
            continue;
        }
        let text = match std::fs::read_to_string(&p) {
            Ok(t) => t,
            Err(_) => continue,
        };
        for pat in ["var(", "var_os(", "getenv(", "environ[", "environ.get(", "env!(", "option_env!(", "remove_var(", "set_var("] {
            let mut from = 0usize;
            while let Some(i) = text[from..].find(pat) {
                let at = from + i + pat.len();
                from = at;
                let rest = text[at..].trim_start();
                let q = match rest.chars().next() {
                    Some(c) if c == '"' || c == '\'' => c,
                    _ => continue,
                };
                if let Some(end) = rest[1..].find(q) {
                    let name = &rest[1..1 + end];
                    if !name.is_empty() && name.len() < 64 && name.chars().all(|c| c.is_ascii_alphanumeric() || c == '_') && name.chars().any(|c| c.is_ascii_uppercase()) {
                        names.push(name.to_string());
                    }
                }
            }
        }
    }
    names.sort();
    names.dedup();
    names
}

/// Values tried for each environment variable (besides leaving it unset).
pub fn env_values() -> Vec<&'static str> {
    vec!["", "0", "1", "true", "full", "trace", "16", "4096", "1048576", "99999999999999999999", "C", "tr_TR.UTF-8", "/nonexistent", "[1,2]", "{\"var\":\"a\"}"]
}

/// Groups of spellings that some normalisation (case folding, trimming, dropping a sign or leading zeros, width or
/// digit-script folding, separator stripping) maps to one key although they denote DIFFERENT values under the
/// properties' conversions - or the same value where a cruder reading would tell them apart.
pub fn normalisation_twin_groups() -> Vec<Vec<&'static str>> {
    vec![
        vec!["Infinity", "infinity", "INFINITY", "+Infinity", "-Infinity", "-infinity", " Infinity ", "Infinit", "Infinityx"],
        vec!["0xff", "0XFF", "0xFF", "0Xff", "0xfg", "0x ff", "0xff ", "-0xff", "+0xff", "0x+ff", "0x-ff", "ff", "0ff"],
        vec!["0b11", "0B11", "0b12", "0o17", "0O17", "0o18", "011", "017", "11"],
        vec!["1e3", "1E3", "1e+3", "1e03", "1e 3", "1e", "1000", "1e3.0", "1,000", "1_000", "1 000"],
        vec!["1", " 1", "1 ", "\t1\n", "01", "+1", "1.0", "1.", "1.00", "+1.0", "1.0.0", "\u{661}", "\u{ff11}", "1\u{0}"],
        vec!["", " ", "0", "00", "-0", "+0", "0.0", ".0", "0.", ".", "-", "+", "null", "false"],
        vec!["NaN", "nan", "NAN", "-NaN"],
        vec!["true", "TRUE", "True", "false", "FALSE", " true"],
        vec!["12px", "12PX", "12 px", " 12px", "12", "12.px", "px12"],
        vec![".5", "0.5", "+.5", "-.5", "5e-1", "0,5", ".5.", "00.5"],
    ]
}

/// Pairs of DIFFERENT var paths whose segment lists collapse to one text under a joiner (the dot itself, the empty
/// joiner, a slash): whoever keys a remembered lookup on the joined text confuses them.
pub fn join_colliding_paths() -> Vec<Vec<&'static str>> {
    vec![
        vec!["a\\.b.c", "a.b.c", "a.b\\.c", "a\\.b\\.c"],
        vec!["ab.c", "a.bc", "abc", "a.b.c"],
        vec!["a/b.c", "a.b/c", "a\\/b.c", "a.b.c"],
        vec!["x.0.1", "x.01", "x.0\\.1", "x\\.0.1"],
        vec!["a\\\\.b", "a\\\\\\.b", "a\\.b", "a.b"],
    ]
}
