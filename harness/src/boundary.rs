//! E4: process-boundary exploration. The real `jsonlogic` binary and the real Python package,
//! both built from the working tree with the hook feature off, are driven over the full product
//! (rule text x data text x delivery form) resp. (object x entry point x optional-argument
//! combination); the oracle is the library in-process (the same tree, so any disagreement is
//! introduced by the wrapper).

use crate::ctx::Ctx;
use crate::exec::{self, Outcome};
use serde_json::{json, Value};
use std::io::{BufRead, Write};
use std::path::PathBuf;
use std::process::{Command, Stdio};

pub fn cli_bin(kind: &str) -> PathBuf {
    PathBuf::from(std::env::var("JLMC_CLI_TARGET").unwrap_or_else(|_| "/verif/.target/cli".into())).join(kind).join("jsonlogic")
}
pub fn pypkg(kind: &str) -> PathBuf {
    PathBuf::from(std::env::var("JLMC_PYPKG").unwrap_or_else(|_| "/verif/.build/pypkg".into())).join(kind)
}

#[derive(Debug, Clone)]
pub struct CliObs {
    pub code: Option<i32>,
    pub signal: Option<i32>,
    pub stdout: String,
    pub stderr: String,
}

/// A child must never outlive the worker that started it (the worker may be killed by the watchdog).
pub fn die_with_parent(c: &mut Command) {
    use std::os::unix::process::CommandExt;
    unsafe {
        c.pre_exec(|| {
            libc::prctl(libc::PR_SET_PDEATHSIG, libc::SIGKILL);
            Ok(())
        });
    }
}

/// How stdin is fed: 0 = one write; k > 0 = in pieces with a pause between them (1: after the first byte,
/// 2: in the middle, 3: before the last byte, 4: every 7 bytes up to 10 pieces, 5: 64 KiB pieces without
/// pause). A reader must take everything up to end-of-file however the writer paces it.
pub static PACE: std::sync::atomic::AtomicUsize = std::sync::atomic::AtomicUsize::new(0);

fn feed(si: &mut std::process::ChildStdin, bytes: &[u8]) {
    let mode = PACE.load(std::sync::atomic::Ordering::SeqCst);
    let n = bytes.len();
    let cuts: Vec<usize> = match mode {
        0 => vec![],
        1 => vec![1],
        2 => vec![n / 2],
        3 => vec![n.saturating_sub(1)],
        4 => (1..10).map(|i| i * 7).collect(),
        _ => (1..=n / 65536).map(|i| i * 65536).collect(),
    };
    let mut at = 0usize;
    for c in cuts.into_iter().filter(|c| *c > 0 && *c < n) {
        if c <= at {
            continue;
        }
        if si.write_all(&bytes[at..c]).is_err() {
            return;
        }
        let _ = si.flush();
        at = c;
        if mode != 5 {
            std::thread::sleep(std::time::Duration::from_millis(30));
        }
    }
    let _ = si.write_all(&bytes[at..]);
}

/// 0 = the environment the check runs in; 1, 2 = a HOSTILE environment (found missing by R21-C18-1, a data argument
/// that names an existing file is read from that file): the current directory holds a file named after every rule
/// and data text of the space (and `-`, `data.json`, `null`, `1` ...), each holding a different, valid JSON text, and
/// every environment variable of `alphabet::env_names` (standard names + every name the tree under test reads) is
/// set - to "1" (setting 1) or to a JSON text (setting 2). What the command prints and how it exits is a function of
/// its arguments and standard input only.
pub static HOSTILE: std::sync::atomic::AtomicUsize = std::sync::atomic::AtomicUsize::new(0);

pub fn hostile_dir() -> PathBuf {
    static ONCE: std::sync::Once = std::sync::Once::new();
    let base = std::env::var("JLMC_WORK").unwrap_or_else(|_| std::env::temp_dir().to_string_lossy().into_owned());
    // one directory for all workers: its contents are the same whoever writes them
    let dir = PathBuf::from(base).join("hostile-cwd");
    ONCE.call_once(|| {
        std::fs::create_dir_all(&dir).expect("hostile cwd");
        let mut names: Vec<String> = rule_texts(true).iter().chain(data_texts(true).iter()).map(|s| s.to_string()).collect();
        for extra in ["-", "--", "data.json", "rule.json", "logic.json", "null", "true", "false", "0", "1", "-1", "42", "1.5", "[]", "{}", "\"a\"", "\"\"", "[1,2]", "{\"a\":1}", "stdin", "jsonlogic"] {
            names.push(extra.to_string());
        }
        for n in names {
            if n.is_empty() || n == "." || n == ".." || n.contains('/') || n.contains('\u{0}') || n.len() > 200 {
                continue;
            }
            if !dir.join(&n).exists() {
                let _ = std::fs::write(dir.join(&n), "\"FROM-A-FILE-IN-THE-CURRENT-DIRECTORY\"\n");
            }
        }
    });
    dir
}

fn apply_hostile(c: &mut Command) {
    let h = HOSTILE.load(std::sync::atomic::Ordering::SeqCst);
    if h == 0 {
        return;
    }
    c.current_dir(hostile_dir());
    for n in crate::alphabet::env_names() {
        if n == "RUST_BACKTRACE" {
            continue;
        }
        c.env(n, if h == 1 { "1" } else { "[\"FROM-THE-ENVIRONMENT\"]" });
    }
}

pub fn run_cli(kind: &str, args: &[String], stdin: Option<&str>) -> CliObs {
    use std::os::unix::process::ExitStatusExt;
    let mut c = Command::new(cli_bin(kind));
    c.args(args).env_remove("RUST_BACKTRACE").stdout(Stdio::piped()).stderr(Stdio::piped());
    die_with_parent(&mut c);
    apply_hostile(&mut c);
    // stdin of another KIND than a pipe (PACE 6: a regular file whose offset is past a header that an earlier reader
    // consumed; 7: a regular file at offset 0; 8: a socket): the data is what descriptor 0 delivers from where it stands
    let mode = PACE.load(std::sync::atomic::Ordering::SeqCst);
    if let (Some(text), 6..=8) = (stdin, mode) {
        use std::io::{Seek, SeekFrom};
        if mode == 8 {
            let (mut ours, theirs) = std::os::unix::net::UnixStream::pair().expect("socketpair");
            c.stdin(Stdio::from(std::os::fd::OwnedFd::from(theirs)));
            let child = c.spawn().expect("cannot start the jsonlogic binary");
            let _ = ours.write_all(text.as_bytes());
            let _ = ours.shutdown(std::net::Shutdown::Write);
            let out = child.wait_with_output().expect("wait");
            drop(ours);
            return CliObs { code: out.status.code(), signal: out.status.signal(), stdout: String::from_utf8_lossy(&out.stdout).into_owned(), stderr: String::from_utf8_lossy(&out.stderr).into_owned() };
        }
        let path = std::env::temp_dir().join(format!("jlmc-stdin-{}-{:?}", std::process::id(), std::thread::current().id()));
        let header = if mode == 6 { "header line that an earlier reader consumed\n" } else { "" };
        std::fs::write(&path, format!("{}{}", header, text)).expect("temp file");
        let mut f = std::fs::File::open(&path).expect("open temp file");
        f.seek(SeekFrom::Start(header.len() as u64)).expect("seek");
        c.stdin(Stdio::from(f));
        let child = c.spawn().expect("cannot start the jsonlogic binary");
        let out = child.wait_with_output().expect("wait");
        let _ = std::fs::remove_file(&path);
        return CliObs { code: out.status.code(), signal: out.status.signal(), stdout: String::from_utf8_lossy(&out.stdout).into_owned(), stderr: String::from_utf8_lossy(&out.stderr).into_owned() };
    }
    c.stdin(if stdin.is_some() { Stdio::piped() } else { Stdio::null() });
    let mut child = c.spawn().expect("cannot start the jsonlogic binary");
    if let Some(text) = stdin {
        let mut si = child.stdin.take().unwrap();
        feed(&mut si, text.as_bytes());
        drop(si);
    }
    let out = child.wait_with_output().expect("wait");
    CliObs {
        code: out.status.code(),
        signal: out.status.signal(),
        stdout: String::from_utf8_lossy(&out.stdout).into_owned(),
        stderr: String::from_utf8_lossy(&out.stderr).into_owned(),
    }
}

/// Arguments and stdin as raw bytes (argv is not text as far as the OS is concerned).
pub fn run_cli_bytes(kind: &str, args: &[Vec<u8>], stdin: Option<&[u8]>) -> CliObs {
    use std::os::unix::ffi::OsStringExt;
    use std::os::unix::process::ExitStatusExt;
    let mut c = Command::new(cli_bin(kind));
    for a in args {
        c.arg(std::ffi::OsString::from_vec(a.clone()));
    }
    c.env_remove("RUST_BACKTRACE").stdout(Stdio::piped()).stderr(Stdio::piped());
    die_with_parent(&mut c);
    c.stdin(if stdin.is_some() { Stdio::piped() } else { Stdio::null() });
    let mut child = c.spawn().expect("cannot start the jsonlogic binary");
    if let Some(bytes) = stdin {
        let mut si = child.stdin.take().unwrap();
        let _ = si.write_all(bytes);
        drop(si);
    }
    let out = child.wait_with_output().expect("wait");
    CliObs {
        code: out.status.code(),
        signal: out.status.signal(),
        stdout: String::from_utf8_lossy(&out.stdout).into_owned(),
        stderr: String::from_utf8_lossy(&out.stderr).into_owned(),
    }
}

fn hex(b: &[u8]) -> String {
    b.iter().map(|x| format!("{:02x}", x)).collect()
}
pub fn unhex(s: &str) -> Vec<u8> {
    (0..s.len() / 2).filter_map(|i| u8::from_str_radix(&s[2 * i..2 * i + 2], 16).ok()).collect()
}

/// Byte strings that are not UTF-8 are not JSON texts: no result line, non-zero exit, no panic -
/// whichever way they are delivered. (Valid UTF-8 controls go through the ordinary product.)
fn non_utf8_space(ctx: &mut Ctx, kind: &str) {
    let bad: Vec<&[u8]> = vec![b"\xff", b"\"\xff\"", b"{\"a\":\"x\xffy\"}", b"\"caf\xc3\"", b"\"\xc0\xaf\"", b"\"\xed\xa0\x80\"", b"[1,\xfe]", b"\xef\xbb\xbf1\xff", b"1\x80"];
    let good_rule: &[u8] = b"{\"var\":\"a\"}";
    let good_data: &[u8] = b"{\"a\":1}";
    for b in &bad {
        if !ctx.mine() {
            continue;
        }
        let forms: Vec<(&str, Vec<Vec<u8>>, Option<&[u8]>)> = vec![
            ("non-utf8:data-argument", vec![good_rule.to_vec(), b.to_vec()], None),
            ("non-utf8:data-stdin", vec![good_rule.to_vec()], Some(*b)),
            ("non-utf8:data-stdin-dash", vec![good_rule.to_vec(), b"-".to_vec()], Some(*b)),
            ("non-utf8:rule-argument", vec![b.to_vec(), good_data.to_vec()], None),
            ("non-utf8:rule-argument-data-stdin", vec![b.to_vec()], Some(good_data)),
            // a data argument that cannot be used is not an omitted data argument: valid JSON waiting on stdin
            // must not be picked up instead
            ("non-utf8:data-argument:valid-stdin", vec![good_rule.to_vec(), b.to_vec()], Some(good_data)),
            ("non-utf8:rule-argument:valid-stdin", vec![b.to_vec(), good_data.to_vec()], Some(good_rule)),
        ];
        for (sub, args, stdin) in forms {
            ctx.edge();
            let case = json!({"bin": kind, "argv_hex": args.iter().map(|a| hex(a)).collect::<Vec<_>>(), "stdin_hex": stdin.map(hex)});
            ctx.tick_external(&case);
            let o = run_cli_bytes(kind, &args, stdin);
            ctx.leaves += 1;
            ctx.note_outcome(sub, format!("exit:{}", o.code.map(|c| c.to_string()).unwrap_or_else(|| "signal".into())));
            ctx.nontrivial.insert(crate::ctx::hash_str(&case.to_string()));
            let panicked = o.signal.is_some() || o.stderr.contains("panicked at") || o.code == Some(101) || o.code.is_none();
            if panicked || o.code == Some(0) || !o.stdout.is_empty() {
                let tail: String = o.stderr.chars().take(160).collect();
                ctx.fail(sub, case, "not UTF-8, hence not JSON: no result line, a non-zero exit status, no panic".into(), format!("exit {:?} signal {:?} stdout {:?} stderr {:?}", o.code, o.signal, o.stdout, tail), None);
            }
        }
    }
}

/// What the library itself does with (rule text, data text): Some((stdout, success)).
pub struct LibExpect {
    pub stdout: String,
    pub success: bool,
    pub why: String,
}

pub fn lib_expect(rule_text: &str, data_text: &str) -> LibExpect {
    let rule: Value = match serde_json::from_str(rule_text) {
        Ok(v) => v,
        Err(_) => return LibExpect { stdout: String::new(), success: false, why: "rule text is not JSON".into() },
    };
    let data: Value = match serde_json::from_str(data_text) {
        Ok(v) => v,
        Err(_) => return LibExpect { stdout: String::new(), success: false, why: "data text is not JSON".into() },
    };
    let o = exec::apply(&rule, &data);
    let mut out = String::new();
    for l in &o.log {
        out.push_str(l);
        out.push('\n');
    }
    match o.out {
        Outcome::Ok(v) => {
            out.push_str(&v.to_string());
            out.push('\n');
            LibExpect { stdout: out, success: true, why: "library returned a value".into() }
        }
        Outcome::Err(_) => LibExpect { stdout: out, success: false, why: "library returned an error".into() },
        Outcome::Panic(m, l) => LibExpect { stdout: out, success: false, why: format!("library panicked: {} at {}", m, l) },
    }
}

pub fn rule_texts(thorough: bool) -> Vec<&'static str> {
    let mut v = vec![
        r#"{"var":""}"#, r#"{"var":"a"}"#, r#"{"var":["a.b",7]}"#, r#"{"==":[{"var":"a"},1]}"#, r#"{"+":[{"var":"a"},1.5]}"#,
        r#"{"cat":["x",{"var":""}]}"#, r#"{"if":[{"var":"a"},"yes","no"]}"#, r#"{"map":[{"var":""},{"*":[{"var":""},2]}]}"#,
        r#"{"log":{"var":""}}"#, r#"{"cat":[{"log":"first"},{"log":"second"}]}"#, r#"{"and":[{"log":"seen"},{"+":["x"]}]}"#,
        r#"{"+":["x"]}"#, r#"{"==":[]}"#, r#"{"substr":[{"var":""},-2]}"#, r#"{"missing":["a","b"]}"#, r#"{"merge":[{"var":""},[null]]}"#,
        r#"{"in":[{"var":""},[-1,"é"]]}"#, "1", "-1", "-1.5e3", r#""-x""#, r#""""#, "null", "true", "[1,{\"var\":\"a\"}]", "{}", r#"{"a":1,"b":2}"#,
        r#"  {"var" : "" }  "#, "\n{\"!\":[{\"var\":\"\"}]}\n", r#"{"var":"é"}"#, r#"{"cat":["\u00e9\ud83d\ude00",{"var":""}]}"#,
        r#"{"reduce":[{"var":""},{"+":[{"var":"current"},{"var":"accumulator"}]},0]}"#,
        // results that need JSON escaping when printed
        r#"{"var":"q"}"#, r#"{"cat":["C:",{"var":"sep"},"tmp"]}"#, r#"{"cat":["l1","\n","l2",{"var":"nl"}]}"#, r#""a\"b\\c""#, r#"{"cat":["\u0001\t",{"var":"q"}]}"#,
        r#"{"merge":[{"var":"q"},"\"",{"var":"sep"}]}"#,
        // invalid texts
        "", " ", "{", r#"{"var":"#, r#"{"var":""} {"var":""}"#, "NaN", "'a'", r#"{'var':''}"#, "[1,]", "01", "-", "--", "undefined",
    ];
    if thorough {
        v.extend([r#"{"max":[{"var":""},3]}"#, r#"{"some":[{"var":""},{"var":""}]}"#, r#"{"-":{"var":""}}"#, r#"{"?:":[{"var":""},1,2]}"#, "1e400", "-0", "-0.0", "[[[[[[[[[[1]]]]]]]]]]", "\u{feff}1", "1 2", "tru", "\"unterminated"]);
    }
    v
}

pub fn data_texts(thorough: bool) -> Vec<&'static str> {
    let mut v = vec![
        "null", "1", "-1", "-2.5", "0", r#""str""#, r#""é😀""#, "[1,2,3]", "[]", r#"{"a":1}"#, r#"{"a":{"b":2},"é":"x"}"#, r#"{"a":0}"#, "true",
        r#" {"a" : [1, 2] } "#, "[-1]", r#""-1""#, r#"[1,"2",[3]]"#,
        r#"{"a":"say \"hi\"","sep":"\\","q":"\"","nl":"x\ny"}"#, r#""q\"uote\\ \u00e9 \u2028""#,
        "\r\n[1,\r\n2]\r\n", "\t{\"a\":\t1}\n\n", "1e2", "1E+2", "0.10", "[1.0,2.50]",
        // invalid
        "", "{", "nul", "'x'", "1 2", "[1,", "-", "\u{feff}1", "1,", "[1]]", "{\"a\":1}}", "\"a\nb\"", "00", "+1", ".5", "1.", "0x10", "Infinity",
    ];
    if thorough {
        v.extend(["-1e2", "-0", "1e999", "-9223372036854775809", "18446744073709551616", "\"\\ud800\"", "{\"a\":1,}", "\n\n3\n"]);
    }
    v
}

fn nested_text(depth: usize) -> String {
    format!("{}1{}", "[".repeat(depth), "]".repeat(depth))
}

fn judge_cli(ctx: &mut Ctx, sub: &str, kind: &str, args: Vec<String>, stdin: Option<&str>, texts: Option<(&str, &str)>, strict_stdout: bool) -> CliObs {
    let pace = PACE.load(std::sync::atomic::Ordering::SeqCst);
    let mut case = if pace == 0 { json!({"bin": kind, "argv": args, "stdin": stdin}) } else { json!({"bin": kind, "argv": args, "stdin": stdin, "stdin_pacing": pace}) };
    let hostile = HOSTILE.load(std::sync::atomic::Ordering::SeqCst);
    if hostile != 0 {
        case["hostile_environment"] = json!(hostile);
    }
    ctx.tick_external(&case);
    let computed;
    let exp: &LibExpect = match texts {
        Some((r, d)) => {
            computed = lib_expect(r, d);
            &computed
        }
        None => {
            computed = LibExpect { stdout: String::new(), success: false, why: "usage".into() };
            &computed
        }
    };
    let o = run_cli(kind, &args, stdin);
    ctx.leaves += 1;
    let class = format!("exit:{}", o.code.map(|c| c.to_string()).unwrap_or_else(|| format!("signal{}", o.signal.unwrap_or(0))));
    ctx.note_outcome(sub, class);
    ctx.nontrivial.insert(crate::ctx::hash_str(&case.to_string()));
    let mut bad: Option<String> = None;
    // which non-zero status reports an error is the tool's business; a signal, a panic (Rust exits 101,
    // an abort raises SIGABRT / 134 through a shell) is not an orderly end
    if o.signal.is_some() || o.stderr.contains("panicked at") || o.code == Some(101) || o.code == Some(134) || o.code.is_none() {
        bad = Some(format!("the process must end with an orderly exit status, no panic or signal ({})", exp.why));
    } else if strict_stdout {
        if exp.success {
            if o.code != Some(0) || o.stdout != exp.stdout {
                bad = Some(format!("exit 0 and stdout {:?} ({})", exp.stdout, exp.why));
            }
        } else if o.code == Some(0) || o.stdout != exp.stdout {
            bad = Some(format!("non-zero exit and stdout {:?} - no result line ({})", exp.stdout, exp.why));
        }
    }
    // independent of what the in-process library prints: where the reference model specifies the call, stdout
    // holds one line per evaluated `log` and then the result line - nothing else (no diagnostics, no traces)
    if bad.is_none() && strict_stdout {
        if let Some((r, d)) = texts {
            if let (Ok(rule), Ok(data)) = (serde_json::from_str::<Value>(r), serde_json::from_str::<Value>(d)) {
                let (exp, tr) = crate::refmodel::reference(&rule, &data);
                let lines: Vec<&str> = o.stdout.lines().collect();
                match exp {
                    crate::refmodel::Exp::Val(v) => {
                        if lines.len() != tr.values.len() + 1 || lines.last().map(|l| *l != v.to_string()).unwrap_or(true) {
                            bad = Some(format!("{} log line(s), then the result line {} (reference model)", tr.values.len(), v));
                        } else {
                            // each log line reports its value (as JSON text, or - for a string - its raw content)
                            let logged: Vec<String> = lines[..lines.len() - 1].iter().map(|l| l.to_string()).collect();
                            if !crate::ctx::log_matches(&logged, &tr) {
                                bad = Some(format!("log lines reporting {:?} (reference model)", tr.lines));
                            }
                        }
                    }
                    crate::refmodel::Exp::Err => {
                        if lines.len() > tr.values.len() {
                            bad = Some(format!("at most {} log line(s) and no result line (reference model: error)", tr.values.len()));
                        }
                    }
                    crate::refmodel::Exp::Unspec => {}
                }
            }
        }
    }
    if let Some(e) = bad {
        let tail: String = o.stderr.chars().take(200).collect();
        ctx.fail(sub, case.clone(), e, format!("exit {:?} signal {:?} stdout {:?} stderr {:?}", o.code, o.signal, o.stdout, tail), None);
    }
    ctx.sample(|| json!({"case": case, "exit": o.code, "stdout": o.stdout}));
    o
}

/// C18: the jsonlogic command is a faithful, chainable wrapper of the library.
pub fn c18(ctx: &mut Ctx) {
    let thorough = ctx.tier_thorough;
    // both builds in both tiers: what the wrapper does must not depend on the build profile
    let kinds: Vec<&str> = vec!["debug", "release"];
    let rules = rule_texts(thorough);
    let datas = data_texts(thorough);
    for kind in &kinds {
        for r in &rules {
            for d in &datas {
                if !ctx.mine() {
                    continue;
                }
                // a bare "-" as data argument means stdin, so that text cannot be delivered as an argument
                if *d != "-" {
                    ctx.edge();
                    judge_cli(ctx, "data-as-argument", kind, vec![r.to_string(), d.to_string()], None, Some((r, d)), true);
                    ctx.edge();
                    judge_cli(ctx, "data-as-argument+junk-stdin", kind, vec![r.to_string(), d.to_string()], Some("{{{ junk"), Some((r, d)), true);
                }
                ctx.edge();
                judge_cli(ctx, "stdin-no-argument", kind, vec![r.to_string()], Some(d), Some((r, d)), true);
                ctx.edge();
                judge_cli(ctx, "stdin-dash", kind, vec![r.to_string(), "-".to_string()], Some(d), Some((r, d)), true);
            }
        }
        non_utf8_space(ctx, kind);
        // the same product in a hostile environment (see HOSTILE)
        for setting in [1usize, 2] {
            if !thorough && ((*kind == "release") != (setting == 2)) {
                continue; // quick: debug build x setting 1, release build x setting 2
            }
            for r in &rules {
                for d in &datas {
                    if !ctx.mine() {
                        continue;
                    }
                    HOSTILE.store(setting, std::sync::atomic::Ordering::SeqCst);
                    if *d != "-" {
                        ctx.edge();
                        judge_cli(ctx, "environment:data-as-argument", kind, vec![r.to_string(), d.to_string()], None, Some((r, d)), true);
                    }
                    ctx.edge();
                    judge_cli(ctx, "environment:stdin-no-argument", kind, vec![r.to_string()], Some(d), Some((r, d)), true);
                    ctx.edge();
                    judge_cli(ctx, "environment:stdin-dash", kind, vec![r.to_string(), "-".to_string()], Some(d), Some((r, d)), true);
                    HOSTILE.store(0, std::sync::atomic::Ordering::SeqCst);
                }
            }
            // data arguments that are plain file names of files that exist
            if ctx.mine() {
                HOSTILE.store(setting, std::sync::atomic::Ordering::SeqCst);
                for d in ["1", "null", "true", "42", "[]", "{}", "\"a\"", "data.json", "stdin", "--"] {
                    ctx.edge();
                    if d == "--" {
                        continue;
                    }
                    judge_cli(ctx, "environment:file-named-like-the-data", kind, vec![r#"{"var":""}"#.to_string(), d.to_string()], None, Some((r#"{"var":""}"#, d)), true);
                    judge_cli(ctx, "environment:file-named-like-the-rule", kind, vec![d.to_string(), "7".to_string()], None, Some((d, "7")), true);
                }
                HOSTILE.store(0, std::sync::atomic::Ordering::SeqCst);
            }
        }
        // Unicode white space that is NOT JSON white space (JSON allows only space, tab, LF, CR), and the
        // BOM, at the very start / end of an otherwise valid text: still invalid JSON, however it is delivered
        {
            let ws = ['\u{b}', '\u{c}', '\u{85}', '\u{a0}', '\u{1680}', '\u{2000}', '\u{2003}', '\u{200a}', '\u{2028}', '\u{2029}', '\u{202f}', '\u{205f}', '\u{3000}', '\u{feff}', '\u{200b}', '\u{1c}'];
            for c in ws {
                if !ctx.mine() {
                    continue;
                }
                for body in ["1", r#"{"a":[1,2]}"#, r#""s""#] {
                    for text in [format!("{}{}", c, body), format!("{}{}", body, c), format!(" {}{} ", body, c)] {
                        for r in [r#"{"var":""}"#, r#"{"var":"a"}"#] {
                            ctx.edge();
                            judge_cli(ctx, "unicode-space:data-argument", kind, vec![r.to_string(), text.clone()], None, Some((r, &text)), true);
                            judge_cli(ctx, "unicode-space:data-stdin", kind, vec![r.to_string()], Some(&text), Some((r, &text)), true);
                            judge_cli(ctx, "unicode-space:data-stdin-dash", kind, vec![r.to_string(), "-".into()], Some(&text), Some((r, &text)), true);
                        }
                        // the same text as the rule
                        judge_cli(ctx, "unicode-space:rule", kind, vec![text.clone(), "null".into()], None, Some((&text, "null")), true);
                        judge_cli(ctx, "unicode-space:rule:data-stdin", kind, vec![text.clone()], Some("null"), Some((&text, "null")), true);
                    }
                }
            }
        }
        // the value corpora whose conversions have rarely taken branches (white-space blocks, mutated and radix
        // literals, digit strings at the integer limits), as data of a few converting rules: what the library
        // computes is what is printed, and nothing else is
        {
            let mut vals = crate::selftest::unary_corpus();
            vals.extend(crate::alphabet::magnitude_ladder().into_iter().step_by(3));
            for (i, v) in vals.iter().enumerate() {
                if !ctx.mine() {
                    continue;
                }
                // NUL cannot travel in argv; such texts go by stdin only
                let text = v.to_string();
                let rules = [r#"{"*":[{"var":""},1]}"#, r#"{"<":[{"var":""},"0x10"]}"#, r#"{"+":[{"var":""}]}"#, r#"{"cat":[{"var":""},{"==":[{"var":""},1]}]}"#, r#"{"log":{"var":""}}"#, r#"{"cat":[{"log":{"cat":["x",{"var":""}]}},{"log":[{"var":""}]}]}"#];
                let r = rules[i % rules.len()];
                ctx.edge();
                if i % 2 == 0 && !text.contains('\u{0}') {
                    judge_cli(ctx, "conversion-corpus:argument", kind, vec![r.to_string(), text.clone()], None, Some((r, &text)), true);
                } else {
                    judge_cli(ctx, "conversion-corpus:stdin", kind, vec![r.to_string()], Some(&text), Some((r, &text)), true);
                }
                if v.is_string() && i % 3 == 0 {
                    // ... and as a literal inside the rule text
                    let rt = format!(r#"{{"-":[{},0]}}"#, text);
                    judge_cli(ctx, "conversion-corpus:rule", kind, vec![rt.clone(), "null".into()], None, Some((&rt, "null")), true);
                }
            }
        }
        // logged strings holding every kind of character a quoting routine treats specially (controls, DEL, C1,
        // no-break space, soft hyphen, zero-width, line separators, BOM, private use, combining marks, astral)
        for (i, c) in ['\u{8}', '\u{c}', '\u{1}', '\u{1f}', '\u{7f}', '\u{80}', '\u{9f}', '\u{a0}', '\u{ad}', '\u{200b}', '\u{2028}', '\u{2029}', '\u{feff}', '\u{e000}', '\u{301}', '\u{1f600}', '\u{e0001}', '\u{10ffff}', '"', '\\', '/', '\'', '\t', '\r'].iter().enumerate() {
            if !ctx.mine() {
                continue;
            }
            ctx.edge();
            let text = serde_json::to_string(&format!("a{}b", c)).unwrap();
            let raw = format!("\"a{}b\"", c);
            for r in [r#"{"log":{"var":""}}"#, r#"{"log":[{"var":""}]}"#, r#"{"cat":[{"log":{"var":""}},"!"]}"#] {
                judge_cli(ctx, "logged-characters", kind, vec![r.to_string(), text.clone()], None, Some((r, &text)), true);
                if i % 2 == 0 {
                    judge_cli(ctx, "logged-characters:stdin", kind, vec![r.to_string()], Some(&text), Some((r, &text)), true);
                }
            }
            if !c.is_control() && *c != '"' && *c != '\\' {
                // the character written raw in the rule text
                let r = format!(r#"{{"log":{}}}"#, raw);
                judge_cli(ctx, "logged-characters:raw-in-rule", kind, vec![r.clone(), "null".into()], None, Some((&r, "null")), true);
            }
        }
        // long float texts as data and inside the rule: the tool computes with the same doubles as the library
        // (both read number texts the same way)
        for (i, t) in crate::alphabet::long_float_texts().into_iter().enumerate() {
            if !ctx.mine() {
                continue;
            }
            ctx.edge();
            match i % 3 {
                0 => {
                    judge_cli(ctx, "long-float:data-argument", kind, vec![r#"{"var":""}"#.into(), t.clone()], None, Some((r#"{"var":""}"#, &t)), true);
                }
                1 => {
                    let d = format!(r#"{{"a":{},"b":[{}]}}"#, t, t);
                    judge_cli(ctx, "long-float:data-stdin", kind, vec![r#"{"===":[{"var":"a"},{"var":"b.0"}]}"#.into()], Some(&d), Some((r#"{"===":[{"var":"a"},{"var":"b.0"}]}"#, &d)), true);
                    judge_cli(ctx, "long-float:data-stdin", kind, vec![r#"{"var":"a"}"#.into(), "-".into()], Some(&d), Some((r#"{"var":"a"}"#, &d)), true);
                }
                _ => {
                    let r = format!(r#"{{"*":[1,{}]}}"#, t);
                    judge_cli(ctx, "long-float:rule", kind, vec![r.clone(), "null".into()], None, Some((&r, "null")), true);
                }
            }
        }
        // stdin written in pieces, with pauses: the data is everything up to end-of-file
        {
            let big: String = format!("[{}]", (0..40000).map(|i| i.to_string()).collect::<Vec<_>>().join(","));
            let cases: Vec<(&str, String)> = vec![
                (r#"{"var":"a"}"#, r#"{"a":41}"#.to_string()), (r#"{"+":[{"var":""},1]}"#, "42".to_string()), (r#"{"cat":[{"var":""},"!"]}"#, r#""héllo wörld""#.to_string()),
                (r#"{"var":"1"}"#, "[10, 20, 30]\n".to_string()), (r#"{"var":""}"#, "12".to_string()), (r#"{"var":""}"#, "tru".to_string()), (r#"{"var":"39999"}"#, big.clone()),
                (r#"{"reduce":[{"var":""},{"+":[{"var":"current"},{"var":"accumulator"}]},0]}"#, big),
            ];
            for (i, (r, d)) in cases.iter().enumerate() {
                for mode in 1..=8usize {
                    if !ctx.mine() {
                        continue;
                    }
                    if (mode == 5) != (d.len() > 65536) && mode == 5 {
                        continue;
                    }
                    ctx.edge();
                    PACE.store(mode, std::sync::atomic::Ordering::SeqCst);
                    judge_cli(ctx, "paced-stdin:no-argument", kind, vec![r.to_string()], Some(d), Some((r, d)), true);
                    if i % 2 == 0 {
                        judge_cli(ctx, "paced-stdin:dash", kind, vec![r.to_string(), "-".into()], Some(d), Some((r, d)), true);
                    }
                    PACE.store(0, std::sync::atomic::Ordering::SeqCst);
                }
            }
        }
        // texts that are JSON strings spelling JSON (a document encoded twice): a string is a string, as rule
        // and as data, however it is delivered
        for (i, v) in crate::alphabet::stringified().into_iter().enumerate() {
            if !ctx.mine() {
                continue;
            }
            let text = v.to_string();
            ctx.edge();
            judge_cli(ctx, "encoded-twice:rule", kind, vec![text.clone(), "null".into()], None, Some((&text, "null")), true);
            let r = [r#"{"var":""}"#, r#"{"cat":[{"var":""},"!"]}"#, r#"{"===":[{"var":""},{"var":""}]}"#][i % 3];
            judge_cli(ctx, "encoded-twice:data-argument", kind, vec![r.to_string(), text.clone()], None, Some((r, &text)), true);
            if i % 2 == 0 {
                judge_cli(ctx, "encoded-twice:data-stdin", kind, vec![r.to_string()], Some(&text), Some((r, &text)), true);
            } else {
                judge_cli(ctx, "encoded-twice:data-stdin-dash", kind, vec![r.to_string(), "-".into()], Some(&text), Some((r, &text)), true);
            }
            if i % 5 == 0 {
                // ... and produced by a first invocation, consumed by a second
                let o1 = judge_cli(ctx, "encoded-twice:chain:first", kind, vec![r#"{"var":""}"#.into(), text.clone()], None, Some((r#"{"var":""}"#, &text)), true);
                judge_cli(ctx, "encoded-twice:chain:second", kind, vec![r#"{"cat":[{"var":""},"!"]}"#.into()], Some(&o1.stdout), Some((r#"{"cat":[{"var":""},"!"]}"#, &o1.stdout)), true);
            }
        }
        // large documents on stdin and as argument
        if ctx.mine() {
            let big: String = format!("[{}]", (0..20000).map(|i| i.to_string()).collect::<Vec<_>>().join(","));
            let bigs = format!("\"{}\"", "é".repeat(60000));
            for (r, d) in [(r#"{"reduce":[{"var":""},{"+":[{"var":"current"},{"var":"accumulator"}]},0]}"#, big.as_str()), (r#"{"var":"19999"}"#, big.as_str()), (r#"{"substr":[{"var":""},-3]}"#, bigs.as_str()), (r#"{"cat":[{"var":""},"!"]}"#, bigs.as_str())] {
                judge_cli(ctx, "large:stdin", kind, vec![r.to_string()], Some(d), Some((r, d)), true);
                judge_cli(ctx, "large:argument", kind, vec![r.to_string(), d.to_string()], None, Some((r, d)), true);
            }
        }
        // nesting at the parser's limit, both as rule and as data
        for depth in [126usize, 127, 128, 129, 200] {
            if !ctx.mine() {
                continue;
            }
            let t = nested_text(depth);
            judge_cli(ctx, "deep-rule", kind, vec![t.clone(), "null".into()], None, Some((&t, "null")), true);
            judge_cli(ctx, "deep-data-stdin", kind, vec![r#"{"var":""}"#.into()], Some(&t), Some((r#"{"var":""}"#, &t)), true);
            // results nested one or two levels deeper than their input (what is printed is never re-read)
            let to = format!("{}1{}", r#"{"k":"#.repeat(depth), "}".repeat(depth));
            for r in [r#"{"merge":[{"var":""}]}"#, r#"{"map":[[1],{"merge":[{"var":"d"}]}]}"#, r#"{"if":[true,[[{"var":""}]]]}"#, r#"{"filter":[[{"var":""}],true]}"#] {
                for d in [&t, &to] {
                    judge_cli(ctx, "deep-result", kind, vec![r.to_string(), d.to_string()], None, Some((r, d)), true);
                    judge_cli(ctx, "deep-result:stdin", kind, vec![r.to_string()], Some(d), Some((r, d)), true);
                }
            }
        }
        // data arguments that are almost the stdin marker, with VALID JSON waiting on stdin: only the exact
        // text "-" (and an omitted argument) means "read stdin"; everything else is the data text itself
        for d in [" -", "- ", "\t-", " - ", "-\n", "- -", "", " ", "-0", "\"-\"", "[\"-\"]"] {
            if !ctx.mine() {
                continue;
            }
            for r in [r#"{"var":""}"#, r#"{"var":"a"}"#, "1"] {
                ctx.edge();
                judge_cli(ctx, "almost-stdin-marker:valid-stdin", kind, vec![r.to_string(), d.to_string()], Some(r#"{"a":5}"#), Some((r, d)), true);
                judge_cli(ctx, "almost-stdin-marker:double-dash", kind, vec!["--".to_string(), r.to_string(), d.to_string()], Some(r#"{"a":5}"#), Some((r, d)), true);
            }
        }
        // chaining: jsonlogic r2 < <(jsonlogic r1 d)
        let valid_rules: Vec<&str> = rules.iter().filter(|r| serde_json::from_str::<Value>(r).is_ok() && !r.contains("log")).cloned().collect();
        let chain_data: Vec<&str> = datas.iter().filter(|d| serde_json::from_str::<Value>(d).is_ok()).take(if thorough { 12 } else { 8 }).cloned().collect();
        for r1 in &valid_rules {
            for r2 in valid_rules.iter().take(if thorough { 40 } else { 20 }) {
                if !ctx.mine() {
                    continue;
                }
                for d in &chain_data {
                    ctx.edge();
                    let o1 = judge_cli(ctx, "chain:first", kind, vec![r1.to_string(), d.to_string()], None, Some((r1, d)), true);
                    // whatever the first really printed is the stdin of the second, which must compute
                    // apply(r2, parse(that output)) - or fail if the first printed nothing
                    judge_cli(ctx, "chain:second", kind, vec![r2.to_string()], Some(&o1.stdout), Some((r2, &o1.stdout)), true);
                }
            }
        }
    }
}

/// C01 (f): the process boundary never crashes. Extremes through the CLI.
pub fn c01_cli(ctx: &mut Ctx) {
    use crate::alphabet as al;
    use crate::refmodel::{self, OPS};
    let thorough = ctx.tier_thorough;
    let kinds: Vec<&str> = if thorough { vec!["debug", "release"] } else { vec!["debug"] };
    let x: Vec<Value> = crate::spaces::c01::xs(false).into_iter().filter(|v| v.to_string().len() < 4000 && !al::is_operation_shaped(v)).collect();
    for kind in &kinds {
        for k in OPS {
            for n in 1..=2usize {
                if !refmodel::arity_ok(k, n) {
                    continue;
                }
                for t in al::tuples(&x, n) {
                    if !ctx.mine() {
                        continue;
                    }
                    // NUL cannot be passed in argv; deliver the data on stdin and keep the rule NUL-free
                    let rule = al::op(k, t).to_string();
                    if rule.contains("\\u0000") {
                        continue;
                    }
                    judge_cli(ctx, "cli:extremes", kind, vec![rule.clone()], Some(r#"{"a":[1,"x"]}"#), Some((&rule, r#"{"a":[1,"x"]}"#)), false);
                }
            }
        }
        // extremes as data / index
        for a in &x {
            if !ctx.mine() {
                continue;
            }
            for b in &x {
                let rule = json!({"var": [b]}).to_string();
                if rule.contains("\\u0000") {
                    continue;
                }
                let d = a.to_string();
                judge_cli(ctx, "cli:extremes-var", kind, vec![rule.clone()], Some(&d), Some((&rule, &d)), false);
                let rule = json!({"substr": ["héllo", b, b]}).to_string();
                judge_cli(ctx, "cli:extremes-substr", kind, vec![rule.clone(), d.clone()], None, Some((&rule, &d)), false);
            }
        }
        non_utf8_space(ctx, kind);
        // deep chains and deep data
        if ctx.mine() {
            for depth in [63usize, 64, 126, 127, 128, 129] {
                let t = format!("{}{}{}", r#"{"!":"#.repeat(depth), "1", "}".repeat(depth));
                judge_cli(ctx, "cli:deep-chain", kind, vec![t.clone(), "null".into()], None, Some((&t, "null")), false);
                let t = format!("{}{}{}", r#"{"cat":["a","#.repeat(depth), "1", "]}".repeat(depth));
                judge_cli(ctx, "cli:deep-chain", kind, vec![t.clone(), "null".into()], None, Some((&t, "null")), false);
                let t = nested_text(depth);
                judge_cli(ctx, "cli:deep-data", kind, vec![r#"{"cat":[{"var":""}]}"#.into()], Some(&t), Some((r#"{"cat":[{"var":""}]}"#, &t)), false);
            }
            // no arguments at all, too many arguments, options
            for args in [vec![], vec!["1".to_string(), "2".to_string(), "3".to_string()], vec!["--help".to_string()], vec!["-V".to_string()], vec!["--nope".to_string()]] {
                judge_cli(ctx, "cli:usage", kind, args, Some(""), None, false);
            }
        }
    }
}

// ---------------------------------------------------------------------------------
// Python

/// Run the Python driver for `mode` (c19 | c01) and fold its result into ctx.
pub fn python(ctx: &mut Ctx, mode: &str) {
    let thorough = ctx.tier_thorough;
    // C19 runs both builds of the extension in both tiers; C01's pass over the wrapper the debug build (quick)
    let kinds: Vec<&str> = if thorough || mode == "c19" { vec!["debug", "release"] } else { vec!["debug"] };
    for kind in kinds {
        let out = std::env::temp_dir().join(format!("jlmc-py-{}-{}-{}.json", std::process::id(), ctx.shard, kind));
        let _ = std::fs::remove_file(&out);
        let driver = crate::driver::root().join("pydriver/driver.py");
        let me = std::env::current_exe().unwrap();
        let case = json!({"python_driver": mode, "kind": kind, "shard": ctx.shard});
        ctx.tick_external(&case);
        let mut pc = Command::new("python3");
        die_with_parent(&mut pc);
        let st = pc
            .arg(&driver)
            .arg(mode)
            .arg(pypkg(kind))
            .arg(&me)
            .arg(ctx.shard.to_string())
            .arg(ctx.nshards.to_string())
            .arg(if thorough { "thorough" } else { "quick" })
            .arg(&out)
            .env_remove("RUST_BACKTRACE")
            .env("PYTHONDONTWRITEBYTECODE", "1")
            .stdin(Stdio::null())
            .stdout(Stdio::null())
            .stderr(Stdio::piped())
            .output();
        let (ok, stderr) = match &st {
            Ok(o) => (o.status.success(), String::from_utf8_lossy(&o.stderr).into_owned()),
            Err(e) => (false, e.to_string()),
        };
        let res: Option<Value> = std::fs::read_to_string(&out).ok().and_then(|t| serde_json::from_str(&t).ok());
        let _ = std::fs::remove_file(&out);
        match res {
            Some(r) if ok => {
                ctx.leaves += r["leaves"].as_u64().unwrap_or(0);
                ctx.evaluations += r["evaluations"].as_u64().unwrap_or(0);
                ctx.states += r["states"].as_u64().unwrap_or(0);
                ctx.transitions += r["transitions"].as_u64().unwrap_or(0);
                if let Some(m) = r["outcomes"].as_object() {
                    for (k, n) in m {
                        *ctx.outcomes.entry(k.clone()).or_insert(0) += n.as_u64().unwrap_or(0);
                    }
                }
                if let Some(m) = r["subspaces"].as_object() {
                    for (k, n) in m {
                        *ctx.subspaces.entry(format!("py:{}:{}", kind, k)).or_insert(0) += n.as_u64().unwrap_or(0);
                    }
                }
                if let Some(hs) = r["hashes"].as_array() {
                    for h in hs {
                        if let Some(s) = h.as_str() {
                            ctx.nontrivial.insert(crate::ctx::hash_str(s));
                        }
                    }
                }
                if let Some(vs) = r["violations"].as_array() {
                    for v in vs {
                        ctx.fail(
                            &format!("py:{}:{}", kind, v["sub"].as_str().unwrap_or("?")),
                            v["case"].clone(),
                            v["expected"].as_str().unwrap_or("?").to_string(),
                            format!("PY {}", v["actual"].as_str().unwrap_or("?")),
                            None,
                        );
                    }
                }
                let extra = r["violation_count"].as_u64().unwrap_or(0).saturating_sub(r["violations"].as_array().map(|a| a.len() as u64).unwrap_or(0));
                ctx.violation_count += extra;
                if let Some(ss) = r["samples"].as_array() {
                    for s in ss.iter().take(3) {
                        if ctx.samples.len() < crate::ctx::MAX_SAMPLES {
                            ctx.samples.push(s.clone());
                        }
                    }
                }
            }
            _ => {
                // the interpreter died (a crash of the extension kills CPython) or the driver broke
                let tail: String = stderr.chars().rev().take(600).collect::<String>().chars().rev().collect();
                ctx.fail(
                    &format!("py:{}:driver", kind),
                    json!({"python_driver": mode, "kind": kind, "shard": ctx.shard, "nshards": ctx.nshards}),
                    "the Python driver completes (no interpreter crash)".into(),
                    format!("PY driver ended abnormally: {:?}; stderr tail: {}", st.as_ref().map(|o| o.status.to_string()).unwrap_or_default(), tail),
                    None,
                );
            }
        }
    }
}

/// Line protocol used by the Python driver: one JSON object per line
/// {"rule": <text>, "data": <text>} -> {"ok": <text>} | {"err": true} | {"bad_json": true}
pub fn oracle_loop() -> i32 {
    exec::install_panic_hook();
    let saved = exec::capture_stdout();
    let stdin = std::io::stdin();
    let mut out = unsafe {
        use std::os::unix::io::FromRawFd;
        std::fs::File::from_raw_fd(saved)
    };
    for line in stdin.lock().lines() {
        let line = match line {
            Ok(l) => l,
            Err(_) => break,
        };
        let req: Value = match serde_json::from_str(&line) {
            Ok(v) => v,
            Err(_) => {
                let _ = writeln!(out, "{}", json!({"protocol_error": true}));
                continue;
            }
        };
        let (rt, dt) = (req["rule"].as_str().unwrap_or(""), req["data"].as_str().unwrap_or(""));
        let resp = match (serde_json::from_str::<Value>(rt), serde_json::from_str::<Value>(dt)) {
            (Ok(r), Ok(d)) => {
                let o = exec::apply(&r, &d);
                match o.out {
                    Outcome::Ok(v) => json!({"ok": v.to_string(), "log": o.log}),
                    Outcome::Err(_) => json!({"err": true, "log": o.log}),
                    Outcome::Panic(m, l) => json!({"panic": format!("{} at {}", m, l)}),
                }
            }
            _ => json!({"bad_json": true}),
        };
        let _ = writeln!(out, "{}", resp);
        let _ = out.flush();
    }
    0
}

/// Replay of a recorded CLI case.
pub fn replay_cli(rec: &Value) -> i32 {
    let case = &rec["case"];
    let kind = case["bin"].as_str().unwrap_or("debug");
    if let Some(hexargs) = case["argv_hex"].as_array() {
        let args: Vec<Vec<u8>> = hexargs.iter().map(|h| unhex(h.as_str().unwrap_or(""))).collect();
        let stdin = case["stdin_hex"].as_str().map(unhex);
        let o = run_cli_bytes(kind, &args, stdin.as_deref());
        println!("argv(hex): {:?}\nexit     : {:?} signal {:?}\nstdout   : {:?}\nstderr   : {:?}", hexargs, o.code, o.signal, o.stdout, o.stderr.chars().take(300).collect::<String>());
        return 2;
    }
    let args: Vec<String> = case["argv"].as_array().map(|a| a.iter().map(|x| x.as_str().unwrap_or("").to_string()).collect()).unwrap_or_default();
    let stdin = case["stdin"].as_str();
    PACE.store(case["stdin_pacing"].as_u64().unwrap_or(0) as usize, std::sync::atomic::Ordering::SeqCst);
    HOSTILE.store(case["hostile_environment"].as_u64().unwrap_or(0) as usize, std::sync::atomic::Ordering::SeqCst);
    let o = run_cli(kind, &args, stdin);
    println!("argv     : {:?}", args);
    println!("stdin    : {:?}", stdin);
    println!("exit     : {:?} signal {:?}", o.code, o.signal);
    println!("stdout   : {:?}", o.stdout);
    println!("stderr   : {:?}", o.stderr.chars().take(300).collect::<String>());
    println!("recorded : expected {} / actual {}", rec["expected"], rec["actual"]);
    2
}
