//! E4: process-boundary exploration (CLI, Python) and the oracle line protocol.
pub fn oracle_loop() -> i32 { 0 }
