//! C03 - every operator enforces its arity; {op: x} means exactly {op: [x]}.
//!
//! Space: 35 operators x operand counts 0..6 x (acceptance side) one benign operand vector
//! per operator, (rejection side) all tuples over V0 for counts <= 3 and constant fill above,
//! x 3 data; the sugar: 35 operators x every non-array x of V1 (incl. operation-shaped x) x 3
//! data, both spellings. Oracle: the table transcribed from the statement (R::arity_ok).

use crate::alphabet::{self as al, op};
use crate::ctx::Ctx;
use crate::refmodel::{self, OPS};
use serde_json::{json, Value};

/// An operand vector of length n with which operator k succeeds whenever n is accepted.
pub fn benign(k: &str, n: usize) -> Vec<Value> {
    let take = |xs: Vec<Value>| -> Vec<Value> { (0..n).map(|i| xs[i.min(xs.len() - 1)].clone()).collect() };
    match k {
        "==" | "!=" | "===" | "!==" => take(vec![json!(1)]),
        "!" | "!!" => take(vec![json!(1)]),
        "<" | "<=" | ">" | ">=" => take(vec![json!(1), json!(2), json!(3)]),
        // 2 * 2 * ... leaves the double range beyond 1023 factors: long products are of ones
        "*" if n > 1000 => take(vec![json!(1)]),
        "+" | "*" | "max" | "min" => take(vec![json!(2)]),
        "-" => take(vec![json!(3), json!(1)]),
        "/" | "%" => take(vec![json!(4), json!(2)]),
        "merge" => take(vec![json!([1]), json!(2)]),
        "in" => take(vec![json!("a"), json!("abc"), json!("x")]),
        "cat" => take(vec![json!("a")]),
        "substr" => take(vec![json!("abc"), json!(1)]),
        "log" => take(vec![json!("arity")]),
        "var" => take(vec![json!("a"), json!("dflt")]),
        "missing" => take(vec![json!("a")]),
        "missing_some" => take(vec![json!(1), json!(["a"]), json!(1)]),
        "if" | "?:" | "or" | "and" => take(vec![json!(1)]),
        "map" | "filter" | "all" | "some" | "none" => take(vec![json!([1, 2]), json!({"var": ""}), json!(0)]),
        "reduce" => take(vec![json!([1, 2]), json!({"+": [{"var": "current"}, {"var": "accumulator"}]}), json!(0), json!(0)]),
        _ => unreachable!(),
    }
}

/// Every operator with every operand count it rejects (0..=4), bracketed, and - where one operand is rejected -
/// the bracket-less spelling with a scalar, a string and an expression as the operand.
pub fn illformed() -> Vec<Value> {
    let mut out = Vec::new();
    for k in OPS {
        for n in 0..=4usize {
            if !refmodel::arity_ok(k, n) {
                out.push(op(k, benign(k, n)));
            }
        }
        if !refmodel::arity_ok(k, 1) {
            out.push(al::obj1(k, json!(5)));
            out.push(al::obj1(k, json!("a")));
            out.push(al::obj1(k, json!({"var": ""})));
            out.push(al::obj1(k, json!(null)));
        }
        // the "field test" shape: a plain field reference first, constants after it (too few, too many)
        for n in 1..=4usize {
            if !refmodel::arity_ok(k, n) {
                let mut args = vec![json!(1); n];
                args[0] = json!({"var": "a"});
                out.push(op(k, args.clone()));
                if n >= 2 {
                    args[0] = json!(1);
                    args[1] = json!({"var": "a"});
                    out.push(op(k, args));
                }
            }
        }
    }
    // the same for var itself: a plain key, a default, and surplus operands
    out.push(json!({"var": ["a", 0, "surplus"]}));
    out.push(json!({"var": ["a", 0, "surplus", 4]}));
    out
}

pub fn datas() -> Vec<Value> {
    vec![json!(null), json!({"a": 1}), json!([1, 2, 3])]
}

pub fn meta(_thorough: bool) -> (String, Value) {
    (
        "choice tree: operator (35) -> operand count 0..6 -> operand vector (benign vector; every tuple over V0 for counts <= 3, constant fill above) -> data (3) -> position (top level / nested under cat / inside an unselected if branch); sugar: operator -> non-array x in V1 -> data; leaf = one apply() whose Ok/Err-ness is compared with the documented arity table and whose value is compared with R; non-trivial = R specifies the outcome; distinct = distinct (rule,data) text".into(),
        json!({"operators": 35, "counts": "0..6", "v0": al::v0().len(), "sugar_values": al::v1().iter().filter(|x| !x.is_array()).count()}),
    )
}

pub fn run(ctx: &mut Ctx) {
    let ds = datas();
    let v0 = al::v0();
    // C03 judges Ok/Err-ness against the documented table only; what an accepted call
    // returns is the business of the operator's own property.
    let verdict = |accepted: bool, must_succeed: bool, o: &crate::exec::Obs| -> Option<(String, String)> {
        if !accepted && !o.is_err() {
            Some(("Err (operand count outside the documented set)".into(), o.show()))
        } else if accepted && must_succeed && o.ok().is_none() {
            Some(("Ok(_) (documented operand count, benign operands)".into(), o.show()))
        } else if matches!(o.out, crate::exec::Outcome::Panic(..)) {
            Some(("Ok(_) or Err(_)".into(), o.show()))
        } else {
            None
        }
    };
    for k in OPS {
        for n in 0..=(if ctx.tier_thorough { 9usize } else { 6usize }) {
            if !ctx.mine() {
                continue;
            }
            let accepted = refmodel::arity_ok(k, n);
            for d in &ds {
                ctx.edge();
                let r = op(k, benign(k, n));
                let o = ctx.exec(&r, d);
                ctx.record(if accepted { "accept:benign" } else { "reject:benign" }, &r, d, &o, verdict(accepted, true, &o));
                if !accepted {
                    // a wrong count nested in an eager operand, or in an evaluated lazy branch, is an error of the whole rule
                    for r2 in [json!({"cat": ["x", r]}), json!({"if": [true, r, 0]}), json!({"map": [[1], r]}), json!({"map": [[{"a": 1}, {"a": 2}], r]}), json!({"filter": [[{"a": 1}], r]}), json!({"some": [[{"a": 1}, {"b": 1}], r]})] {
                        let o2 = ctx.exec(&r2, d);
                        ctx.record("reject:nested", &r2, d, &o2, verdict(false, false, &o2));
                    }
                }
            }
            // every tuple over V0 (constant fill above three operands)
            let full_to = if ctx.tier_thorough { 4 } else { 3 };
            let tuples: Vec<Vec<Value>> = if n <= full_to { al::tuples(&v0, n) } else { v0.iter().map(|x| vec![x.clone(); n]).collect() };
            for t in tuples {
                ctx.edge();
                let r = op(k, t);
                let o = ctx.exec(&r, &ds[1]);
                ctx.record(if accepted { "accept:tuple" } else { "reject:tuple" }, &r, &ds[1], &o, verdict(accepted, false, &o));
            }
        }
    }
    // a wrong count nested in every operand position of every host operator: wherever the reference
    // evaluates that operand, the whole rule is an error (no host skips, defaults or swallows it)
    {
        let mut bad: Vec<Value> = Vec::new();
        for k in OPS {
            let mut c = 0;
            for n in 0..=5usize {
                if !refmodel::arity_ok(k, n) && c < 2 {
                    bad.push(op(k, benign(k, n)));
                    c += 1;
                }
            }
        }
        // ... and the bracket-less spellings of a rejected single operand ({">": 5}), which no host may read as
        // "compare the current element with 5" or the like
        for k in OPS {
            if !refmodel::arity_ok(k, 1) {
                bad.push(al::obj1(k, json!(5)));
                bad.push(al::obj1(k, json!({"var": ""})));
            }
        }
        for h in OPS {
            for n in 1..=3usize {
                if !refmodel::arity_ok(h, n) {
                    continue;
                }
                if !ctx.mine() {
                    continue;
                }
                for p in 0..n {
                    for b in &bad {
                        ctx.edge();
                        // a second operand vector in which the other operands already "decide" (a false first
                        // comparison, a zero factor, an empty haystack): the malformed operand is an error all the same
                        if ["<", "<=", ">", ">=", "*", "in", "==", "===", "max", "cat", "merge", "and", "or"].contains(&h) {
                            let alt: Vec<Value> = match h {
                                "<" | "<=" => vec![json!(3), json!(2), json!(1)],
                                ">" | ">=" => vec![json!(1), json!(2), json!(3)],
                                "in" => vec![json!("a"), json!([]), json!(0)],
                                "*" => vec![json!(0), json!(0), json!(0)],
                                _ => vec![json!(null), json!([]), json!("")],
                            };
                            let mut args: Vec<Value> = alt.into_iter().take(n).collect();
                            args[p] = b.clone();
                            let r = op(h, args);
                            let o = ctx.exec(&r, &ds[1]);
                            let (exp, _) = refmodel::reference(&r, &ds[1]);
                            ctx.record("reject:nested:every-host:deciding-neighbours", &r, &ds[1], &o, if matches!(exp, refmodel::Exp::Err) { verdict(false, false, &o) } else { None });
                        }
                        let mut args = benign(h, n);
                        args[p] = b.clone();
                        let r = op(h, args);
                        let o = ctx.exec(&r, &ds[1]);
                        let (exp, _) = refmodel::reference(&r, &ds[1]);
                        let must_err = matches!(exp, refmodel::Exp::Err);
                        ctx.record("reject:nested:every-host", &r, &ds[1], &o, if must_err { verdict(false, false, &o) } else { None });
                    }
                    // ... and one level further down, behind a wrapper that is parsed only when it is evaluated
                    for b in bad.iter().step_by(7) {
                        for w in ["and", "or", "if", "?:", "cat", "!", "merge"] {
                            ctx.edge();
                            let mut args = benign(h, n);
                            args[p] = op(w, vec![b.clone()]);
                            let r = op(h, args);
                            let o = ctx.exec(&r, &ds[2]);
                            let (exp, _) = refmodel::reference(&r, &ds[2]);
                            let must_err = matches!(exp, refmodel::Exp::Err);
                            ctx.record("reject:nested:depth-2", &r, &ds[2], &o, if must_err { verdict(false, false, &o) } else { None });
                        }
                    }
                }
            }
        }
    }
    // size probes: operand counts well above the enumerated 0..6
    let mut counts = al::size_classes(ctx.tier_thorough);
    counts.extend([258usize, 511, 512, 513, 514, 65535, 65536, 65537, 65538]);
    for n in counts {
        if !ctx.mine() {
            continue;
        }
        for k in OPS {
            ctx.edge();
            let accepted = refmodel::arity_ok(k, n);
            let r = op(k, benign(k, n));
            let o = ctx.exec(&r, &ds[1]);
            ctx.record(if accepted { "accept:size-probe" } else { "reject:size-probe" }, &r, &ds[1], &o, verdict(accepted, true, &o));
        }
    }
    // the bracket-less spelling: both spellings behave identically (value, Err-ness, output)
    let xs: Vec<Value> = al::v1().into_iter().filter(|x| !x.is_array()).collect();
    for k in OPS {
        if !ctx.mine() {
            continue;
        }
        for x in &xs {
            for d in &ds {
                ctx.edge();
                let r1 = al::obj1(k, x.clone());
                let r2 = op(k, vec![x.clone()]);
                let o1 = ctx.exec(&r1, d);
                let o2 = ctx.exec(&r2, d);
                let same = match (o1.ok(), o2.ok()) {
                    (Some(a), Some(b)) => a == b && o1.log == o2.log,
                    (None, None) => o1.is_err() && o2.is_err(),
                    _ => false,
                };
                ctx.record("sugar:bracketed", &r2, d, &o2, None);
                ctx.record("sugar:bare", &r1, d, &o1, if same { None } else { Some((format!("same as bracketed: {}", o2.show()), o1.show())) });
                // and the accepted / rejected verdict of one operand
                let acc = refmodel::arity_ok(k, 1);
                if !acc && !o1.is_err() {
                    ctx.law_fail("law:sugar-arity", &r1, d, "Err".into(), o1.show());
                }
            }
        }
    }
    // the bracket-less spelling with an operand that is an OPERATION evaluating to an array, an empty array, null,
    // a string of digits: {"op": x} is {"op": [x]} for every operator, whatever x evaluates to
    if ctx.mine() {
        let d = json!({"arr3": [1, 5, 3], "one": [7], "empty": [], "nul": null, "s": "12", "nested": [[1, 2]]});
        for x in [json!({"var": "arr3"}), json!({"var": "one"}), json!({"var": "empty"}), json!({"var": "nul"}), json!({"var": "s"}), json!({"var": "nested"}), json!({"merge": [4, 2]}), json!({"filter": [[1, 2], true]}), json!({"if": [true, [3, 4]]})] {
            for k in OPS {
                ctx.edge();
                let r1 = al::obj1(k, x.clone());
                let r2 = op(k, vec![x.clone()]);
                let (o1, o2) = (ctx.exec(&r1, &d), ctx.exec(&r2, &d));
                let same = match (o1.ok(), o2.ok()) {
                    (Some(a), Some(b)) => a == b && o1.log == o2.log,
                    (None, None) => o1.is_err() && o2.is_err(),
                    _ => false,
                };
                ctx.record("sugar:computed-operand:bracketed", &r2, &d, &o2, None);
                ctx.record("sugar:computed-operand:bare", &r1, &d, &o1, if same { None } else { Some((format!("same as bracketed: {}", o2.show()), o1.show())) });
            }
        }
    }
    // every ill-formed operation (incl. the field-test shapes: a field reference first, surplus constants after)
    // as the per-element expression / predicate over records, numbers and strings: an error wherever it is evaluated
    for b in illformed() {
        if !ctx.mine() {
            continue;
        }
        for coll in [json!([{"a": 1}, {"a": 2}]), json!([{"a": 1}, 5]), json!([1, 2]), json!("ab")] {
            for h in ["map", "filter", "all", "some", "none"] {
                ctx.edge();
                let r = op(h, vec![coll.clone(), b.clone()]);
                let o = ctx.exec(&r, &ds[1]);
                let (exp, _) = refmodel::reference(&r, &ds[1]);
                ctx.record("reject:per-element", &r, &ds[1], &o, if matches!(exp, refmodel::Exp::Err) { verdict(false, false, &o) } else { None });
                let r = op(h, vec![json!({"var": "rows"}), b.clone()]);
                let dd = json!({"rows": coll});
                let o = ctx.exec(&r, &dd);
                let (exp, _) = refmodel::reference(&r, &dd);
                ctx.record("reject:per-element:V", &r, &dd, &o, if matches!(exp, refmodel::Exp::Err) { verdict(false, false, &o) } else { None });
            }
        }
    }
    // operands that are themselves operand lists: an array literal whose length is a documented count of
    // the operator, standing where ONE operand stands, is one operand (a literal array), never the list
    for k in OPS {
        if !ctx.mine() {
            continue;
        }
        for m in 0..=4usize {
            let inner = Value::Array(benign(k, m));
            for n in 1..=3usize {
                let accepted = refmodel::arity_ok(k, n);
                for pos in 0..n {
                    ctx.edge();
                    let mut args = if accepted { benign(k, n) } else { vec![json!(1); n] };
                    args[pos] = inner.clone();
                    let r = op(k, args);
                    let o = ctx.exec(&r, &ds[1]);
                    ctx.record(if accepted { "accept:operand-list-as-operand" } else { "reject:operand-list-as-operand" }, &r, &ds[1], &o, verdict(accepted, false, &o));
                    if !accepted && n == 1 {
                        for r2 in [json!({"cat": ["x", r]}), json!({"if": [true, r, 0]})] {
                            let o2 = ctx.exec(&r2, &ds[1]);
                            ctx.record("reject:operand-list-as-operand:nested", &r2, &ds[1], &o2, verdict(false, false, &o2));
                        }
                    }
                }
            }
        }
    }
    // nesting depth: one-operand operations nested d deep (every d, beyond the 128 levels a JSON text may
    // have: rules are also built by programs), innermost operand a scalar; the two spellings of the
    // outermost operation agree whatever the spelling of the levels below, and a limit on nesting (if any)
    // treats both spellings alike
    {
        let unary: Vec<&str> = OPS.iter().copied().filter(|k| refmodel::arity_ok(k, 1) && !["var", "missing", "log"].contains(k)).collect();
        let maxd = if ctx.profile.starts_with("dev") { 60 } else if ctx.tier_thorough { 300 } else { 160 };
        for depth in 1..=maxd {
            if !ctx.mine() {
                continue;
            }
            for (inner_k, leaf, mixed) in [("!!", json!(true), false), ("+", json!("2"), false), ("cat", json!("a"), false), ("or", json!(0), false), ("merge", json!(1), false), ("!", json!(1), true)] {
                for bare_below in [true, false] {
                    let mut x = leaf.clone();
                    for lvl in 0..depth - 1 {
                        let k = if mixed && lvl % 5 == 4 { unary[(lvl / 5) % unary.len()] } else { inner_k };
                        x = if bare_below { al::obj1(k, x) } else { op(k, vec![x]) };
                    }
                    for k in &unary {
                        ctx.edge();
                        let r1 = al::obj1(k, x.clone());
                        let r2 = op(k, vec![x.clone()]);
                        let (o1, o2) = (ctx.exec(&r1, &ds[0]), ctx.exec(&r2, &ds[0]));
                        let same = match (o1.ok(), o2.ok()) {
                            (Some(a), Some(b)) => a == b,
                            (None, None) => o1.is_err() && o2.is_err(),
                            _ => false,
                        };
                        ctx.record("sugar:nesting-depth:bracketed", &r2, &ds[0], &o2, None);
                        ctx.record("sugar:nesting-depth:bare", &r1, &ds[0], &o1, if same { None } else { Some((format!("same as bracketed: {}", o2.show()), o1.show())) });
                    }
                }
            }
        }
    }
    // the bracket-less spelling for the data operators over path keys in every lexer state (escapes without
    // dots, trailing / leading separators, doubled separators): {"var": k} is exactly {"var": [k]}
    if ctx.mine() {
        let datas = crate::history::lexer_datas();
        for k in ["x\\", ".a", "\\.a", "a.", "a..b", "", "a\\", "\\", ".", "a\\.b", "a.b", "a\\b", "a\\\\b", "\\a", "b.0", "b.-1", "ab"] {
            for d in datas.iter().chain([json!({"ab": "unescaped", "a\\b": "verbatim", "a": {"b": 1}})].iter()) {
                for name in ["var", "missing"] {
                    ctx.edge();
                    let r1 = al::obj1(name, json!(k));
                    let r2 = op(name, vec![json!(k)]);
                    let (o1, o2) = (ctx.exec(&r1, d), ctx.exec(&r2, d));
                    let same = match (o1.ok(), o2.ok()) {
                        (Some(a), Some(b)) => a == b,
                        (None, None) => o1.is_err() && o2.is_err(),
                        _ => false,
                    };
                    ctx.record("sugar:path-keys:bracketed", &r2, d, &o2, None);
                    ctx.record("sugar:path-keys:bare", &r1, d, &o1, if same { None } else { Some((format!("same as bracketed: {}", o2.show()), o1.show())) });
                }
            }
        }
    }
    crate::spaces::sweep::length_sweep(ctx);
}
