//! Length sweep: *every* length n up to a bound (not size classes), with one distinguished position p
//! per case (first, centre, last; every position for the short lengths), for each operator that walks
//! an operand list, a collection, a string or a key list. A traversal with several regimes by length
//! (inline / blocked / heap; linear / sorted / hashed) is wrong in one regime only, and there only for
//! lengths that are not a multiple of its block size or only at one position (tail, centre): size
//! classes picked in advance cannot know where the regimes start, every length can.

use crate::alphabet as al;
use crate::ctx::Ctx;
use crate::exec::Obs;
use serde_json::{json, Value};

/// Upper end of the sweep (inclusive).
pub fn sweep_max(ctx: &Ctx) -> usize {
    if ctx.prop == "C12" {
        // reporting each key once by a linear search is a legitimate (quadratic) implementation
        if ctx.profile.starts_with("dev") { 100 } else if ctx.tier_thorough { 600 } else { 260 }
    } else if ctx.profile.starts_with("dev") {
        300
    } else if ctx.tier_thorough {
        2100
    } else {
        1100
    }
}

/// Distinguished positions for length n: all of them up to 24, then first / around the centre / last.
pub fn positions(n: usize) -> Vec<usize> {
    if n == 0 {
        return vec![];
    }
    if n <= 24 {
        return (0..n).collect();
    }
    let mut v = vec![0, n / 2 - 1, n / 2, n / 2 + 1, n - 2, n - 1];
    v.dedup();
    v
}

fn ints(n: usize) -> Vec<Value> {
    (0..n).map(|i| json!(i)).collect()
}

/// n characters cycling through one character per UTF-8 lead byte, the one at p replaced by `mark`.
fn cyc_string(n: usize, p: usize, mark: char) -> String {
    let cs = al::lead_byte_chars();
    (0..n).map(|i| if i == p { mark } else { cs[i % cs.len()] }).collect()
}

pub fn length_sweep(ctx: &mut Ctx) {
    let prop = ctx.prop.clone();
    if !["C02", "C03", "C04", "C05", "C06", "C07", "C08", "C09", "C10", "C11", "C12", "C13", "C14", "C15", "C16"].contains(&prop.as_str()) {
        return;
    }
    let null = Value::Null;
    let grid = al::type_grid();
    let max = sweep_max(ctx);
    lead_byte_probes(ctx);
    confusable_probes(ctx);
    unreached_probes(ctx);
    illformed_probes(ctx);
    element_reader_probes(ctx);
    pipeline_probes(ctx);
    number_text_probes(ctx);
    aliased_operand_probes(ctx);
    deep_path_probes(ctx);
    lexer_key_probes(ctx);
    index_spelling_probes(ctx);
    element_scope_probes(ctx);
    every_operand_probes(ctx);
    condition_kind_probes(ctx);
    provenance_probes(ctx);
    nested_same_kind_probes(ctx);
    every_operator_as_element_probes(ctx);
    hash_twin_probes(ctx);
    relation_probes(ctx);
    path_twin_probes(ctx);
    twin_sequence_probes(ctx);
    stale_output_probes(ctx);
    if prop == "C02" || prop == "C06" || prop == "C04" {
        return;
    }
    for n in 1..=max {
        if !ctx.mine() {
            continue;
        }
        let xs = ints(n);
        let dv = json!({ "xs": xs });
        // position-free cases, one per length
        match prop.as_str() {
            "C16" => {
                // operands cycle through the type grid: every type at every position class
                for rot in 0..3usize {
                    let parts: Vec<Value> = (0..n).map(|i| grid[(i * 7 + rot * 5) % grid.len()].clone()).collect();
                    ctx.check("sweep:cat:operands", &json!({ "cat": parts }), &null);
                }
                let s = cyc_string(n, n, 'x');
                let ds = json!({ "s": s });
                for (a, b) in [(json!(-1), None), (json!(-(n as i64)), None), (json!(0), Some(json!(-1))), (json!(-((n / 2) as i64) - 1), Some(json!(1))), (json!(n / 2), None), (json!(1), Some(json!(-((n / 2) as i64))))] {
                    let mut args = vec![json!({"var": "s"}), a];
                    if let Some(b) = b {
                        args.push(b);
                    }
                    ctx.check("sweep:substr", &json!({ "substr": args }), &ds);
                }
            }
            "C13" => {
                let o = ctx.check("sweep:map", &json!({"map": [{"var": "xs"}, {"+": [{"var": ""}, 1]}]}), &dv);
                if let Some(Value::Array(a)) = o.ok() {
                    if a.len() != n {
                        ctx.law_fail("law:map-length", &json!({"map": [{"var": "xs"}, "..."]}), &json!({"xs": format!("[0..{})", n)}), format!("length {}", n), format!("length {}", a.len()));
                    }
                }
                ctx.check("sweep:map:literal", &json!({"map": [xs, {"var": ""}]}), &null);
                ctx.check("sweep:filter:all", &json!({"filter": [{"var": "xs"}, true]}), &dv);
                ctx.check("sweep:filter:literal:all", &json!({"filter": [xs, {">=": [{"var": ""}, 0]}]}), &null);
                ctx.check("sweep:reduce:sum", &json!({"reduce": [{"var": "xs"}, {"+": [{"var": "current"}, {"var": "accumulator"}]}, 0]}), &dv);
                ctx.check("sweep:reduce:cat", &json!({"reduce": [xs, {"cat": [{"var": "accumulator"}, {"var": "current"}, ","]}, ""]}), &null);
            }
            "C15" => {
                let ops_: Vec<Value> = (0..n).map(|i| if i % 2 == 0 { json!([i, [i]]) } else { grid[i % grid.len()].clone() }).collect();
                ctx.check("sweep:merge:operands", &json!({ "merge": ops_ }), &null);
                ctx.check("sweep:merge:arrays", &json!({"merge": [{"var": "xs"}, "|", {"var": "xs"}]}), &dv);
            }
            "C12" => {
                // integer keys and their string spellings side by side over array data: both spellings of a
                // missing index are reported, neither of a present one
                for have in [0, n / 4, n / 2] {
                    let keys: Vec<Value> = (0..n).map(|i| if i % 2 == 0 { json!(i / 2) } else { json!((i / 2).to_string()) }).collect();
                    let d = Value::Array((0..have).map(|i| json!(i + 1)).collect());
                    ctx.check("sweep:missing:int-and-string-keys", &json!({ "missing": keys }), &d);
                    ctx.check("sweep:missing_some:int-and-string-keys", &json!({"missing_some": [2 * have + 1, keys]}), &d);
                    ctx.check("sweep:missing_some:int-and-string-keys:enough", &json!({"missing_some": [2 * have, keys]}), &d);
                }
            }
            "C07" | "C08" | "C09" if n <= 300 => {
                // a string and a proper prefix of it, the lengths apart by 1, 255, 256, 257, 512, 65536
                let ops: &[&str] = match prop.as_str() {
                    "C07" => &["==", "!="],
                    "C08" => &["===", "!=="],
                    _ => &["<", ">="],
                };
                for d in [1usize, 255, 256, 257, 512, 65536] {
                    if d == 65536 && n % 50 != 0 {
                        continue;
                    }
                    let long = cyc_string(n - 1 + d, usize::MAX, 'x');
                    let short: String = long.chars().take(n - 1).collect();
                    for k in ops {
                        ctx.check("sweep:strings:prefix", &al::op(k, vec![json!(short), json!(long)]), &null);
                        ctx.check("sweep:strings:prefix", &al::op(k, vec![json!({"var": "l"}), json!({"var": "s"})]), &json!({"l": long, "s": short}));
                    }
                    // ASCII only (byte length = character count)
                    let along = "a".repeat(n - 1 + d);
                    let ashort = "a".repeat(n - 1);
                    ctx.check("sweep:strings:prefix:ascii", &al::op(ops[0], vec![json!(ashort), json!(along)]), &null);
                }
            }
            "C11" if n <= 300 => {
                // an escaped separator (and an escaped escape character) at every byte offset of a key
                let head = "k".repeat(n - 1);
                let d = json!({format!("{}.zip", head): "literal key", head.clone(): {"zip": "nested key"}, format!("{}\\", head): {"zip": "backslash key"}, format!("{}\\.zip", head): "literal backslash-dot key"});
                ctx.check("sweep:var:escaped-dot-at", &json!({"var": [format!("{}\\.zip", head), "dflt"]}), &d);
                ctx.check("sweep:var:escaped-dot-at", &json!({"var": [format!("{}.zip", head), "dflt"]}), &d);
                ctx.check("sweep:var:escaped-backslash-at", &json!({"var": [format!("{}\\\\.zip", head), "dflt"]}), &d);
                ctx.check("sweep:var:escaped-backslash-at", &json!({"var": [format!("{}\\\\\\.zip", head), "dflt"]}), &d);
                let d2 = json!({head.clone(): {"zip": "nested only"}});
                ctx.check("sweep:var:escaped-dot-at:nested-only", &json!({"var": [format!("{}\\.zip", head), "dflt"]}), &d2);
            }
            "C03" => {
                // every operand count: the operators without an upper bound accept it (and the ones with a
                // bound reject it), operands benign
                for k in crate::refmodel::OPS {
                    if n > 6 && (crate::refmodel::arity_ok(k, n) || n % 16 == 7) {
                        ctx.check("sweep:count", &al::op(k, crate::spaces::c03::benign(k, n)), &json!({"a": 1}));
                    }
                }
            }
            _ => {}
        }
        // look-alike twins: n-1 copies of one value and, at the distinguished position, a DIFFERENT value that
        // shares its spelling, its double or its string form (a de-duplicating, memoising or hashing traversal
        // keyed on text / on the double / on a type-blind fingerprint conflates the two - from some length on)
        if n <= 300 && ["C13", "C14", "C15"].contains(&prop.as_str()) {
            for (filler, marked) in al::lookalike_twins() {
                for p in positions(n).into_iter().filter(|p| n <= 40 || *p == 0 || *p == n - 1 || *p == n / 2) {
                    ctx.edge();
                    let coll: Vec<Value> = (0..n).map(|i| if i == p { marked.clone() } else { filler.clone() }).collect();
                    let plain: Vec<Value> = vec![filler.clone(); n];
                    let d = json!({ "c": coll, "plain": plain, "m": marked, "f": filler });
                    match prop.as_str() {
                        "C13" => {
                            ctx.check("sweep:twins:filter", &json!({"filter": [{"var": "c"}, {"===": [{"var": ""}, marked]}]}), &d);
                            ctx.check("sweep:twins:filter:truthiness", &json!({"filter": [{"var": "c"}, {"var": ""}]}), &d);
                            ctx.check("sweep:twins:filter:keep-fillers", &json!({"filter": [{"var": "c"}, {"===": [{"var": ""}, filler]}]}), &d);
                            ctx.check("sweep:twins:filter:keep-fillers:!==", &json!({"filter": [{"var": "c"}, {"!==": [{"var": ""}, marked]}]}), &d);
                            ctx.check("sweep:twins:map", &json!({"map": [{"var": "c"}, {"===": [{"var": ""}, filler]}]}), &d);
                        }
                        "C14" => {
                            for (k, pred) in [("all", json!({"===": [{"var": ""}, filler]})), ("some", json!({"===": [{"var": ""}, marked]})), ("none", json!({"===": [{"var": ""}, marked]})), ("all", json!({"var": ""})), ("some", json!({"var": ""})), ("none", json!({"!": [{"var": ""}]}))] {
                                ctx.check(&format!("sweep:twins:{}", k), &al::op(k, vec![json!({"var": "c"}), pred.clone()]), &d);
                                if n <= 40 {
                                    ctx.check(&format!("sweep:twins:{}:literal", k), &al::op(k, vec![json!(coll), pred]), &Value::Null);
                                }
                            }
                        }
                        _ => {
                            ctx.check("sweep:twins:in", &json!({"in": [{"var": "m"}, {"var": "c"}]}), &d);
                            ctx.check("sweep:twins:in:absent", &json!({"in": [{"var": "m"}, {"var": "plain"}]}), &d);
                            ctx.check("sweep:twins:in:filler", &json!({"in": [{"var": "f"}, {"var": "c"}]}), &d);
                            if n <= 40 {
                                ctx.check("sweep:twins:in:literal", &json!({"in": [marked, plain]}), &Value::Null);
                                ctx.check("sweep:twins:in:literal", &json!({"in": [[marked], [[filler], coll, "x"]]}), &Value::Null);
                            }
                        }
                    }
                }
            }
        }
        for p in positions(n) {
            ctx.edge();
            match prop.as_str() {
                "C05" => {
                    let falsy = al::many_pub(&["0", "\"\"", "null", "false", "[]", "-0.0"]);
                    let truthy = al::many_pub(&["1", "\"a\"", "[0]", "true", "\"0\"", "5e-324"]);
                    let or_args: Vec<Value> = (0..n).map(|i| if i == p { json!("hit") } else { falsy[i % falsy.len()].clone() }).collect();
                    ctx.check("sweep:or", &json!({ "or": or_args }), &null);
                    let and_args: Vec<Value> = (0..n).map(|i| if i == p { json!(0) } else { truthy[i % truthy.len()].clone() }).collect();
                    ctx.check("sweep:and", &json!({ "and": and_args }), &null);
                    if p == n - 1 {
                        let all_f: Vec<Value> = (0..n).map(|i| falsy[i % falsy.len()].clone()).collect();
                        ctx.check("sweep:or:none", &json!({ "or": all_f }), &null);
                        let all_t: Vec<Value> = (0..n).map(|i| truthy[i % truthy.len()].clone()).collect();
                        ctx.check("sweep:and:all", &json!({ "and": all_t }), &null);
                    }
                    if n <= 400 {
                        let mut args: Vec<Value> = Vec::with_capacity(2 * n + 1);
                        for i in 0..n {
                            args.push(json!({"==": [{"var": "x"}, i]}));
                            args.push(json!(format!("v{}", i)));
                        }
                        ctx.check("sweep:if:no-else", &json!({ "if": args }), &json!({ "x": p }));
                        args.push(json!("else"));
                        ctx.check("sweep:if:else", &json!({ "if": args }), &json!({ "x": p }));
                        if p == n - 1 {
                            ctx.check("sweep:if:else-taken", &json!({ "if": args }), &json!({"x": -1}));
                        }
                    }
                }
                "C03" | "C10" => {
                    let ones = [json!(1), json!("1"), json!(1.0), json!(true)];
                    let ones_n = if prop == "C03" { 3 } else { 4 };
                    let plus: Vec<Value> = (0..n).map(|i| if i == p { json!("2.5") } else { ones[i % ones_n].clone() }).collect();
                    ctx.check("sweep:+", &json!({ "+": plus }), &null);
                    let times: Vec<Value> = (0..n).map(|i| if i == p { json!("-3") } else { ones[i % ones_n].clone() }).collect();
                    ctx.check("sweep:*", &json!({ "*": times }), &null);
                    if prop == "C10" && p == n - 1 {
                        // a left fold, operand by operand: n copies of 0.1; a small tail absorbed by 2^53 one operand at a
                        // time; an overflow that a later operand would cancel
                        ctx.check("sweep:+:tenths", &json!({"+": vec![json!(0.1); n]}), &null);
                        ctx.check("sweep:*:1.1", &json!({"*": vec![json!(1.1); n.min(600)]}), &null);
                        if n >= 3 {
                            let mut a: Vec<Value> = vec![json!(0); n];
                            a[0] = json!(9007199254740992u64);
                            a[n - 2] = json!(1);
                            a[n - 1] = json!(1);
                            ctx.check("sweep:+:absorbed", &json!({ "+": a }), &null);
                            let mut b: Vec<Value> = vec![json!(0); n];
                            b[0] = json!(1e308);
                            b[n - 2] = json!(1e308);
                            b[n - 1] = json!(-1e308);
                            ctx.check("sweep:+:overflow-then-cancel", &json!({ "+": b }), &null);
                            let mut c: Vec<Value> = vec![json!(1); n];
                            c[0] = json!(1e200);
                            c[n - 2] = json!(1e200);
                            c[n - 1] = json!(0);
                            ctx.check("sweep:*:overflow-then-zero", &json!({ "*": c }), &null);
                        }
                    }
                    if prop == "C10" {
                        let mx: Vec<Value> = (0..n).map(|i| if i == p { json!("1000") } else if i % 2 == 0 { json!(i % 7) } else { json!((i % 5).to_string()) }).collect();
                        ctx.check("sweep:max", &json!({ "max": mx }), &null);
                        let mn: Vec<Value> = (0..n).map(|i| if i == p { json!(-5.5) } else if i % 2 == 0 { json!(i % 7) } else { json!((i % 5).to_string()) }).collect();
                        ctx.check("sweep:min", &json!({ "min": mn }), &null);
                        let bad: Vec<Value> = (0..n).map(|i| if i == p { json!("x") } else { json!(i) }).collect();
                        ctx.check("sweep:max:error-at", &json!({ "max": bad }), &null);
                    }
                }
                "C07" | "C08" | "C09" => {
                    // two strings (two arrays) of length n that differ at p only
                    let s1 = cyc_string(n, n, 'x');
                    let s2 = cyc_string(n, p, '!');
                    let a1: Vec<Value> = (0..n).map(|i| json!(i % 10)).collect();
                    let a2: Vec<Value> = (0..n).map(|i| if i == p { json!(11) } else { json!(i % 10) }).collect();
                    let a1s = a1.iter().map(|v| v.to_string()).collect::<Vec<_>>().join(",");
                    let ops: &[&str] = match prop.as_str() {
                        "C07" => &["==", "!="],
                        "C08" => &["===", "!=="],
                        _ => &["<", "<=", ">", ">="],
                    };
                    for k in ops {
                        ctx.check("sweep:strings:differ-at", &al::op(k, vec![json!(s1), json!(s2)]), &null);
                        ctx.check("sweep:strings:differ-at", &al::op(k, vec![json!(s2), json!(s1)]), &null);
                        if p == n - 1 {
                            ctx.check("sweep:strings:same", &al::op(k, vec![json!(s1), json!({"var": "s"})]), &json!({ "s": s1 }));
                            ctx.check("sweep:array-vs-string", &al::op(k, vec![json!(a1), json!(a1s)]), &null);
                        }
                        if n <= 300 {
                            ctx.check("sweep:array-vs-array", &al::op(k, vec![json!(a1), json!(a2)]), &null);
                            ctx.check("sweep:array-vs-string:differ-at", &al::op(k, vec![json!(a2), json!(a1s)]), &null);
                        }
                    }
                }
                "C11" => {
                    let s = cyc_string(n, p, '!');
                    let back = (n - p) as i64;
                    let ds = json!({ "s": s, "xs": xs });
                    ctx.check("sweep:var:string-index", &json!({"var": format!("s.{}", p)}), &ds);
                    ctx.check("sweep:var:string-index:neg", &json!({"var": format!("s.-{}", back)}), &ds);
                    ctx.check("sweep:var:index", &json!({"var": format!("xs.{}", p)}), &ds);
                    ctx.check("sweep:var:index:neg", &json!({"var": format!("xs.-{}", back)}), &ds);
                    ctx.check("sweep:var:int-key:string", &json!({ "var": p }), &json!(s));
                    ctx.check("sweep:var:int-key:string:neg", &json!({"var": -back}), &json!(s));
                    ctx.check("sweep:var:int-key:array:neg", &json!({"var": [-back, "dflt"]}), &Value::Array(xs.clone()));
                    if p == n - 1 {
                        ctx.check("sweep:var:string-index:out", &json!({"var": [format!("s.{}", n), "dflt"]}), &ds);
                        ctx.check("sweep:var:string-index:neg-out", &json!({"var": [format!("s.-{}", n + 1), "dflt"]}), &ds);
                        ctx.check("sweep:var:index:neg-out", &json!({"var": [format!("xs.-{}", n + 1), "dflt"]}), &ds);
                    }
                }
                "C12" => {
                    let keys: Vec<Value> = (0..n).map(|i| json!(format!("k{}", i))).collect();
                    let mut m = serde_json::Map::new();
                    for i in 0..n {
                        if i != p {
                            m.insert(format!("k{}", i), grid[i % grid.len()].clone());
                        }
                    }
                    let d = Value::Object(m);
                    ctx.check("sweep:missing:one-absent", &json!({ "missing": keys }), &d);
                    ctx.check("sweep:missing_some:one-absent", &json!({"missing_some": [n, keys]}), &d);
                    ctx.check("sweep:missing_some:one-absent:enough", &json!({"missing_some": [1, keys]}), &d);
                    // the same key twice around p
                    let mut dup = keys.clone();
                    dup.insert(p, json!(format!("k{}", n - 1 - p)));
                    ctx.check("sweep:missing:repeated-key", &json!({ "missing": dup }), &json!({}));
                    ctx.check("sweep:missing_some:repeated-key", &json!({"missing_some": [1, dup]}), &json!({}));
                }
                "C13" => {
                    if n >= 3 {
                        // two and three rejected elements (next to each other, far apart, at the ends)
                        for rej in [vec![p, (p + 1) % n], vec![p, n - 1 - p.min(n - 1)], vec![0, p, n - 1], vec![p, (p + n / 3) % n, (p + 2 * n / 3) % n]] {
                            ctx.check("sweep:filter:few-rejected", &json!({"filter": [{"var": "xs"}, {"!": [{"in": [{"var": ""}, rej]}]}]}), &dv);
                        }
                        ctx.check("sweep:filter:few-kept", &json!({"filter": [{"var": "xs"}, {"in": [{"var": ""}, [p, (p + 1) % n, n - 1]]}]}), &dv);
                    }
                    ctx.check("sweep:filter:one", &json!({"filter": [{"var": "xs"}, {"==": [{"var": ""}, p]}]}), &dv);
                    ctx.check("sweep:filter:all-but-one", &json!({"filter": [{"var": "xs"}, {"!=": [{"var": ""}, p]}]}), &dv);
                    ctx.check("sweep:filter:literal:one", &json!({"filter": [xs, {"==": [{"var": ""}, p]}]}), &null);
                    ctx.check("sweep:map:error-at", &json!({"map": [{"var": "xs"}, {"/": [1, {"-": [{"var": ""}, p]}]}]}), &dv);
                    ctx.check("sweep:reduce:pick", &json!({"reduce": [{"var": "xs"}, {"if": [{"==": [{"var": "current"}, p]}, "hit", {"var": "accumulator"}]}, "init"]}), &dv);
                }
                "C14" => {
                    let s = cyc_string(n, p, '!');
                    let dsv = json!({ "xs": xs, "s": s });
                    for (k, pred) in [("all", json!({"!=": [{"var": ""}, p]})), ("some", json!({"==": [{"var": ""}, p]})), ("none", json!({"==": [{"var": ""}, p]}))] {
                        ctx.check(&format!("sweep:{}:decided-at", k), &al::op(k, vec![json!({"var": "xs"}), pred.clone()]), &dsv);
                        ctx.check(&format!("sweep:{}:literal:decided-at", k), &al::op(k, vec![json!(xs), pred]), &null);
                    }
                    for (k, pred) in [("all", json!({"!=": [{"var": ""}, "!"]})), ("some", json!({"==": [{"var": ""}, "!"]})), ("none", json!({"==": [{"var": ""}, "!"]}))] {
                        ctx.check(&format!("sweep:{}:string:decided-at", k), &al::op(k, vec![json!({"var": "s"}), pred]), &dsv);
                    }
                    if p == n - 1 {
                        for (k, pred) in [("all", json!({"<": [{"var": ""}, n]})), ("some", json!({"==": [{"var": ""}, n]})), ("none", json!({"==": [{"var": ""}, n]}))] {
                            ctx.check(&format!("sweep:{}:undecided", k), &al::op(k, vec![json!({"var": "xs"}), pred]), &dsv);
                        }
                    }
                }
                "C15" => {
                    for nd in [json!(p), json!(p as f64), json!(p.to_string())] {
                        ctx.check("sweep:in:array", &json!({"in": [nd, {"var": "xs"}]}), &dv);
                    }
                    if p == 0 || p == n - 1 {
                        // two string haystacks of the same length and shape, one after the other, the needle in one only
                        let hs: Vec<Value> = (0..n).map(|i| json!(format!("s{:04}", i))).collect();
                        let ht: Vec<Value> = (0..n).map(|i| json!(format!("t{:04}", i))).collect();
                        let nd = json!(format!("s{:04}", p));
                        ctx.check("sweep:in:strings", &json!({"in": [nd, {"var": "h"}]}), &json!({ "h": hs }));
                        ctx.check("sweep:in:strings:twin", &json!({"in": [nd, {"var": "h"}]}), &json!({ "h": ht }));
                        ctx.check("sweep:in:strings:both", &json!({"and": [{"in": [nd, hs]}, {"!": [{"in": [nd, ht]}]}]}), &null);
                    }
                    // array needle against elements that differ from it at p only (and one that does not)
                    let other: Vec<Value> = (0..n).map(|i| if i == p { json!(-1) } else { json!(i) }).collect();
                    let floats: Vec<Value> = (0..n).map(|i| json!(i as f64)).collect();
                    ctx.check("sweep:in:array-needle:differs-at", &json!({"in": [{"var": "xs"}, [other]]}), &dv);
                    {
                        // ... and where one side holds a container ([p], {"v":p}) and the other the scalar
                        let boxed: Vec<Value> = (0..n).map(|i| if i == p { json!([i]) } else { json!(i) }).collect();
                        let objd: Vec<Value> = (0..n).map(|i| if i == p { json!({ "v": i }) } else { json!(i) }).collect();
                        ctx.check("sweep:in:array-needle:container-at", &json!({"in": [{"var": "xs"}, [boxed]]}), &dv);
                        ctx.check("sweep:in:array-needle:container-at", &json!({"in": [boxed, [{"var": "xs"}, "x"]]}), &dv);
                        ctx.check("sweep:in:array-needle:container-at", &json!({"in": [{"var": "xs"}, [objd, boxed]]}), &dv);
                        ctx.check("sweep:in:array-needle:container-at:same", &json!({"in": [boxed, [objd, boxed]]}), &dv);
                    }
                    ctx.check("sweep:in:array-needle:differs-at:nested", &json!({"in": [[{"var": "xs"}], [[other], "x"]]}), &dv);
                    if p == n - 1 {
                        ctx.check("sweep:in:array-needle:same", &json!({"in": [{"var": "xs"}, [other, floats]]}), &dv);
                    }
                    let s = cyc_string(n, p, '!');
                    ctx.check("sweep:in:string", &json!({"in": ["!", {"var": "s"}]}), &json!({ "s": s }));
                    ctx.check("sweep:in:string:absent", &json!({"in": ["!!", {"var": "s"}]}), &json!({ "s": s }));
                }
                "C16" => {
                    // ASCII everywhere but for ONE multi-byte character at p (whole ASCII blocks before and after it)
                    {
                        let mb = ['é', '水', '😀'][p % 3];
                        let s1: String = (0..n).map(|i| if i == p { mb } else { char::from(b'a' + (i % 26) as u8) }).collect();
                        let ds1 = json!({ "s": s1 });
                        let h = (n / 2) as i64;
                        for (a, b) in [(0i64, None), (h, None), (-(n as i64) / 3 - 1, None), (0, Some(n as i64 - 1)), (0, Some(h + 1)), (p as i64, Some(1)), (p as i64 + 1, None), (1, Some(-1)), (h, Some(-1)), (-1, None)] {
                            let mut args = vec![json!({"var": "s"}), json!(a)];
                            if let Some(b) = b {
                                args.push(json!(b));
                            }
                            ctx.check("sweep:substr:one-multibyte-at", &json!({ "substr": args }), &ds1);
                        }
                        ctx.check("sweep:cat:one-multibyte-at", &json!({"cat": [{"var": "s"}, "|", {"substr": [{"var": "s"}, h]}]}), &ds1);
                    }
                    let parts: Vec<Value> = (0..n).map(|i| if i == p { Value::Null } else { json!("é") }).collect();
                    ctx.check("sweep:cat:null-at", &json!({ "cat": parts }), &null);
                    let s = cyc_string(n, p, '!');
                    let back = (n - p) as i64;
                    let ds = json!({ "s": s });
                    ctx.check("sweep:substr:neg-start", &json!({"substr": [{"var": "s"}, -back, 1]}), &ds);
                    ctx.check("sweep:substr:neg-length", &json!({"substr": [{"var": "s"}, 0, -back]}), &ds);
                    ctx.check("sweep:substr:start", &json!({"substr": [{"var": "s"}, p, 1]}), &ds);
                }
                _ => {}
            }
        }
    }
}

/// Short strings around one character per UTF-8 lead byte (first and last character of each): every
/// way of counting, indexing, splitting and searching characters, with the shortest possible witness.
pub fn lead_byte_probes(ctx: &mut Ctx) {
    let prop = ctx.prop.clone();
    let null = Value::Null;
    for c in al::lead_byte_chars() {
        if !ctx.mine() {
            continue;
        }
        for s in [format!("a{}b", c), format!("{}", c), format!("{}{}", c, c), format!("{}b{}", c, c), format!("0{}", c), format!("0{}1", c), format!("1{}", c), format!(" 0{}", c), format!("-{}", c)] {
            ctx.edge();
            let ds = json!({ "s": s, "c": c.to_string() });
            let n = s.chars().count() as i64;
            match prop.as_str() {
                "C16" => {
                    for a in -n - 1..=n + 1 {
                        ctx.check("lead-bytes:substr", &json!({"substr": [{"var": "s"}, a]}), &ds);
                        for b in [-n - 1, -2, -1, 0, 1, 2] {
                            ctx.check("lead-bytes:substr", &json!({"substr": [s, a, b]}), &null);
                        }
                    }
                    ctx.check("lead-bytes:cat", &json!({"cat": [{"var": "s"}, [s], {"var": "c"}]}), &ds);
                }
                "C11" => {
                    for a in -n - 1..=n {
                        ctx.check("lead-bytes:var:string-index", &json!({"var": [format!("s.{}", a), "dflt"]}), &ds);
                        ctx.check("lead-bytes:var:int-key", &json!({"var": [a, "dflt"]}), &json!(s));
                    }
                    ctx.check("lead-bytes:var:key", &json!({"var": s}), &json!({ s.clone(): 1, "a": 2 }));
                }
                "C12" => {
                    ctx.check("lead-bytes:missing:key", &json!({"missing": [s, {"var": "c"}, "s.0", "s.-1", format!("s.{}", n)]}), &json!({ s.clone(): 1, "s": s, "c": "c" }));
                }
                "C14" => {
                    for k in ["all", "some", "none"] {
                        ctx.check("lead-bytes:quantifier", &al::op(k, vec![json!({"var": "s"}), json!({"===": [{"var": ""}, {"var": "c"}]})]), &ds);
                        ctx.check("lead-bytes:quantifier", &al::op(k, vec![json!(s), json!({"===": [{"var": ""}, c.to_string()]})]), &null);
                    }
                }
                "C13" => {
                    ctx.check("lead-bytes:map", &json!({"map": [[s, c.to_string()], {"cat": [{"var": ""}, "|"]}]}), &null);
                }
                "C10" => {
                    for k in ["-", "*", "+", "max", "min", "/", "%"] {
                        ctx.check("lead-bytes:number", &al::op(k, vec![json!(s), json!(1)]), &null);
                        ctx.check("lead-bytes:number", &al::op(k, vec![json!(2), json!({"var": "s"})]), &ds);
                    }
                }
                "C15" => {
                    ctx.check("lead-bytes:in", &json!({"in": [{"var": "c"}, {"var": "s"}]}), &ds);
                    ctx.check("lead-bytes:in", &json!({"in": [format!("{}b", c), s]}), &null);
                    ctx.check("lead-bytes:in", &json!({"in": [format!("b{}", c), s]}), &null);
                    ctx.check("lead-bytes:in:array", &json!({"in": [{"var": "c"}, ["a", s, c.to_string()]]}), &ds);
                }
                "C07" | "C08" | "C09" => {
                    let ops: &[&str] = match prop.as_str() {
                        "C07" => &["==", "!="],
                        "C08" => &["===", "!=="],
                        _ => &["<", "<=", ">", ">="],
                    };
                    for k in ops {
                        for t in ["a", "b", "\u{7f}", "\u{80}", "\u{7ff}", "\u{800}", "\u{d7ff}", "\u{e000}", "\u{ffff}", "\u{10000}", "\u{10ffff}"] {
                            ctx.check("lead-bytes:compare", &al::op(k, vec![json!(s), json!(t)]), &null);
                            ctx.check("lead-bytes:compare", &al::op(k, vec![json!({"var": "c"}), json!(format!("{}{}", t, c))]), &ds);
                        }
                        ctx.check("lead-bytes:compare:same", &al::op(k, vec![json!({"var": "s"}), json!(s)]), &ds);
                        ctx.check("lead-bytes:compare:number", &al::op(k, vec![json!(s), json!(0)]), &null);
                        ctx.check("lead-bytes:compare:number", &al::op(k, vec![json!(1), json!({"var": "s"})]), &ds);
                    }
                }
                _ => {}
            }
        }
    }
}

/// Confusable pairs: two different strings that some normalisation (line endings, Unicode normal forms,
/// case folding, trimming, numeric canonicalisation, unescaping) would make equal, in every position where
/// strings are compared, searched, used as keys or passed through: the library compares and copies
/// strings code point by code point and never normalises.
pub fn confusable_probes(ctx: &mut Ctx) {
    let prop = ctx.prop.clone();
    let null = Value::Null;
    for (a, b) in al::confusable_pairs() {
        if !ctx.mine() {
            continue;
        }
        for (a, b) in [(a.clone(), b.clone()), (b.clone(), a.clone())] {
            ctx.edge();
            let dv = json!({"a": a, "b": b, "pair": [a, b], "o": {b.clone(): "under-b"}});
            let (va, vb) = (json!({"var": "a"}), json!({"var": "b"}));
            match prop.as_str() {
                "C07" | "C08" | "C09" => {
                    let ops: &[&str] = match prop.as_str() {
                        "C07" => &["==", "!="],
                        "C08" => &["===", "!=="],
                        _ => &["<", "<=", ">", ">="],
                    };
                    for k in ops {
                        ctx.check("confusable:L", &al::op(k, vec![json!(a), json!(b)]), &null);
                        ctx.check("confusable:V", &al::op(k, vec![va.clone(), vb.clone()]), &dv);
                        ctx.check("confusable:mixed", &al::op(k, vec![json!(a), vb.clone()]), &dv);
                        ctx.check("confusable:array-vs-string", &al::op(k, vec![json!([a]), json!(b)]), &null);
                        ctx.check("confusable:same", &al::op(k, vec![va.clone(), json!(a)]), &dv);
                        if prop == "C09" {
                            ctx.check("confusable:between", &al::op(k, vec![json!(a), vb.clone(), json!(a)]), &dv);
                        }
                    }
                }
                "C15" => {
                    ctx.check("confusable:in:array", &json!({"in": [a, [b]]}), &null);
                    ctx.check("confusable:in:array", &json!({"in": [va, [b, "x", a]]}), &dv);
                    ctx.check("confusable:in:array", &json!({"in": [va, {"var": "pair"}]}), &dv);
                    ctx.check("confusable:in:array", &json!({"in": [[a], [[b], "x"]]}), &null);
                    ctx.check("confusable:in:string", &json!({"in": [a, vb]}), &dv);
                    ctx.check("confusable:in:string", &json!({"in": [a, format!("x{}y", b)]}), &null);
                    ctx.check("confusable:merge", &json!({"merge": [a, [b], vb]}), &dv);
                }
                "C11" => {
                    for d in [json!({b.clone(): 1}), json!({a.clone(): 1, b.clone(): 2}), json!({b.clone(): 2, a.clone(): 1}), json!([10, 20, 30]), json!("xyz"), json!({"a": [10, 20, 30], "1": "one", "7": "seven", "0": "zero"})] {
                        ctx.check("confusable:var:key", &json!({"var": [a, "dflt"]}), &d);
                        ctx.check("confusable:var:key:bare", &json!({ "var": a }), &d);
                        ctx.check("confusable:var:key:under", &json!({"var": [format!("a.{}", a), "dflt"]}), &d);
                    }
                    ctx.check("confusable:var:key:computed", &json!({"var": [va, "dflt"]}), &dv);
                    ctx.check("confusable:var:key:nested", &json!({"var": [format!("o.{}", a), "dflt"]}), &dv);
                }
                "C12" => {
                    for d in [json!({b.clone(): 1}), json!({a.clone(): 1, b.clone(): 2}), json!([10, 20, 30]), json!({"a": [10, 20, 30], "1": "one", "7": "seven", "0": "zero"})] {
                        ctx.check("confusable:missing", &json!({"missing": [a, b]}), &d);
                        ctx.check("confusable:missing", &json!({"missing": [a, format!("a.{}", a)]}), &d);
                        ctx.check("confusable:missing_some", &json!({"missing_some": [2, [a, b]]}), &d);
                        ctx.check("confusable:missing_some", &json!({"missing_some": [1, [a, "zz"]]}), &d);
                    }
                }
                "C13" => {
                    ctx.check("confusable:filter", &json!({"filter": [{"var": "pair"}, {"===": [{"var": ""}, a]}]}), &dv);
                    ctx.check("confusable:map", &json!({"map": [[a, b], {"cat": [{"var": ""}, "|"]}]}), &null);
                    ctx.check("confusable:reduce", &json!({"reduce": [{"var": "pair"}, {"cat": [{"var": "accumulator"}, {"var": "current"}]}, a]}), &dv);
                }
                "C14" => {
                    for k in ["all", "some", "none"] {
                        ctx.check("confusable:quantifier", &al::op(k, vec![json!({"var": "pair"}), json!({"===": [{"var": ""}, a]})]), &dv);
                        ctx.check("confusable:quantifier:string", &al::op(k, vec![json!(a), json!({"in": [{"var": ""}, b]})]), &null);
                    }
                }
                "C16" => {
                    ctx.check("confusable:cat", &json!({"cat": [a]}), &null);
                    ctx.check("confusable:cat", &json!({"cat": [va, "|", vb, [a]]}), &dv);
                    for i in [0i64, 1, -1, -2] {
                        ctx.check("confusable:substr", &json!({"substr": [a, i]}), &null);
                        ctx.check("confusable:substr", &json!({"substr": [va, 0, i]}), &dv);
                    }
                }
                "C10" => {
                    for k in ["+", "-", "*", "max", "min"] {
                        ctx.check("confusable:number", &al::op(k, vec![json!(a)]), &null);
                        ctx.check("confusable:number", &al::op(k, vec![va.clone(), json!(1)]), &dv);
                    }
                    ctx.check("confusable:number", &json!({"/": [a, 1]}), &null);
                    ctx.check("confusable:number", &json!({"%": [7, a]}), &null);
                }
                "C02" => {
                    // against data in which the look-alike spelling names something else
                    for d in [dv.clone(), json!({"a": "A!", "b": "B!", "pair": ["P0", "P1"], "o": {"a": "OA"}, "1": "one", "0": "zero"}), json!(["x", "y"]), json!("st")] {
                        ctx.check("confusable:literal", &json!(a), &d);
                        ctx.check("confusable:literal", &json!([a, b]), &d);
                        ctx.check("confusable:literal", &json!({a.clone(): b, "k": a}), &d);
                        ctx.check("confusable:literal", &json!({"if": [true, a, b]}), &d);
                        ctx.check("confusable:literal", &json!({"cat": ["<", a, ">"]}), &d);
                        ctx.check("confusable:literal", &json!({"merge": [[a], b]}), &d);
                    }
                }
                "C05" | "C06" => {
                    ctx.check("confusable:truthiness", &json!({"!!": [a]}), &null);
                    ctx.check("confusable:truthiness", &json!({"if": [va, vb, "else"]}), &dv);
                    ctx.check("confusable:truthiness", &json!({"or": [a, b]}), &null);
                    ctx.check("confusable:truthiness", &json!({"and": [va, vb]}), &dv);
                }
                _ => {}
            }
        }
    }
}

/// Per-element expressions, predicates and operands that contain an ill-formed operation where evaluation
/// never arrives: the value is that of the reached part (see `alphabet::unreached_illformed`).
pub fn unreached_probes(ctx: &mut Ctx) {
    let prop = ctx.prop.clone();
    if !["C05", "C13", "C14"].contains(&prop.as_str()) {
        return;
    }
    let d = json!({"xs": [1, 0, "", "a", [0]], "s": "a0", "ones": [1, 1], "zeros": [0, ""], "v": 0, "w": "w"});
    let current = json!({"var": ""});
    for e in al::unreached_illformed(&current) {
        if !ctx.mine() {
            continue;
        }
        for coll in [json!({"var": "xs"}), json!([1, 0, {"var": "w"}]), json!({"var": "s"}), json!("a0"), json!({"var": "ones"}), json!({"var": "zeros"}), json!([[], [0]])] {
            ctx.edge();
            match prop.as_str() {
                "C13" => {
                    ctx.check("unreached:map", &json!({"map": [coll, e]}), &d);
                    ctx.check("unreached:filter", &json!({"filter": [coll, e]}), &d);
                    ctx.check("unreached:reduce", &json!({"reduce": [coll, {"cat": [{"var": "accumulator"}, rewrite_current(&e)]}, ""]}), &d);
                }
                "C14" => {
                    for k in ["all", "some", "none"] {
                        ctx.check(&format!("unreached:{}", k), &al::op(k, vec![coll.clone(), e.clone()]), &d);
                    }
                    // one quantifier inside another: the inner predicate is the one with the unreached part
                    ctx.check("unreached:nested", &json!({"some": [[coll, "x"], {"all": [{"var": ""}, e]}]}), &d);
                }
                _ => {}
            }
        }
    }
    if prop == "C05" {
        for x in [json!({"var": "v"}), json!({"var": "w"}), json!(0), json!("a"), json!([]), json!({"var": "nope"})] {
            if !ctx.mine() {
                continue;
            }
            for e in al::unreached_illformed(&x) {
                ctx.edge();
                ctx.check("unreached:direct", &e, &d);
                ctx.check("unreached:operand", &json!({"cat": ["<", e, ">"]}), &d);
                ctx.check("unreached:branch", &json!({"if": [{"var": "v"}, {"==": [1]}, e]}), &d);
            }
        }
    }
}

/// the per-element expression of map / filter re-targeted at reduce's `current`
fn rewrite_current(e: &Value) -> Value {
    match e {
        Value::Object(m) if m.len() == 1 && m.contains_key("var") && m["var"] == json!("") => json!({"var": "current"}),
        Value::Object(m) => Value::Object(m.iter().map(|(k, v)| (k.clone(), rewrite_current(v))).collect()),
        Value::Array(a) => Value::Array(a.iter().map(rewrite_current).collect()),
        v => v.clone(),
    }
}

/// C17, clause "its only externally visible effect is the single line written by each evaluated log":
/// every operator over the value corpora whose conversions have rarely taken branches (white-space blocks,
/// mutated and radix literals, digit strings at the integer limits, the magnitude ladder, long renderings);
/// whatever reaches stdout or stderr during a call is observed and compared with the lines R's evaluated
/// `log` operations account for.
/// The caller edits its own rule and data between calls (same values, same addresses, new contents), for narrow and
/// wide documents, and moves other documents into the same slot: every call sees the contents of its arguments as
/// they are now.
pub fn edited_in_place_probes(ctx: &mut Ctx) {
    for width in [1usize, 2, 15, 16, 17, 40, 300] {
        if !ctx.mine() {
            continue;
        }
        let build = |scale: i64| -> Value {
            let mut m = serde_json::Map::new();
            for i in 0..width {
                m.insert(format!("k{}", i), json!({"n": i as i64 * scale, "tag": format!("t{}", i)}));
            }
            Value::Object(m)
        };
        let mut slot: Vec<Value> = vec![build(1)];
        let mut rule = json!({"var": "k0.n"});
        let last = format!("k{}.tag", width - 1);
        for step in 0..6 {
            ctx.edge();
            ctx.check("edited-in-place:var", &rule, &slot[0]);
            ctx.check("edited-in-place:var:last", &json!({ "var": last }), &slot[0]);
            ctx.check("edited-in-place:missing", &json!({"missing": ["k0.n", "k0.gone", last]}), &slot[0]);
            ctx.check("edited-in-place:map", &json!({"map": [[1, 2], {"var": "n"}]}), &slot[0]);
            match step {
                0 => slot[0]["k0"]["n"] = json!(1000),
                1 => {
                    slot[0]["k0"].as_object_mut().unwrap().remove("n");
                }
                2 => slot[0] = build(7),
                3 => {
                    // the rule is edited in place, too
                    if let Some(Value::String(s)) = rule.get_mut("var") {
                        s.replace_range(3.., "tag");
                    }
                }
                4 => {
                    slot[0].as_object_mut().unwrap().insert("k0".into(), json!("replaced"));
                }
                _ => {}
            }
        }
        // arrays: same length, new contents, same slot
        let mut arr: Vec<Value> = vec![Value::Array((0..width.max(2)).map(|i| json!(format!("a{:03}", i))).collect())];
        for step in 0..3 {
            ctx.check("edited-in-place:in", &json!({"in": ["a001", {"var": ""}]}), &arr[0]);
            ctx.check("edited-in-place:index", &json!({"var": 1}), &arr[0]);
            if step == 0 {
                arr[0][1] = json!("b001");
            } else {
                arr[0] = Value::Array((0..width.max(2)).map(|i| json!(format!("c{:03}", i))).collect());
            }
        }
    }
}

pub fn effects_probes(ctx: &mut Ctx) {
    edited_in_place_probes(ctx);
    path_twin_probes(ctx);
    twin_sequence_probes(ctx);
    environment_probes(ctx);
    if ctx.mine() {
        // one parsed rule applied to many elements: what is computed for one element (a key, a path, a converted
        // number) is not remembered for the next
        let people = json!([{"pick": "home", "home": "h-1", "work": "w-1", "n": "0x10"}, {"pick": "work", "home": "h-2", "work": "w-2", "n": "0x1g"}, {"pick": "none", "home": "h-3", "n": "0x11"}, {"pick": "home.0", "home": ["h-4"], "n": "17"}]);
        let outer = json!({"people": people, "pick": "OUTER"});
        for e in [json!({"var": {"var": "pick"}}), json!({"var": [{"var": "pick"}, "dflt"]}), json!({"missing": [{"var": "pick"}]}), json!({"var": {"cat": [{"var": "pick"}]}}), json!({"+": [{"var": "n"}, 0]}), json!({"<": [{"var": "n"}, 17]}),
                  json!({"cat": [{"var": {"var": "pick"}}, "|", {"var": "home"}]}), json!({"substr": [{"var": "home"}, {"-": [0, {"+": [{"var": "n"}]}]}]})] {
            for h in ["map", "filter", "all", "some", "none"] {
                ctx.edge();
                ctx.check("effects:per-element-state", &al::op(h, vec![json!({"var": "people"}), e.clone()]), &outer);
            }
            ctx.check("effects:per-element-state", &json!({"reduce": [{"var": "people"}, {"merge": [{"var": "accumulator"}, [rewrite_scope(&e)]]}, []]}), &outer);
        }
    }
    let mut vals = crate::selftest::unary_corpus();
    vals.extend(al::magnitude_ladder());
    vals.extend(al::type_grid());
    vals.extend(al::long_render_values().into_iter().step_by(5));
    vals.extend(al::decimal_strings().into_iter().step_by(3));
    vals.extend(al::lead_byte_chars().into_iter().map(|c| json!(format!("a{}", c))));
    let vals = al::dedup(vals);
    let x = json!({"var": "x"});
    for v in &vals {
        if !ctx.mine() {
            continue;
        }
        let d = json!({ "x": v });
        let mut rules: Vec<Value> = Vec::new();
        for k in ["+", "-", "*", "max", "min", "!", "!!", "cat", "merge", "log"] {
            rules.push(al::op(k, vec![x.clone()]));
        }
        for k in ["+", "-", "*", "/", "%", "max", "min", "<", "<=", ">", ">=", "==", "!=", "===", "!==", "cat", "merge", "in", "substr", "and", "or"] {
            rules.push(al::op(k, vec![x.clone(), json!(3)]));
            rules.push(al::op(k, vec![json!("7"), x.clone()]));
        }
        rules.push(json!({"<": [0, x, 1e300]}));
        rules.push(json!({"in": [x, ["1", 1, [1]]]}));
        rules.push(json!({"var": [x, "dflt"]}));
        rules.push(json!({"missing": [x]}));
        rules.push(json!({"if": [x, "t", "f"]}));
        rules.push(json!({"map": [[x, 1], {"+": [{"var": ""}, 0]}]}));
        rules.push(json!({"filter": [[1, 2], x]}));
        rules.push(json!({"reduce": [[1, 2], {"max": [{"var": "current"}, {"var": "accumulator"}]}, x]}));
        rules.push(json!({"some": [x, {"==": [{"var": ""}, "a"]}]}));
        for r in rules {
            ctx.edge();
            ctx.check("effects:only-log-lines", &r, &d);
        }
        if !al::is_operation_shaped(v) {
            ctx.check("effects:only-log-lines:literal", &json!({"*": [v, 1]}), &Value::Null);
            ctx.check("effects:only-log-lines:literal", &json!({"<": [v, "0x10"]}), &Value::Null);
        }
    }
}

/// An ill-formed operation (any operator with any rejected operand count, bracketed or bare) in every position
/// that IS evaluated - conditions, selected branches, operands of and / or up to the deciding one, predicates
/// and per-element expressions over non-empty collections, negations: the whole rule is an error, never a
/// value made up from the malformed part (R decides; positions that are not reached stay unjudged there).
pub fn illformed_probes(ctx: &mut Ctx) {
    let prop = ctx.prop.clone();
    if !["C05", "C06", "C13", "C14"].contains(&prop.as_str()) {
        return;
    }
    let d = json!({"xs": [1, 0, 2], "s": "ab", "t": 1, "f": 0, "rows": [{"a": 1}, {"a": 2, "b": 0}, {"other": 3}], "objs": [{"a": 1}, {"a": 1}]});
    for b in crate::spaces::c03::illformed() {
        if !ctx.mine() {
            continue;
        }
        ctx.edge();
        let rules: Vec<Value> = match prop.as_str() {
            "C05" | "C06" => vec![
                json!({"if": [b, "then", "else"]}), json!({"if": [{"var": "f"}, "a", b, "b", "c"]}), json!({"if": [{"var": "t"}, b, "else"]}), json!({"if": [{"var": "f"}, "then", b]}),
                json!({"?:": [b, 1, 2]}), json!({"and": [b, 1]}), json!({"and": [{"var": "t"}, b]}), json!({"or": [b, 1]}), json!({"or": [{"var": "f"}, b]}),
                json!({"!": [b]}), json!({"!!": [b]}), json!({"!": b}), json!({"if": [{"!": [b]}, 1, 2]}), json!({"if": [{"!!": b}, 1, 2]}),
                json!({"if": [{"and": [{"var": "t"}, b]}, 1, 2]}), json!({"if": [b]}), json!({"and": [b]}), json!({"or": [b]}),
            ],
            "C13" => vec![
                json!({"map": [{"var": "xs"}, b]}), json!({"filter": [{"var": "xs"}, b]}), json!({"reduce": [{"var": "xs"}, b, 0]}), json!({"map": [[1], b]}),
                json!({"map": [b, 1]}), json!({"filter": [b, true]}), json!({"reduce": [[1], 1, b]}), json!({"map": [[b], 1]}),
                json!({"filter": [{"var": "xs"}, {"!": [b]}]}), json!({"map": [{"var": "xs"}, {"if": [{"var": ""}, b, "zero"]}]}),
                // over records only (every element an object)
                json!({"map": [{"var": "rows"}, b]}), json!({"filter": [{"var": "rows"}, b]}), json!({"filter": [{"var": "objs"}, b]}), json!({"map": [[{"a": 1}, {"a": 2}], b]}),
                json!({"reduce": [{"var": "objs"}, b, 0]}),
            ],
            _ => vec![
                json!({"all": [{"var": "xs"}, b]}), json!({"some": [{"var": "xs"}, b]}), json!({"none": [{"var": "xs"}, b]}), json!({"all": [{"var": "s"}, b]}),
                json!({"some": [[1], b]}), json!({"all": [b, true]}), json!({"some": [[b], true]}), json!({"none": [[0, b], {"var": ""}]}), json!({"all": [[1, b], {"var": ""}]}),
                json!({"some": [{"var": "xs"}, {"!": [b]}]}), json!({"all": [{"var": "xs"}, {"or": [{"var": ""}, b]}]}),
                json!({"all": [{"var": "rows"}, b]}), json!({"some": [{"var": "objs"}, b]}), json!({"none": [{"var": "rows"}, b]}),
            ],
        };
        for r in rules {
            ctx.check("ill-formed:evaluated-position", &r, &d);
        }
    }
}

/// Per-element expressions and predicates that read the current element WITHOUT `var` - through `missing` /
/// `missing_some` - alone and under negation, selection and comparison, over collections whose elements give
/// different verdicts (first kept / first dropped, verdicts alternating, all alike), and constant predicates
/// next to them: a predicate is evaluated against every element, whether or not it "looks" element-dependent.
pub fn element_reader_probes(ctx: &mut Ctx) {
    let prop = ctx.prop.clone();
    if !["C06", "C13", "C14"].contains(&prop.as_str()) {
        return;
    }
    let colls = [
        json!([{"p": 1}, {"q": 2}, {"p": 3}, {}]), json!([{"q": 2}, {"p": 1}]), json!([{}, {}, {"p": null}]), json!([{"p": 0}, {"p": ""}]), json!([["x"], [], ["y", "z"]]),
        json!([{"p": 1, "q": 1}, {"p": 1}, {"q": 1}, {}, {"p": 1, "q": 1}]), json!(["ab", ""]), json!([1]),
    ];
    let preds = [
        json!({"missing": ["p"]}), json!({"missing": "p"}), json!({"missing": ["p", "q"]}), json!({"missing": [0]}), json!({"missing": [1]}), json!({"missing_some": [1, ["p", "q"]]}), json!({"missing_some": [2, ["p", "q"]]}),
        json!({"!": {"missing": ["p"]}}), json!({"!!": [{"missing": ["p"]}]}), json!({"if": [{"missing": ["p"]}, 0, 1]}), json!({"in": ["q", {"missing": ["p", "q"]}]}),
        json!({"==": [{"cat": [{"missing": ["p", "q"]}]}, "q"]}), json!({"and": [true, {"missing": ["p"]}]}), json!({"or": [false, {"missing_some": [1, ["p"]]}]}),
        json!({"merge": [{"missing": ["p"]}, {"missing": ["q"]}]}), json!({"missing": []}), json!({"missing": [[]]}),
    ];
    for c in &colls {
        if !ctx.mine() {
            continue;
        }
        for p in &preds {
            ctx.edge();
            let d = json!({"c": c, "p": "outer-p"});
            let hosts: &[&str] = match prop.as_str() {
                "C13" => &["map", "filter"],
                "C14" => &["all", "some", "none"],
                _ => &["filter", "all", "some", "none"],
            };
            for h in hosts {
                ctx.check("element-read-by-missing:V", &al::op(h, vec![json!({"var": "c"}), p.clone()]), &d);
                ctx.check("element-read-by-missing:L", &al::op(h, vec![c.clone(), p.clone()]), &d);
            }
            if prop == "C13" {
                ctx.check("element-read-by-missing:reduce", &json!({"reduce": [{"var": "c"}, {"merge": [{"var": "accumulator"}, {"missing": ["current.p", "accumulator.0"]}]}, []]}), &d);
            }
        }
    }
}

/// Pipelines: an iteration operator (or merge / if) as the COLLECTION argument of another one. The inner call
/// runs to completion first - its value is the outer collection - so the outer expression never sees an
/// element the inner one dropped or before the inner one changed it, errors and `log` lines come in that
/// order, and an outer expression that fails only on dropped elements does not fail.
pub fn pipeline_probes(ctx: &mut Ctx) {
    let prop = ctx.prop.clone();
    if !["C13", "C14"].contains(&prop.as_str()) {
        return;
    }
    let cur = json!({"var": ""});
    let colls = [json!([1, 0, 3, 4]), json!([0]), json!([]), json!([2, "a", 0]), json!(["ab", 7, "cd"]), json!([0, 0, 5])];
    let inners: Vec<(&str, Value)> = vec![
        ("filter", json!({"!==": [cur, 0]})), ("filter", json!({"log": cur})), ("filter", json!({"!==": [cur, 7]})), ("filter", cur.clone()), ("filter", json!(true)), ("filter", json!(false)),
        ("map", json!({"+": [cur, 1]})), ("map", json!({"log": cur})), ("map", json!({"if": [cur, cur, "zero"]})), ("map", json!([cur])),
    ];
    let outers: Vec<Value> = vec![
        json!({"/": [12, cur]}), json!({"log": {"cat": ["p", cur]}}), json!({"substr": [cur, 0, 1]}), json!({"-": [cur, 1]}), json!({"in": [1, cur]}), json!({"<": [cur, 4]}), cur.clone(), json!({"/": [1, {"-": [cur, 1]}]}),
    ];
    let hosts: &[&str] = if prop == "C13" { &["map", "filter", "reduce"] } else { &["all", "some", "none"] };
    for c in &colls {
        if !ctx.mine() {
            continue;
        }
        let d = json!({ "xs": c });
        for (ik, f) in &inners {
            for g in &outers {
                ctx.edge();
                for src in [json!({"var": "xs"}), c.clone()] {
                    let inner = al::op(ik, vec![src, f.clone()]);
                    for h in hosts {
                        let r = if *h == "reduce" {
                            json!({"reduce": [inner, {"cat": [{"var": "accumulator"}, rewrite_current(g)]}, ""]})
                        } else {
                            al::op(h, vec![inner.clone(), g.clone()])
                        };
                        ctx.check("pipeline", &r, &d);
                    }
                }
                // three stages, and the inner collection wrapped by merge / if
                ctx.check("pipeline:3", &al::op(hosts[0], vec![json!({"map": [al::op(ik, vec![json!({"var": "xs"}), f.clone()]), cur]}), g.clone()]), &d);
                ctx.check("pipeline:merge", &al::op(hosts[0], vec![json!({"merge": [al::op(ik, vec![json!({"var": "xs"}), f.clone()])]}), g.clone()]), &d);
                ctx.check("pipeline:if", &al::op(hosts[0], vec![json!({"if": [true, al::op(ik, vec![json!({"var": "xs"}), f.clone()])]}), g.clone()]), &d);
            }
        }
    }
}

/// Numbers with the longest JSON texts (see `alphabet::long_number_texts`) through every operator that hands a
/// value on, renders it or converts it: what comes out is the same double, digit for digit.
pub fn number_text_probes(ctx: &mut Ctx) {
    let prop = ctx.prop.clone();
    if prop == "C10" {
        // remainders and quotients over the whole magnitude ladder (whole doubles of any size have exact remainders)
        let lad = al::magnitude_ladder();
        for v in &lad {
            if !ctx.mine() {
                continue;
            }
            ctx.edge();
            for m in [json!(10), json!(7), json!(-3), json!(2.5), json!(1e15), json!(4294967296u64), json!("3"), v.clone()] {
                ctx.check("ladder:%", &json!({"%": [v, m]}), &Value::Null);
                ctx.check("ladder:%:reversed", &json!({"%": [m, v]}), &Value::Null);
                ctx.check("ladder:/", &json!({"/": [v, m]}), &Value::Null);
            }
            ctx.check("ladder:%:V", &json!({"%": [{"var": "v"}, {"var": "w"}]}), &json!({"v": v, "w": 10}));
            ctx.check("ladder:%:string", &json!({"%": [v.to_string(), 10]}), &Value::Null);
            ctx.check("ladder:%:array", &json!({"%": [[v], 10]}), &Value::Null);
        }
    }
    if !["C02", "C05", "C07", "C08", "C09", "C10", "C11", "C13", "C14", "C15"].contains(&prop.as_str()) {
        return;
    }
    let null = Value::Null;
    for v in al::long_number_texts() {
        if !ctx.mine() {
            continue;
        }
        ctx.edge();
        let text = json!(v.to_string());
        let d = json!({"v": v, "vs": [v, 0, v], "t": text});
        let x = json!({"var": "v"});
        let rules: Vec<Value> = match prop.as_str() {
            "C02" => vec![v.clone(), json!([v, [v]]), json!({"k": v, "j": [v]}), json!({"if": [true, [v]]})],
            "C05" => vec![json!({"if": [true, v, 0]}), json!({"if": [x, x, 0]}), json!({"or": [v, 1]}), json!({"and": [1, x]}), json!({"?:": [0, 1, x]}), json!({"or": [0, x]})],
            "C07" => vec![json!({"==": [v, text]}), json!({"==": [[v], text]}), json!({"==": [x, {"var": "t"}]}), json!({"!=": [[v, 0, v], {"cat": [{"var": "vs"}]}]}), json!({"==": [x, x]}), json!({"==": [text, [[x]]]})],
            "C08" => vec![json!({"===": [v, x]}), json!({"===": [x, text]}), json!({"!==": [x, {"*": [x, 1]}]}), json!({"===": [{"var": "vs.0"}, {"var": "vs.2"}]})],
            "C09" => vec![json!({"<=": [v, text]}), json!({">=": [[v], x]}), json!({"<": [x, x]}), json!({"<=": [x, {"var": "t"}, x]}), json!({">": [text, v]})],
            "C10" => vec![json!({"*": [v, 1]}), json!({"+": [x]}), json!({"+": [text]}), json!({"-": [x]}), json!({"-": [{"-": [x]}]}), json!({"max": [x]}), json!({"min": [text, x]}), json!({"/": [x, 1]}), json!({"+": [x, 0]}), json!({"*": [text, "1"]}), json!({"%": [x, x]})],
            "C11" => vec![x.clone(), json!({"var": "vs.2"}), json!({"var": ["nope", v]}), json!({"var": ["vs.-1"]}), json!({"var": ""})],
            "C13" => vec![json!({"map": [{"var": "vs"}, {"var": ""}]}), json!({"filter": [[v, 0], {"var": ""}]}), json!({"reduce": [{"var": "vs"}, {"max": [{"var": "current"}, {"var": "accumulator"}]}, v]}), json!({"reduce": [[1], {"var": "accumulator"}, x]})],
            "C14" => vec![json!({"all": [{"var": "vs"}, {"!==": [{"var": ""}, text]}]}), json!({"some": [[v], {"===": [{"var": ""}, x]}]}), json!({"none": [{"var": "vs"}, {"===": [{"var": ""}, v]}]})],
            _ => vec![json!({"merge": [v, [v], x]}), json!({"in": [v, {"var": "vs"}]}), json!({"in": [x, [text, 0]]}), json!({"in": [text, {"cat": ["<", x, ">"]}]}), json!({"in": [x, [[v], v]]})],
        };
        for r in rules {
            ctx.check("long-number-text", &r, if prop == "C02" { &null } else { &d });
        }
    }
}

/// The same expression written in two (or three) operand positions of one operator - condition and branch,
/// both sides of a comparison, collection and initial value, key and default: each occurrence is evaluated on
/// its own (a tracer prints once per occurrence that the operator evaluates), equal spelling is no reason to
/// skip, share or reorder an evaluation.
pub fn aliased_operand_probes(ctx: &mut Ctx) {
    let prop = ctx.prop.clone();
    if !["C04", "C05", "C13", "C14"].contains(&prop.as_str()) {
        return;
    }
    let d = json!({"m": "mark", "z": 0, "xs": [1, 2], "e": [], "k": "xs"});
    let tracers = [json!({"log": "m"}), json!({"log": {"var": "m"}}), json!({"log": {"var": "z"}}), json!({"log": [{"var": "xs"}]}), json!({"log": {"var": "e"}}), json!({"log": ""}), json!({"log": 0}), json!({"log": {"var": "k"}})];
    for e in &tracers {
        if !ctx.mine() {
            continue;
        }
        ctx.edge();
        let rules: Vec<Value> = match prop.as_str() {
            "C05" => vec![
                json!({"if": [e, e, "else"]}), json!({"if": [e, "then", e]}), json!({"if": [e, e, e]}), json!({"?:": [{"var": "absent"}, 1, e, e, 0]}), json!({"if": [e, e, e, e, e]}),
                json!({"and": [e, e]}), json!({"or": [e, e]}), json!({"and": [e, e, e]}), json!({"or": [e, e, e]}), json!({"if": [{"!": [e]}, e, e]}), json!({"or": [{"and": [e, e]}, e]}),
            ],
            "C04" => vec![
                json!({"==": [e, e]}), json!({"cat": [e, e, e]}), json!({"+": [e, e]}), json!({"merge": [e, e]}), json!({"<": [e, e, e]}), json!({"in": [e, [e, e]]}), json!({"substr": [e, e]}),
                json!({"var": [e, e]}), json!({"var": ["m", e]}), json!({"var": ["absent", e]}), json!({"var": [{"cat": ["x", "s"]}, e]}), json!({"missing": [e, e]}), json!({"missing_some": [1, [e, e]]}), json!({"max": [e, e]}),
                json!({"if": [e, e, e]}), json!({"and": [e, e]}),
            ],
            "C13" => vec![
                json!({"map": [e, e]}), json!({"filter": [e, e]}), json!({"reduce": [e, e, e]}), json!({"reduce": [{"var": "xs"}, e, e]}), json!({"reduce": [e, {"var": "current"}, e]}), json!({"map": [[e, e], e]}),
                json!({"reduce": [{"var": "e"}, e, e]}), json!({"map": [{"var": "xs"}, {"cat": [e, e]}]}),
            ],
            _ => vec![json!({"all": [e, e]}), json!({"some": [e, e]}), json!({"none": [e, e]}), json!({"all": [[e, e], e]}), json!({"some": [[e, e], e]}), json!({"none": [[e, e], {"!": [e]}]}), json!({"all": [{"var": "xs"}, {"and": [e, e]}]})],
        };
        for r in rules {
            ctx.check("aliased-operands", &r, &d);
        }
    }
}

/// Paths that go on after a step has landed in a string: a character is a one-character string (index 0 / -1
/// reach it again, anything else does not resolve), so such a path finds a value, or finds nothing and the
/// default / null applies - as condition, operand, key of missing, per-element reference. Also run as twins
/// in sequence: long keys of equal length and equal head, each rule built, evaluated and dropped before the
/// next (whatever is remembered about a key by address, length or prefix is wrong for the next one).
pub fn deep_path_probes(ctx: &mut Ctx) {
    let prop = ctx.prop.clone();
    if !["C04", "C05", "C06", "C11", "C12", "C13"].contains(&prop.as_str()) {
        return;
    }
    let d = json!({"s": "abc", "name": "B\u{e9}", "xs": ["apple", "banana"], "o": {"t": "xy"}, "e": "",
                   "customer": {"address": {"city": "Oslo", "road": "Storgata", "zipc": "0155", "name": "Home"}, "account": {"iban": "NO93", "bic0": "DNBA"}}});
    let paths = ["s.0", "s.-1", "name.1", "xs.0.0", "s.3", "e.0", "s.0.0", "s.1.0", "s.-1.-1", "s.0.0.0.0", "xs.1.2.0", "o.t.1.0", "name.1.0", "s.0.x", "s.1.1", "s.0.1", "s.3.0", "s.0.-2", "e.0.0", "xs.0.9.0", "name.0.name", "o.t.0.t"];
    if ctx.mine() {
        for p in paths {
            ctx.edge();
            let v = json!({ "var": p });
            let vd = json!({"var": [p, false]});
            let vz = json!({"var": [p, 0]});
            let rules: Vec<Value> = match prop.as_str() {
                "C05" | "C06" => vec![
                    json!({"if": [v, "then", "else"]}), json!({"if": [vd, "then", "else"]}), json!({"or": [vz, "fallback"]}), json!({"and": [v, "next"]}), json!({"if": [v, {"var": [[1]]}, "else"]}),
                    json!({"?:": [vd, 1, 2]}), json!({"!": [v]}), json!({"!!": [vd]}), json!({"if": [false, 0, v, "b", "c"]}), json!({"filter": [[1, 2], v]}),
                    json!({"all": [[1], v]}), json!({"some": [[1], v]}), json!({"none": [[1], v]}), json!({"filter": [["abc", "", "0", "xyz"], {"var": p.trim_start_matches("s.").trim_start_matches("xs.0.")}]}),
                    json!({"some": [{"var": "xs"}, {"var": p.trim_start_matches("s.")}]}),
                ],
                "C11" | "C04" => vec![v.clone(), vd.clone(), json!({"var": [p, "dflt"]}), json!({"cat": ["<", v, ">"]}), json!({"var": [{"cat": [p]}, "dflt"]})],
                "C12" => vec![json!({"missing": [p]}), json!({"missing": [p, "zz", "s.0"]}), json!({"missing": [p, "s", "o.t", "o", "xs.1"]}), json!({"missing": ["name.first.initial", "o.t", "o", p]}),
                    json!({"missing_some": [2, ["s.name.plural", "s", "o"]]}), json!({"missing": ["s.x.y", "0", 1, p]}), json!({"missing": ["xs.first.second.third", "xs.0", "xs", p]}), json!({"missing_some": [1, [p, "nope"]]}), json!({"missing_some": [2, [p, "s"]]})],
                _ => vec![json!({"map": [["abc", "", "xyz"], {"var": [p.trim_start_matches("s."), "dflt"]}]}), json!({"filter": [{"var": "xs"}, {"var": p.trim_start_matches("xs.1.")}]})],
            };
            for r in rules {
                ctx.check("path-beyond-a-character", &r, &d);
            }
        }
    }
    if !["C04", "C11", "C12"].contains(&prop.as_str()) {
        return;
    }
    let twins = ["customer.address.city", "customer.address.road", "customer.address.zipc", "customer.address.name", "customer.account.iban", "customer.account.bic0", "customer.address.nope", "customer.addresx.city"];
    for round in 0..3 {
        if !ctx.mine() {
            continue;
        }
        for (i, k) in twins.iter().enumerate() {
            ctx.edge();
            // each rule is built here, evaluated and dropped before the next one is built
            match prop.as_str() {
                "C12" => {
                    ctx.check("long-key-twins:sequence", &json!({"missing": [k.to_string()]}), &d);
                    ctx.check("long-key-twins:sequence", &json!({"missing_some": [1, [k.to_string(), twins[(i + round + 1) % twins.len()].to_string()]]}), &d);
                }
                _ => {
                    ctx.check("long-key-twins:sequence", &json!({"var": k.to_string()}), &d);
                    ctx.check("long-key-twins:sequence", &json!({"var": [k.to_string(), "dflt"]}), &d);
                    let field = k.rsplit('.').next().unwrap().to_string();
                    let head = k[..k.len() - field.len()].to_string();
                    ctx.check("long-key-twins:computed", &json!({"merge": [{"var": {"cat": [head, field]}}, {"var": {"cat": [head, "road"]}}, {"var": {"cat": [head, "city"]}}]}), &d);
                }
            }
        }
    }
}

/// What a call prints belongs to that call: after a call that logged and then failed (at evaluation or - for a
/// later operand - at parse time), after a call that logged a lot, after a call that panicked or not - the next
/// calls print exactly their own lines (a literal prints nothing).
pub fn stale_output_probes(ctx: &mut Ctx) {
    let prop = ctx.prop.clone();
    if !["C02", "C04", "C05"].contains(&prop.as_str()) {
        return;
    }
    let failing = [
        json!({"and": [{"log": "one"}, {"in": [1, 2]}]}), json!({"cat": [{"log": "two"}, {"+": ["x"]}]}), json!({"if": [{"log": "three"}, {"/": [1, 0]}, 0]}),
        json!({"map": [[1, 2], {"if": [{"==": [{"log": {"var": ""}}, 2]}, {"+": ["x"]}, 0]}]}), json!({"cat": [{"log": "five"}, {"==": [1]}]}), json!({"merge": [{"log": ["long".repeat(3000)]}, {"in": [1, 2]}]}),
        json!({"reduce": [[1, 2, 3], {"/": [{"log": {"var": "current"}}, {"-": [{"var": "current"}, 3]}]}, 0]}),
    ];
    let d = json!({"a": 1});
    for f in &failing {
        if !ctx.mine() {
            continue;
        }
        for next in [json!("literal"), json!({"k": [1, {"x": null}]}), json!([1, "two"]), json!({"var": "a"}), json!({"log": "own"}), json!({"cat": [{"log": "a"}, {"log": "b"}]})] {
            ctx.edge();
            ctx.check("output-belongs-to-its-call:failing", f, &d);
            ctx.check("output-belongs-to-its-call:next", &next, &d);
            ctx.check("output-belongs-to-its-call:next", &next, &d);
        }
    }
}

/// Segments that look like an index but are not integer literals (a sign after a sign, a sign at the end, a
/// radix prefix, an exponent, a fraction, digits from another script, separators, blanks inside): on arrays and
/// strings they select nothing; as object keys they are ordinary names. (Spellings that `i64` parsing accepts
/// but that are not canonical - `+1`, `01`, `-0` - stay unspecified, A.8.)
pub fn index_spelling_probes(ctx: &mut Ctx) {
    let prop = ctx.prop.clone();
    if !["C11", "C12"].contains(&prop.as_str()) {
        return;
    }
    if ctx.mine() {
        // integer key operands of every magnitude on OBJECT data holding that key (an integer operand names the
        // member spelled with its decimal digits, whatever its size)
        for v in al::magnitude_ladder().into_iter().chain(al::ints_extreme()).filter(|v| v.is_i64() || v.is_u64()) {
            ctx.edge();
            let name = v.to_string();
            let d = json!({name.clone(): "present", "other": 1});
            if prop == "C11" {
                ctx.check("integer-key-on-object", &json!({ "var": v }), &d);
                ctx.check("integer-key-on-object", &json!({"var": [v, "dflt"]}), &d);
                ctx.check("integer-key-on-object", &json!({"var": [{"var": "k"}, "dflt"]}), &json!({name.clone(): "present", "k": v}));
                ctx.check("integer-key-on-object:absent", &json!({"var": [v, "dflt"]}), &json!({"other": 1}));
                ctx.check("integer-key-on-object:in-map", &json!({"map": [[d.clone()], {"var": v}]}), &Value::Null);
            } else {
                ctx.check("integer-key-on-object", &json!({"missing": [v, "other", "zz"]}), &d);
                ctx.check("integer-key-on-object", &json!({"missing_some": [3, [v, "other", "zz"]]}), &d);
            }
        }
    }
    let segs = ["-+1", "+-1", "--1", "++1", "1-", "1+", "-", "+", "0x1", "0b1", "1e0", "1E0", "1.0", "1.", ".1", "\u{ff11}", "\u{661}", "1_0", "1,0", "1 0", "- 1", "-\u{a0}1", "1\u{0}", "\u{2212}1", "0-1", "1/1", "0o1", "Infinity", "-Infinity", "NaN", "true", "null", "9223372036854775808", "-9223372036854775809", "18446744073709551616", "1e1"];
    for seg in segs {
        if !ctx.mine() {
            continue;
        }
        ctx.edge();
        let arr = json!({"xs": ["a", "b", "c"], "s": "xyz", "o": {seg: "as-key", "1": "one", "-1": "minus-one"}});
        for base in ["xs", "s", "o"] {
            let path = format!("{}.{}", base, seg.replace('.', "\\."));
            match prop.as_str() {
                "C11" => {
                    ctx.check("not-an-index", &json!({"var": [path, "dflt"]}), &arr);
                    ctx.check("not-an-index", &json!({ "var": path }), &arr);
                }
                _ => {
                    ctx.check("not-an-index", &json!({"missing": [path, format!("{}.1", base)]}), &arr);
                    ctx.check("not-an-index", &json!({"missing_some": [2, [path, format!("{}.-1", base)]]}), &arr);
                }
            }
        }
        let key = seg.replace('.', "\\.");
        for d in [json!(["a", "b", "c"]), json!("xyz"), json!({seg: "as-key", "1": "one"})] {
            if prop == "C11" {
                ctx.check("not-an-index:top-level", &json!({"var": [key, "dflt"]}), &d);
            } else {
                ctx.check("not-an-index:top-level", &json!({"missing": [key, 1]}), &d);
            }
        }
    }
}

/// Scope: inside a per-element expression EVERY sub-expression sees the current element as its data - the key
/// operand and the default operand of `var`, the key lists of `missing`, nested operators - and nothing of the
/// outer data; records that lack the field, records only, a `fallback` member present in the element, in the
/// outer data, in both.
pub fn element_scope_probes(ctx: &mut Ctx) {
    let prop = ctx.prop.clone();
    if !["C11", "C12", "C13", "C14", "C04"].contains(&prop.as_str()) {
        return;
    }
    if ctx.mine() {
        // a computed key / key list whose value differs from element to element
        let people = json!([{"pick": "home", "home": "h-1", "work": "w-1"}, {"pick": "work", "home": "h-2", "work": "w-2"}, {"pick": "none", "home": "h-3"}, {"pick": "home.0", "home": ["h-4"]}]);
        for e in [json!({"var": {"var": "pick"}}), json!({"var": [{"var": "pick"}, "dflt"]}), json!({"missing": [{"var": "pick"}]}), json!({"missing": {"merge": [{"var": "pick"}, "work"]}}), json!({"missing_some": [1, [{"var": "pick"}, "zz"]]}),
                  json!({"var": {"cat": [{"var": "pick"}]}}), json!({"cat": [{"var": {"var": "pick"}}, "|", {"var": "home"}]})] {
            let outer = json!({"people": people, "pick": "OUTER"});
            let hosts: &[&str] = if prop == "C14" { &["all", "some", "none"] } else { &["map", "filter"] };
            for h in hosts {
                ctx.edge();
                ctx.check("element-scope:computed-key", &al::op(h, vec![json!({"var": "people"}), e.clone()]), &outer);
                ctx.check("element-scope:computed-key:L", &al::op(h, vec![people.clone(), e.clone()]), &outer);
            }
            if prop != "C14" {
                ctx.check("element-scope:computed-key:reduce", &json!({"reduce": [{"var": "people"}, {"merge": [{"var": "accumulator"}, [rewrite_scope(&e)]]}, []]}), &outer);
            }
        }
    }
    let colls = [json!([{"qty": 1, "fallback": 10}, {"fallback": 20}]), json!([{"fallback": 20}, {"qty": 0}, {}]), json!([{"qty": null, "fallback": "F"}]), json!([{"qty": 1}, 5, "str", null, [7]])];
    let exprs = [
        json!({"var": ["qty", {"var": "fallback"}]}), json!({"var": ["qty", {"var": ["fallback", "inner-dflt"]}]}), json!({"var": [{"var": "key"}, "dflt"]}), json!({"var": ["missing-one", {"cat": ["d:", {"var": "fallback"}]}]}),
        json!({"var": ["qty", {"missing": ["qty", "fallback"]}]}), json!({"var": ["qty", {"var": ""}]}), json!({"var": ["fallback"]}), json!({"var": ["qty", {"if": [{"var": "fallback"}, "has", "has-not"]}]}),
        json!({"var": ["0", {"var": "fallback"}]}), json!({"missing": [{"var": "key"}, "fallback"]}),
    ];
    for c in &colls {
        if !ctx.mine() {
            continue;
        }
        for e in &exprs {
            for outer in [json!({"xs": c}), json!({"xs": c, "fallback": "OUTER", "qty": "OUTER-QTY", "key": "fallback"})] {
                ctx.edge();
                let hosts: &[&str] = match prop.as_str() {
                    "C14" => &["all", "some", "none"],
                    _ => &["map", "filter"],
                };
                for h in hosts {
                    ctx.check("element-scope:V", &al::op(h, vec![json!({"var": "xs"}), e.clone()]), &outer);
                    ctx.check("element-scope:L", &al::op(h, vec![c.clone(), e.clone()]), &outer);
                }
                if prop != "C14" {
                    ctx.check("element-scope:reduce", &json!({"reduce": [{"var": "xs"}, {"merge": [{"var": "accumulator"}, [rewrite_scope(e)]]}, []]}), &outer);
                }
            }
        }
    }
}

/// `e` re-targeted at the member `current` of reduce's frame
fn rewrite_scope(e: &Value) -> Value {
    match e {
        Value::Object(m) if m.len() == 1 && m.contains_key("var") => {
            let a = &m["var"];
            let fix = |k: &Value| -> Value {
                match k {
                    Value::String(s) if s.is_empty() => json!("current"),
                    Value::String(s) => json!(format!("current.{}", s)),
                    other => rewrite_scope(other),
                }
            };
            match a {
                Value::Array(items) if !items.is_empty() => {
                    let mut out = vec![fix(&items[0])];
                    out.extend(items[1..].iter().map(rewrite_scope));
                    json!({ "var": out })
                }
                other => json!({ "var": fix(other) }),
            }
        }
        Value::Object(m) => Value::Object(m.iter().map(|(k, v)| (k.clone(), rewrite_scope(v))).collect()),
        Value::Array(a) => Value::Array(a.iter().map(rewrite_scope).collect()),
        v => v.clone(),
    }
}

/// Eager operators evaluate EVERY operand, whatever the others are: a failing, ill-formed or logging operand
/// next to operands that already "decide" the result (0 for `*`, an empty or null haystack for `in`, a false
/// first comparison of a between test, an array first operand of `missing`, an empty string for `cat`, a
/// maximum already reached) still fails / logs; position by position, for every eager and data operator.
pub fn every_operand_probes(ctx: &mut Ctx) {
    let prop = ctx.prop.clone();
    let ops: &[&str] = match prop.as_str() {
        "C03" | "C04" => &["==", "!=", "===", "!==", "<", "<=", ">", ">=", "+", "-", "*", "/", "%", "max", "min", "cat", "substr", "merge", "in", "missing", "missing_some", "var", "!", "!!"],
        "C07" => &["==", "!="],
        "C08" => &["===", "!=="],
        "C09" => &["<", "<=", ">", ">="],
        "C10" => &["+", "-", "*", "/", "%", "max", "min"],
        "C11" => &["var"],
        "C12" => &["missing", "missing_some"],
        "C15" => &["in", "merge"],
        "C16" => &["cat", "substr"],
        _ => return,
    };
    let deciding: Vec<Value> = ["0", "null", "[]", "\"\"", "false", "1", "[\"a\",\"b\"]", "\"a\"", "3", "2", "-0.0", "\"x\""].iter().map(|t| al::parse(t)).collect();
    let poisons = [json!({"in": [1, 2]}), json!({"var": [[1]]}), json!({"log": "T"}), json!({"==": [1]}), json!({"if": [{"none": []}]}), json!({"+": ["x"]})];
    let d = json!({"a": 1, "xs": [], "n": null});
    for k in ops {
        for n in 1..=3usize {
            if !crate::refmodel::arity_ok(k, n) {
                continue;
            }
            if !ctx.mine() {
                continue;
            }
            for pos in 0..n {
                for p in &poisons {
                    for (i, dv) in deciding.iter().enumerate() {
                        ctx.edge();
                        let mut args: Vec<Value> = (0..n).map(|j| deciding[(i + j * 5) % deciding.len()].clone()).collect();
                        for (j, a) in args.iter_mut().enumerate() {
                            if j != pos && j == 0 {
                                *a = dv.clone();
                            }
                        }
                        args[pos] = p.clone();
                        ctx.check("every-operand-evaluated", &al::op(k, args.clone()), &d);
                        // the deciding operands read from the data instead of written in the rule
                        let vargs: Vec<Value> = args.iter().enumerate().map(|(j, a)| if j == pos { a.clone() } else { json!({"var": format!("o{}", j)}) }).collect();
                        let mut dd = d.clone();
                        for (j, a) in args.iter().enumerate() {
                            if j != pos {
                                dd[format!("o{}", j)] = a.clone();
                            }
                        }
                        ctx.check("every-operand-evaluated:V", &al::op(k, vargs), &dd);
                    }
                }
            }
        }
    }
}

/// Conditions of every kind that depend on the data in a way a syntactic scan can overlook (quantifiers over
/// arrays WRITTEN in the rule whose items read the data, `missing`, `in` over a data value, nested ifs), for data
/// that makes them true, false and different from what they are on null data; and deciding operators (`!!`, `!`,
/// `and`, `or`, `if`) in the SELECTED positions, where their value - a boolean, or the operand itself - is the result.
pub fn condition_kind_probes(ctx: &mut Ctx) {
    let prop = ctx.prop.clone();
    if !["C05", "C06"].contains(&prop.as_str()) {
        return;
    }
    let conds = [
        json!({"some": [[{"var": "a"}, {"var": "b"}], {"var": ""}]}), json!({"all": [[{"var": "a"}, {"var": "b"}], {"var": ""}]}), json!({"none": [[{"var": "a"}, {"var": "b"}], {"var": ""}]}),
        json!({"some": [[1, {"var": "b"}], {"==": [{"var": ""}, 0]}]}), json!({"all": [[{"var": "a"}], true]}), json!({"missing": ["a"]}), json!({"missing_some": [1, ["a", "c"]]}), json!({"in": ["x", {"var": "s"}]}),
        json!({"in": [{"var": "a"}, [0, 1]]}), json!({"if": [{"var": "a"}, {"var": "b"}, {"var": "a"}]}), json!({"filter": [[{"var": "a"}], true]}), json!({"map": [[], {"var": "a"}]}), json!({"reduce": [[1], {"var": "accumulator"}, {"var": "a"}]}),
        json!({"merge": [{"var": "xs"}]}), json!({"cat": [{"var": "s"}]}), json!({"max": [{"var": "a"}, {"var": "b"}]}), json!({"var": ["zz", {"var": "a"}]}),
    ];
    let datas = [json!({"a": 0, "b": 1, "s": "x", "xs": []}), json!({"a": 1, "b": 0, "s": "", "xs": [0]}), json!({"a": 1, "b": 1, "c": 1, "s": "axb", "xs": [[]]}), json!({"a": 0, "b": 0}), json!(null), json!({"a": null, "b": [], "s": "x"})];
    for c in &conds {
        if !ctx.mine() {
            continue;
        }
        for d in &datas {
            ctx.edge();
            for r in [json!({"if": [c, "y", "n"]}), json!({"?:": [c, "y", "n"]}), json!({"if": [false, "a", c, "y", "n"]}), json!({"and": [c, "next"]}), json!({"or": [c, "next"]}), json!({"!": [c]}), json!({"!!": [c]}),
                      json!({"if": [{"!": [c]}, "y", "n"]}), json!({"cat": [{"if": [c, "y", "n"]}, {"if": [c, "y", "n"]}]}), json!({"map": [[1, 2], {"if": [c, "y", "n"]}]})] {
                ctx.check("condition-kinds", &r, d);
            }
        }
    }
    if ctx.mine() {
        // literal objects with SEVERAL keys one of which is an operator name, in every selected position: returned as written
        let d = json!({"a": 1, "f": 0});
        for o in [json!({"?:": [true, "inner-then", "inner-else"], "note": 1}), json!({"if": [true, 1, 2], "k": 1}), json!({"var": "a", "note": 1}), json!({"and": [1, 2], "x": 1}), json!({"note": 1, "?:": [{"in": [1, 2]}, 1, 2]}),
                  json!({"or": [0, 1], "!": [1]}), json!({"log": "LEAK", "z": 0})] {
            ctx.edge();
            for k in ["if", "?:"] {
                for args in [vec![json!(false), json!("then"), o.clone()], vec![json!(true), o.clone(), json!("else")], vec![json!(0), json!(1), json!(0), json!(2), o.clone()], vec![json!({"var": "f"}), json!(1), json!({"var": "a"}), o.clone(), json!(3)],
                             vec![o.clone()], vec![json!(0), json!(1), o.clone()], vec![o.clone(), json!("truthy-object"), json!("no")]] {
                    ctx.check("multi-key-literal-in-selected-position", &al::op(k, args), &d);
                }
            }
            ctx.check("multi-key-literal-in-selected-position", &json!({"or": [0, o]}), &d);
            ctx.check("multi-key-literal-in-selected-position", &json!({"and": [1, o]}), &d);
            ctx.check("multi-key-literal-in-selected-position", &json!({"?:": [0, 1, {"?:": [0, 2, o]}]}), &d);
        }
    }
    let vals = al::many_pub(&["\"a\"", "0", "[]", "[[]]", "\"\"", "null", "\"0\"", "{}", "5e-324", "[0]", "-0.0"]);
    for v in &vals {
        if !ctx.mine() {
            continue;
        }
        let d = json!({ "v": v });
        for x in [v.clone(), json!({"var": "v"})] {
            if al::is_operation_shaped(&x) && !x.get("var").is_some() {
                continue;
            }
            ctx.edge();
            for sel in [json!({"!!": [x]}), json!({"!": [x]}), json!({"!!": x}), json!({"and": [x]}), json!({"or": [x, x]}), json!({"if": [x]}), json!({"if": [x, "t", "f"]}), json!({"and": [1, x]})] {
                for r in [json!({"if": [false, 1, sel]}), json!({"if": [true, sel, 0]}), json!({"?:": [0, 1, sel]}), json!({"if": [0, 1, 0, 2, sel]}), json!({"if": [0, 1, 1, sel, 3]}), json!({"or": [0, sel]}), json!({"and": [1, sel]}), json!({"if": [sel]}),
                          json!({"or": [sel]}), json!({"if": [0, 1, 0, 2, 0, 3, sel]})] {
                    ctx.check("deciding-operator-in-selected-position", &r, &d);
                }
            }
        }
    }
}

/// The result does not depend on HOW an operand came about: the same collection, expression or key written in the
/// rule, read from the data, or computed by a data-free expression (merge / if / cat / filter over literals) - under
/// an eager parent and at top level, with the other operands reading the data; and a per-element expression that is
/// a constant.
pub fn provenance_probes(ctx: &mut Ctx) {
    let prop = ctx.prop.clone();
    if !["C02", "C04", "C13", "C14"].contains(&prop.as_str()) {
        return;
    }
    let d = json!({"xs": [1, 2, 3], "floor": 10, "x": "x", "a": 1, "ms": [{"var": "a"}, {"==": [1]}], "secret": "s3", "mo": {"var": "xs"}});
    let marker = json!({"var": "a"});
    let colls: Vec<(&str, Value)> = vec![
        ("literal", json!([1, 2, 3])), ("var", json!({"var": "xs"})), ("merge", json!({"merge": [[1, 2], [3]]})), ("if", json!({"if": [true, [1, 2, 3]]})), ("filter", json!({"filter": [[1, 2, 3], true]})),
        ("marker-object", json!({"var": "mo"})), ("marker-object-if", json!({"if": [true, {"var": "mo"}]})), ("marker-string", json!({"var": "x"})),
        ("merge-of-markers", json!({"merge": [[marker], [{"==": [1]}]]})), ("nested-literal", json!([[marker], [{"==": [1]}, {"substr": []}]])), ("var-markers", json!({"var": "ms"})), ("if-markers", json!({"if": [true, [marker]]})),
    ];
    let exprs = [json!("x"), json!(1), json!(null), json!([{"var": ""}]), json!({"k": {"var": ""}}), json!({"var": ""}), json!({"cat": ["x"]}), json!({"var": "0"}), json!({"===": [{"var": ""}, 1]}), json!({"var": "=="}), json!({"var": "var"})];
    for (name, c) in &colls {
        if !ctx.mine() {
            continue;
        }
        for e in &exprs {
            ctx.edge();
            let rules: Vec<Value> = match prop.as_str() {
                "C14" | "C02" => vec![json!({"all": [c, e]}), json!({"some": [c, e]}), json!({"none": [c, e]}), json!({"cat": [{"some": [c, e]}]}), json!({"if": [{"all": [c, e]}, "y", "n"]})],
                _ => vec![
                    json!({"map": [c, e]}), json!({"filter": [c, e]}), json!({"reduce": [c, {"cat": [{"var": "accumulator"}, rewrite_current(e)]}, {"var": "x"}]}),
                    json!({"max": [0, {"reduce": [c, {"max": [{"var": "current"}, {"var": "accumulator"}]}, {"var": "floor"}]}]}), json!({"cat": [{"reduce": [c, {"cat": [{"var": "accumulator"}, "."]}, {"var": "x"}]}, "!"]}),
                    json!({"merge": [{"map": [c, e]}, {"var": "floor"}]}), json!({"map": [{"var": "xs"}, {"reduce": [c, {"+": [1, {"var": "accumulator"}]}, {"var": ""}]}]}),
                ],
            };
            for r in rules {
                ctx.check(&format!("provenance:{}", name), &r, &d);
            }
        }
    }
}

/// An operator nested inside ITSELF (or its siblings) with the same KIND of collection at both levels - string in
/// string, literal array in literal array, computed in computed, empty in non-empty - in the per-element expression
/// and in the collection position: whatever an operator keeps while it iterates (a scratch buffer, a borrowed cell,
/// a depth counter, a cursor) is not shared with the inner call.
pub fn nested_same_kind_probes(ctx: &mut Ctx) {
    let prop = ctx.prop.clone();
    if !["C13", "C14"].contains(&prop.as_str()) {
        return;
    }
    let d = json!({"word": "banana", "w2": "ab", "xs": [1, 2], "ys": [[1], [], [2, 3]], "e": "", "ee": []});
    let colls = [json!("ab"), json!({"var": "word"}), json!({"var": "w2"}), json!([1, 2]), json!({"var": "xs"}), json!({"var": "ys"}), json!(""), json!({"var": "ee"}), json!([[1], []])];
    let inner_colls = [json!("cd"), json!("aeiou"), json!({"var": ""}), json!([3, 4]), json!({"var": "w2"}), json!(""), json!({"cat": [{"var": ""}, "x"]})];
    let outers: &[&str] = if prop == "C13" { &["map", "filter", "reduce"] } else { &["all", "some", "none"] };
    for c in &colls {
        if !ctx.mine() {
            continue;
        }
        for ic in &inner_colls {
            for ik in ["all", "some", "none", "map", "filter"] {
                ctx.edge();
                for pred in [json!(true), json!({"==": [{"var": ""}, "a"]}), json!({"var": ""})] {
                    let inner = al::op(ik, vec![ic.clone(), pred]);
                    for ok in outers {
                        let r = if *ok == "reduce" { json!({"reduce": [c, {"merge": [{"var": "accumulator"}, [rewrite_current(&inner)]]}, []]}) } else { al::op(ok, vec![c.clone(), inner.clone()]) };
                        ctx.check("nested-same-kind", &r, &d);
                    }
                }
            }
        }
    }
}

/// Keys in every state of the path lexer (an escape character that does not precede a separator, at the end, alone;
/// escaped separators; doubled, leading and trailing separators; the empty key) as the WHOLE condition of a lazy
/// operator, the whole predicate and the whole per-element expression, over data / elements that hold both the raw
/// spelling and the unescaped name with different values and different truthiness: a second recogniser of "plain"
/// keys must agree with the real lexer on every metacharacter.
pub fn lexer_key_probes(ctx: &mut Ctx) {
    let prop = ctx.prop.clone();
    if prop == "C12" {
        // key LISTS over the lexer keys: every ordered pair (a repeated key included) and the triples around each pair,
        // on data that tells `x -> "" -> f` from `x -> f`: what is worked out for one key of a list (its section, its
        // split) says nothing about its neighbour
        let keys = [".a", ".b", "a.", "a..b", "a..c", "form..name", "form..email", "form..phone", "form.name", "", ".", "..", "a.b", "a.c", "a\\.b", "x\\", "b.0", "b.-1", "zz"];
        let datas = [json!({"a": 1, "b": [10, 20], "": {"a": "ea", "": "ee"}, "form": {"": {"name": "n", "email": "e"}, "phone": "p"}}), json!({"a": {"": {"b": 1}, "b": 2}, "form": {"name": 1}, "x": 1}), json!({"": 1}), json!([1, 2])];
        for k1 in keys {
            if !ctx.mine() {
                continue;
            }
            for k2 in keys {
                ctx.edge();
                for d in &datas {
                    // oracle-free: a key is reported iff `var` with a sentinel default cannot find it (R leaves empty
                    // segments unspecified; the two operators must agree with each other all the same)
                    let sentinel = json!("\u{a7}SENTINEL\u{a7}");
                    let r = json!({"missing": [k1, k2, k1]});
                    let o = ctx.exec(&r, d);
                    if let Some(Value::Array(rep)) = o.ok() {
                        for k in [k1, k2] {
                            let ov = ctx.exec(&json!({"var": [k, sentinel]}), d);
                            if let Some(v) = ov.ok() {
                                let absent = *v == sentinel || v.is_null();
                                let reported = rep.contains(&json!(k));
                                if absent != reported {
                                    ctx.law_fail("law:missing-vs-var:key-lists", &r, d, format!("{:?} reported iff var cannot find it (var: {})", k, ov.show()), o.show());
                                }
                            }
                        }
                    }
                    ctx.check("lexer-keys:pairs", &json!({"missing": [k1, k2]}), d);
                    ctx.check("lexer-keys:pairs", &json!({"missing": [k1, k2, k1, "zz", k2]}), d);
                    ctx.check("lexer-keys:pairs", &json!({"missing_some": [1, [k1, k2]]}), d);
                    ctx.check("lexer-keys:pairs", &json!({"missing_some": [2, [k2, k1, k1]]}), d);
                }
            }
        }
        return;
    }
    if !["C05", "C06", "C13", "C14"].contains(&prop.as_str()) {
        return;
    }
    let keys = ["a\\b", "\\", "x\\", "\\a", "a\\\\b", "a\\.b", "a.b", ".a", "a.", "a..b", "", ".", "C:\\tmp", "C:\\\\tmp", "ab", "a\\b.c", "k\\"];
    let obj = |flip: bool| -> Value {
        let (t, f) = if flip { (json!(0), json!("T")) } else { (json!("T"), json!(0)) };
        json!({"ab": t, "a\\b": f, "a": {"b": t, "": f}, "a.b": f, "": {"a": t, "": f}, "x": t, "x\\": f, "\\": f, "\\a": f, "C:tmp": t, "C:\\tmp": f, "k": t, "abc": f, "ab.c": f, "a\\b.c": t, ".a": f, "a.": f})
    };
    for k in keys {
        if !ctx.mine() {
            continue;
        }
        let v = json!({ "var": k });
        for flip in [false, true] {
            ctx.edge();
            let d = obj(flip);
            let elems = json!([obj(flip), obj(!flip), {"other": 3}, "str"]);
            let rules: Vec<Value> = match prop.as_str() {
                "C05" | "C06" => vec![json!({"if": [v, "then", "else"]}), json!({"if": [v, "then", {"in": [1, 2]}]}), json!({"if": [v, {"in": [1, 2]}, "else"]}), json!({"?:": [v, "then", "else"]}), json!({"and": [v, "next"]}), json!({"or": [v, "next"]}),
                                      json!({"!": [v]}), json!({"!!": v}), json!({"if": [false, 0, v, "b", "c"]}), json!({"if": [v]})],
                "C13" => vec![json!({"map": [elems, v]}), json!({"filter": [elems, v]}), json!({"reduce": [elems, {"merge": [{"var": "accumulator"}, [{"var": format!("current.{}", k)}]]}, []]}), json!({"map": [{"var": "es"}, v]})],
                _ => vec![json!({"all": [elems, v]}), json!({"some": [elems, v]}), json!({"none": [elems, v]}), json!({"some": [{"var": "es"}, v]})],
            };
            let mut dd = d.clone();
            dd["es"] = elems.clone();
            for r in rules {
                ctx.check("lexer-keys:whole-condition", &r, &dd);
            }
        }
    }
}

/// EVERY operator (eager, lazy, data - all 35, each with a succeeding operand vector, bracketed and bare) as an
/// element expression of a literal collection under all / some / none (where elements are evaluated) and under
/// map / filter / reduce (where a literal array is data): one decision "is this an operation?", the parser's, whichever
/// operator family the element belongs to.
pub fn every_operator_as_element_probes(ctx: &mut Ctx) {
    let prop = ctx.prop.clone();
    if !["C02", "C13", "C14"].contains(&prop.as_str()) {
        return;
    }
    let d = json!({"a": 1, "xs": [1, 2], "s": "str"});
    for k in crate::refmodel::OPS {
        if !ctx.mine() {
            continue;
        }
        for n in 0..=3usize {
            if !crate::refmodel::arity_ok(k, n) {
                continue;
            }
            ctx.edge();
            let args = crate::spaces::c03::benign(k, n);
            let mut elems = vec![al::op(k, args.clone())];
            if n == 1 && !args[0].is_array() {
                elems.push(al::obj1(k, args[0].clone()));
            }
            for e in elems {
                let colls = [json!([e]), json!([1, e]), json!([e, 0, e]), json!([[e]]), json!([{"k": e}])];
                for c in colls {
                    let rules: Vec<Value> = match prop.as_str() {
                        "C13" => vec![json!({"map": [c, {"var": ""}]}), json!({"filter": [c, true]}), json!({"reduce": [c, {"merge": [{"var": "accumulator"}, [{"var": "current"}]]}, []]})],
                        _ => vec![json!({"all": [c, {"var": ""}]}), json!({"some": [c, {"===": [{"var": ""}, 1]}]}), json!({"none": [c, {"!": [{"var": ""}]}]}), json!({"some": [c, {"var": "k"}]}), json!({"all": [c, {"var": "0"}]})],
                    };
                    for r in rules {
                        ctx.check("every-operator-as-element", &r, &d);
                    }
                }
            }
        }
    }
}

/// Texts that collide under common 32-bit hashes, used one right after the other on the same thread: numeric
/// strings through every conversion, keys through every lookup (see `alphabet::hash_colliding_*`).
pub fn hash_twin_probes(ctx: &mut Ctx) {
    let prop = ctx.prop.clone();
    let null = Value::Null;
    if ["C07", "C08", "C09", "C10", "C15", "C16"].contains(&prop.as_str()) && ctx.mine() {
        for round in 0..2 {
            for (_h, a, b) in al::hash_colliding_numbers() {
                let (a, b) = if round == 0 { (a, b) } else { (b, a) };
                let (na, nb): (f64, f64) = (a.parse().unwrap(), b.parse().unwrap());
                ctx.edge();
                let rules: Vec<Value> = match prop.as_str() {
                    "C07" => vec![json!({"==": [a, na]}), json!({"==": [b, nb]}), json!({"==": [b, na]}), json!({"!=": [a, nb]}), json!({"==": [[b], nb]})],
                    "C08" => vec![json!({"===": [{"*": [a, 1]}, na]}), json!({"===": [{"*": [b, 1]}, nb]}), json!({"!==": [{"-": [b, 0]}, na]})],
                    "C09" => vec![json!({"<=": [a, na]}), json!({"<=": [b, nb]}), json!({">=": [b, nb]}), json!({"<": [a, nb]}), json!({"<": [b, na]}), json!({"<": [0, b, nb]})],
                    "C10" => vec![json!({"*": [a, 1]}), json!({"*": [b, 1]}), json!({"-": [b, a]}), json!({"max": [a, b]}), json!({"min": [b, a]}), json!({"+": [a, b]}), json!({"/": [b, 1]}), json!({"%": [b, 1000000]})],
                    "C15" => vec![json!({"in": [a, [b]]}), json!({"in": [b, [a, b]]}), json!({"in": [a, b]}), json!({"merge": [a, [b]]})],
                    _ => vec![json!({"cat": [a, "|", b]}), json!({"substr": [b, 0, 3]}), json!({"substr": [a, -2]})],
                };
                for r in rules {
                    ctx.check("hash-colliding-numbers", &r, &null);
                }
            }
        }
    }
    if ["C04", "C11", "C12", "C13", "C14", "C15"].contains(&prop.as_str()) && ctx.mine() {
        for round in 0..2 {
            for (_h, a, b) in al::hash_colliding_keys() {
                let (a, b) = if round == 0 { (a, b) } else { (b, a) };
                let d = json!({a: "under-a", b: {"x": "under-b"}, "o": {a: 1, b: 2}, "rows": [{a: 1}, {b: 2}]});
                ctx.edge();
                let rules: Vec<Value> = match prop.as_str() {
                    "C12" => vec![json!({"missing": [a, b, "zz"]}), json!({"missing": [format!("o.{}", a), format!("o.{}", b), format!("{}.x", a), format!("{}.x", b)]}), json!({"missing_some": [2, [b, format!("{}.x", a)]]})],
                    "C13" | "C14" => vec![json!({"map": [{"var": "rows"}, {"var": a}]}), json!({"map": [{"var": "rows"}, {"var": b}]}), json!({"filter": [{"var": "rows"}, {"var": b}]}), json!({"some": [{"var": "rows"}, {"var": a}]}), json!({"all": [{"var": "rows"}, {"var": b}]})],
                    "C15" => vec![json!({"in": [a, [b, "x"]]}), json!({"in": [b, [b]]}), json!({"in": [a, {"cat": [b, a]}]}), json!({"in": [{a: 1}, [{b: 1}]]})],
                    _ => vec![json!({"var": a}), json!({"var": b}), json!({"var": format!("{}.x", b)}), json!({"var": [format!("{}.x", a), "dflt"]}), json!({"var": format!("o.{}", a)}), json!({"var": format!("o.{}", b)}), json!({"cat": [{"var": a}, {"var": format!("o.{}", b)}]})],
                };
                for r in rules {
                    ctx.check("hash-colliding-keys", &r, &d);
                }
            }
        }
    }
}

/// Relations BETWEEN the inputs of one call (round 21, added on my own review before the round's reports were
/// read): the data IS the rule (or holds it), the same reference stands in every operand position, a literal
/// operand of the rule equals the data it is compared / combined with, the data's keys are spelled like operator
/// names and like the rule's own string literals. The result depends on the VALUES only: nothing may be decided by
/// identity, by equal spelling of two operands, or by a data key that happens to name an operator.
pub fn relation_probes(ctx: &mut Ctx) {
    let prop = ctx.prop.clone();
    let ops_of: &[&str] = match prop.as_str() {
        "C02" | "C03" | "C04" => &crate::refmodel::OPS,
        "C05" | "C06" => &["if", "?:", "and", "or", "!", "!!", "filter", "all", "some", "none"],
        "C07" => &["==", "!="],
        "C08" => &["===", "!=="],
        "C09" => &["<", "<=", ">", ">="],
        "C10" => &["+", "-", "*", "/", "%", "max", "min"],
        "C11" => &["var"],
        "C12" => &["missing", "missing_some"],
        "C13" => &["map", "filter", "reduce"],
        "C14" => &["all", "some", "none"],
        "C15" => &["merge", "in"],
        "C16" => &["cat", "substr"],
        _ => return,
    };
    // (a) the rule applied to itself, to a list / record holding it, and to its own operand list
    for k in ops_of {
        if !ctx.mine() {
            continue;
        }
        for n in 0..=3usize {
            if !crate::refmodel::arity_ok(k, n) {
                continue;
            }
            ctx.edge();
            let args = crate::spaces::c03::benign(k, n);
            let mut rules = vec![al::op(k, args.clone())];
            // the same operator reading the data (= the rule) through every kind of whole-data reference
            for whole in [json!({"var": ""}), json!({"var": k}), json!({"var": format!("{}.0", k)}), json!({"var": [format!("{}.1", k), "dflt"]}), json!({"var": "0"})] {
                for pos in 0..n {
                    let mut a = args.clone();
                    a[pos] = whole.clone();
                    rules.push(al::op(k, a));
                }
            }
            for r in rules {
                let datas = [r.clone(), json!([r.clone()]), json!({"a": r.clone()}), Value::Array(args.clone()), json!({*k: args.clone()}), json!({*k: 1, "a": 2})];
                for d in &datas {
                    ctx.check("relation:rule-as-data", &r, d);
                }
            }
        }
    }
    // (b) data whose keys are operator names and whose values look like that operator's operands
    if ["C02", "C04", "C11", "C12", "C13", "C14"].contains(&prop.as_str()) {
        let mut m = serde_json::Map::new();
        for k in crate::refmodel::OPS {
            m.insert(k.to_string(), json!([k, 1]));
        }
        let d = Value::Object(m);
        let rows: Vec<Value> = crate::refmodel::OPS.iter().map(|k| json!({*k: [1, 2], "name": k})).collect();
        let drows = json!({"rows": rows, "var": "var", "missing": ["var"], "if": [true, 1, 2]});
        for k in crate::refmodel::OPS {
            if !ctx.mine() {
                continue;
            }
            ctx.edge();
            let rules: Vec<(Value, &Value)> = match prop.as_str() {
                "C12" => vec![(json!({"missing": [k, format!("{}.0", k), format!("{}.2", k), "zz"]}), &d), (json!({"missing_some": [2, [k, "zz", format!("{}.5", k)]]}), &d), (json!({"missing": {"var": "missing"}}), &drows)],
                "C13" => vec![(json!({"map": [{"var": "rows"}, {"var": k}]}), &drows), (json!({"filter": [{"var": "rows"}, {"var": k}]}), &drows), (json!({"reduce": [{"var": "rows"}, {"cat": [{"var": "accumulator"}, {"var": format!("current.{}.0", k)}]}, ""]}), &drows)],
                "C14" => vec![(json!({"all": [{"var": "rows"}, {"var": k}]}), &drows), (json!({"some": [{"var": "rows"}, {"===": [{"var": "name"}, k]}]}), &drows), (json!({"none": [{"var": k}, {"===": [{"var": ""}, k]}]}), &d)],
                _ => vec![(json!({"var": k}), &d), (json!({"var": [k, "dflt"]}), &d), (json!({"var": format!("{}.0", k)}), &d), (json!({"var": {"var": format!("{}.0", k)}}), &d), (json!({"cat": [{"var": k}, "|", {"var": "var"}]}), &drows), (json!({"var": {"var": "var"}}), &drows)],
            };
            for (r, dd) in rules {
                ctx.check("relation:operator-named-keys", &r, dd);
            }
        }
    }
    // (c) the same reference in every operand position, and a literal operand equal to the data it meets
    if !["C04", "C07", "C08", "C09", "C10", "C15", "C16"].contains(&prop.as_str()) {
        return;
    }
    let mut vals = al::v1_plain();
    vals.extend(al::numbers_small());
    vals.extend(al::s_num().into_iter().step_by(3));
    vals.extend(al::wrapped_scalars().into_iter().step_by(2));
    let vals = al::dedup(vals);
    let bin: &[&str] = match prop.as_str() {
        "C04" => &["==", "===", "<=", "-", "/", "%", "max", "in", "merge", "cat", "substr"],
        "C15" => &["in", "merge"],
        "C16" => &["cat", "substr"],
        _ => ops_of,
    };
    for v in &vals {
        if !ctx.mine() {
            continue;
        }
        let da = json!({"a": v, "b": [v], "c": [[v]], "s": crate::refmodel::str_form(v)});
        for k in bin {
            ctx.edge();
            let a = json!({"var": "a"});
            let w = json!({"var": ""});
            let mut cases: Vec<(Value, Value)> = vec![
                (al::op(k, vec![a.clone(), a.clone()]), da.clone()),
                (al::op(k, vec![w.clone(), w.clone()]), v.clone()),
                (al::op(k, vec![json!({"if": [true, a]}), json!({"or": [a, a]})]), da.clone()),
                (al::op(k, vec![a.clone(), json!({"var": "b"})]), da.clone()),
                (al::op(k, vec![json!({"var": "b"}), a.clone()]), da.clone()),
                (al::op(k, vec![a.clone(), json!({"var": "s"})]), da.clone()),
                (al::op(k, vec![json!({"var": "b"}), json!({"var": "c"})]), da.clone()),
                (al::op(k, vec![json!({"var": "b"}), json!({"var": "b"})]), da.clone()),
            ];
            if crate::refmodel::arity_ok(k, 3) {
                cases.push((al::op(k, vec![a.clone(), a.clone(), a.clone()]), da.clone()));
                cases.push((al::op(k, vec![w.clone(), w.clone(), w.clone()]), v.clone()));
            }
            if !al::is_operation_shaped(v) {
                cases.push((al::op(k, vec![v.clone(), w.clone()]), v.clone()));
                cases.push((al::op(k, vec![w.clone(), v.clone()]), v.clone()));
                cases.push((al::op(k, vec![v.clone(), a.clone()]), da.clone()));
                if crate::refmodel::arity_ok(k, 3) {
                    cases.push((al::op(k, vec![v.clone(), w.clone(), v.clone()]), v.clone()));
                }
            }
            for (r, d) in cases {
                ctx.check("relation:same-reference", &r, &d);
            }
        }
    }
}

fn insert_path(root: &mut Value, segs: &[String], val: Value) -> bool {
    let mut cur = root;
    for (i, s) in segs.iter().enumerate() {
        let m = match cur.as_object_mut() {
            Some(m) => m,
            None => return false,
        };
        if i + 1 == segs.len() {
            if m.contains_key(s) {
                return false;
            }
            m.insert(s.clone(), val);
            return true;
        }
        cur = m.entry(s.clone()).or_insert_with(|| json!({}));
    }
    false
}

/// Different paths whose segment lists collapse to ONE text under a joiner (`alphabet::join_colliding_paths`):
/// every subset of the readings present in the data (each under its own value), the keys together in one call
/// (key lists of missing / missing_some in every order, several `var`s in one rule, per-element lookups) and one
/// right after the other in separate calls. Found missing by R21-C12-1 (a lookup remembered under the joined text
/// of its parent path).
pub fn path_twin_probes(ctx: &mut Ctx) {
    let prop = ctx.prop.clone();
    if !["C04", "C11", "C12", "C13", "C14", "C17"].contains(&prop.as_str()) {
        return;
    }
    for group in al::join_colliding_paths() {
        let segs: Vec<Option<Vec<String>>> = group.iter().map(|p| crate::refmodel::split_path(p)).collect();
        for mask in 0u32..(1 << group.len()) {
            if !ctx.mine() {
                continue;
            }
            let mut d = json!({});
            for (i, s) in segs.iter().enumerate() {
                if mask & (1 << i) != 0 {
                    if let Some(s) = s {
                        insert_path(&mut d, s, json!(format!("at:{}", i)));
                    }
                }
            }
            let n = group.len();
            match prop.as_str() {
                "C12" => {
                    for a in 0..n {
                        for b in 0..n {
                            ctx.edge();
                            ctx.check("path-twins:missing", &json!({"missing": [group[a], group[b]]}), &d);
                            ctx.check("path-twins:missing:array-form", &json!({"missing": [[group[b], group[a], "zz"]]}), &d);
                            for t in 1..=2 {
                                ctx.check("path-twins:missing_some", &json!({"missing_some": [t, [group[a], group[b]]]}), &d);
                            }
                            for c in 0..n {
                                ctx.check("path-twins:missing", &json!({"missing": [group[a], group[b], group[c]]}), &d);
                                ctx.check("path-twins:missing_some", &json!({"missing_some": [3, [group[a], group[b], group[c]]]}), &d);
                            }
                        }
                    }
                }
                "C13" | "C14" => {
                    let rows = json!({"rows": [d.clone(), {}, d.clone()], "d": d.clone()});
                    for a in 0..n {
                        for b in 0..n {
                            ctx.edge();
                            let e = json!({"cat": [{"var": [group[a], "-"]}, "|", {"var": [group[b], "-"]}]});
                            if prop == "C13" {
                                ctx.check("path-twins:map", &json!({"map": [{"var": "rows"}, e]}), &rows);
                                ctx.check("path-twins:filter", &json!({"filter": [{"var": "rows"}, {"and": [{"var": group[a]}, {"var": group[b]}]}]}), &rows);
                                ctx.check("path-twins:reduce", &json!({"reduce": [{"var": "rows"}, {"cat": [{"var": "accumulator"}, {"var": [format!("current.{}", group[a]), "-"]}, {"var": [format!("current.{}", group[b]), "-"]}]}, ""]}), &rows);
                            } else {
                                ctx.check("path-twins:some", &json!({"some": [{"var": "rows"}, {"and": [{"var": group[a]}, {"!": [{"var": group[b]}]}]}]}), &rows);
                                ctx.check("path-twins:all", &json!({"all": [{"var": "rows"}, {"or": [{"var": group[a]}, {"var": group[b]}]}]}), &rows);
                                ctx.check("path-twins:none", &json!({"none": [{"var": "rows"}, {"===": [{"var": group[a]}, {"var": group[b]}]}]}), &rows);
                            }
                        }
                    }
                }
                "C17" => {
                    // one call after the other on this thread, each with its own rule
                    for round in 0..2 {
                        for a in 0..n {
                            ctx.edge();
                            let k = if round == 0 { group[a] } else { group[n - 1 - a] };
                            ctx.check("path-twins:sequence", &json!({"var": [k, "dflt"]}), &d);
                            ctx.check("path-twins:sequence", &json!({"missing": [k]}), &d);
                            ctx.check("path-twins:sequence", &json!({"missing_some": [1, [k, "zz"]]}), &d);
                        }
                    }
                }
                _ => {
                    for a in 0..n {
                        for b in 0..n {
                            ctx.edge();
                            ctx.check("path-twins:var-pair", &json!({"merge": [{"var": group[a]}, {"var": [group[b], "dflt"]}]}), &d);
                            ctx.check("path-twins:var-pair", &json!({"cat": [{"var": group[b]}, "|", {"var": group[a]}, "|", {"var": group[b]}]}), &d);
                            ctx.check("path-twins:var-pair", &json!({"if": [{"var": group[a]}, {"var": group[b]}, {"var": [group[b], "else"]}]}), &d);
                            ctx.check("path-twins:var-pair:computed", &json!({"==": [{"var": {"cat": [group[a]]}}, {"var": {"cat": [group[b]]}}]}), &d);
                        }
                    }
                }
            }
        }
    }
}

/// Spellings that a normalising key would conflate (`alphabet::normalisation_twin_groups`; also the confusable
/// string pairs) converted ONE RIGHT AFTER THE OTHER on this thread, in both orders and back again, under every
/// coercion family and as lookup keys: each call is judged against R, so whatever an earlier call left behind
/// under a shared key shows in the later one. Found missing for C17 by R21-C17-2 (a per-thread conversion memo
/// keyed on the lower-cased text: "Infinity" then "infinity").
pub fn twin_sequence_probes(ctx: &mut Ctx) {
    let prop = ctx.prop.clone();
    if !["C07", "C09", "C10", "C17"].contains(&prop.as_str()) {
        return;
    }
    let rules_for = |s: &str| -> Vec<Value> {
        let all = vec![
            json!({">": [s, 1]}), json!({"<": [s, 1]}), json!({"<=": [1, s]}), json!({"==": [s, 255]}), json!({"==": [s, 1]}), json!({"==": [s, 0]}), json!({"!=": [s, 1000]}), json!({"==": [[s], 1]}),
            json!({"-": [s]}), json!({"-": [s, 0]}), json!({"*": [s, 1]}), json!({"+": [s]}), json!({"/": [s, 1]}), json!({"%": [s, 7]}), json!({"max": [s, 0]}), json!({"min": [s, 2]}),
            json!({"<": [0, s, 1e300]}), json!({"!!": [s]}), json!({"in": [s, ["1", 1, "0xff", "Infinity"]]}), json!({"===": [s, "1"]}), json!({"cat": [s]}), json!({"var": [s, "dflt"]}), json!({"missing": [s]}),
        ];
        match prop.as_str() {
            "C07" => all.into_iter().filter(|r| r.get("==").is_some() || r.get("!=").is_some()).collect(),
            "C09" => all.into_iter().filter(|r| r.get("<").is_some() || r.get(">").is_some() || r.get("<=").is_some()).collect(),
            "C10" => all.into_iter().filter(|r| ["-", "*", "+", "/", "%", "max", "min"].iter().any(|k| r.get(*k).is_some())).collect(),
            _ => all,
        }
    };
    let d = json!({"1": "one", "Infinity": "inf-key", "0xff": "hex-key", "": "empty-key", "1e3": "exp-key", "true": "t", "NaN": "n", "12px": "p", ".5": "half"});
    let mut groups: Vec<Vec<String>> = al::normalisation_twin_groups().into_iter().map(|g| g.into_iter().map(|s| s.to_string()).collect()).collect();
    for (a, b) in al::confusable_pairs() {
        groups.push(vec![a, b]);
    }
    for g in groups {
        if !ctx.mine() {
            continue;
        }
        for i in 0..g.len() {
            for j in 0..g.len() {
                if i == j {
                    continue;
                }
                ctx.edge();
                // a, b, a - every family; then through the data instead of the rule
                for s in [&g[i], &g[j], &g[i]] {
                    for r in rules_for(s) {
                        ctx.check("twin-sequence:literal", &r, &d);
                    }
                }
                if prop == "C17" {
                    for s in [&g[i], &g[j], &g[i]] {
                        let dd = json!({"x": s, "xs": [s, g[i], g[j]]});
                        for r in [json!({">": [{"var": "x"}, 1]}), json!({"-": [{"var": "x"}, 0]}), json!({"*": [{"var": "x"}, 1]}), json!({"==": [{"var": "x"}, 1]}), json!({"map": [{"var": "xs"}, {"-": [{"var": ""}]}]}), json!({"filter": [{"var": "xs"}, {">": [{"var": ""}, 0]}]}), json!({"map": [{"var": "xs"}, {"*": [{"var": ""}, 1]}]})] {
                            ctx.check("twin-sequence:data", &r, &dd);
                        }
                    }
                }
            }
        }
    }
}

/// The result of a call does not depend on the process environment: for every environment variable of
/// `alphabet::env_names` (standard names + every name the tree under test mentions next to an environment
/// accessor) and every value of `alphabet::env_values`, a fixed list of calls - every operator family, the
/// coercions, lookups, deep rules built in memory (nesting 100 .. 1500, beyond what a JSON text can carry) and
/// long operand lists - returns what it returns with the variable unset (an oracle-free law; the shallow calls are
/// judged against R as well), before and after the current directory changes. Found missing by R21-C17-1 (a depth
/// limit derived from RUST_MIN_STACK, read on every call).
pub fn environment_probes(ctx: &mut Ctx) {
    let null = Value::Null;
    let d = json!({"a": {"b": [1, "2", null]}, "s": "h\u{e9}llo", "n": "0x10", "xs": [3, 1, 2]});
    let mut calls: Vec<(Value, Value)> = vec![
        (json!({"var": "a.b.1"}), d.clone()), (json!({"missing": ["a.b.7", "s", "zz"]}), d.clone()), (json!({"+": [{"var": "n"}, "12px", 1.5]}), d.clone()), (json!({"-": [{"var": "n"}, " 1 "]}), d.clone()),
        (json!({"<": [1, "1e1", 1e300]}), null.clone()), (json!({"==": [[1], "1"]}), null.clone()), (json!({"cat": [1.0, null, [1, [2]], {}]}), null.clone()), (json!({"substr": [{"var": "s"}, -3, 2]}), d.clone()),
        (json!({"map": [{"var": "xs"}, {"*": [{"var": ""}, 2]}]}), d.clone()), (json!({"reduce": [{"var": "xs"}, {"max": [{"var": "current"}, {"var": "accumulator"}]}, 0]}), d.clone()), (json!({"all": [{"var": "s"}, {"!=": [{"var": ""}, "z"]}]}), d.clone()),
        (json!({"if": [{"var": "zz"}, 1, {"in": ["l", {"var": "s"}]}, "found", "no"]}), d.clone()), (json!({"log": {"var": "s"}}), d.clone()), (json!({"+": ["x"]}), null.clone()), (json!({"==": []}), null.clone()), (json!({"merge": [[1], 2, [[3]]]}), null.clone()),
        (json!({"max": (0..300).map(|i| json!(i)).collect::<Vec<_>>()}), null.clone()), (json!({"cat": (0..1000).map(|i| json!(i % 10)).collect::<Vec<_>>()}), null.clone()),
    ];
    let shallow = calls.len();
    for depth in [100usize, 300, 600, 1000, 1500] {
        let mut r = json!({"var": "s"});
        let mut e = json!({"+": ["x"]});
        let mut l = json!(1);
        for i in 0..depth {
            // (lazy operators re-parse their operands level by level - quadratic in the depth - so the deepest rules
            // are chains of eager operators)
            r = match (i % 4, depth <= 300) { (0, _) => json!({"!": [r]}), (1, _) => json!({"cat": [r]}), (2, true) => json!({"if": [true, r, 0]}), (3, true) => json!({"and": [1, r]}), (2, false) => json!({"!!": [r]}), _ => json!({"merge": [r]}) };
            e = json!({"!": [e]});
            l = json!([l]);
        }
        calls.push((r, d.clone()));
        calls.push((e, null.clone()));
        calls.push((json!({"cat": [l.clone()]}), null.clone()));
        calls.push((json!({"var": ""}), l));
    }
    // baseline: environment as the check found it, the variables of the alphabet unset
    let names = al::env_names();
    let saved: Vec<(String, Option<std::ffi::OsString>)> = names.iter().map(|n| (n.clone(), std::env::var_os(n))).collect();
    let cwd = std::env::current_dir().ok();
    let mut units: Vec<(String, Option<&'static str>)> = Vec::new();
    for n in &names {
        for v in al::env_values() {
            units.push((n.clone(), Some(v)));
        }
    }
    units.push(("(current directory = /)".into(), None));
    units.push(("(current directory = /tmp)".into(), None));
    let mut base: Vec<Obs> = Vec::new();
    for (name, val) in units {
        if !ctx.mine() {
            continue;
        }
        for n in &names {
            std::env::remove_var(n);
        }
        if base.is_empty() {
            base = calls.iter().map(|(r, dd)| ctx.exec(r, dd)).collect();
        }
        match val {
            Some(v) => std::env::set_var(&name, v),
            None => {
                let _ = std::env::set_current_dir(if name.contains("/tmp") { "/tmp" } else { "/" });
            }
        }
        for (i, (r, dd)) in calls.iter().enumerate() {
            ctx.edge();
            let o = if i < shallow { ctx.check("environment:judged", r, dd) } else { ctx.exec(r, dd) };
            if o.out != base[i].out || o.log != base[i].log {
                let shown = if crate::ctx::depth_of(r) > 60 { json!(format!("<rule nested {} levels: {}...>", crate::ctx::depth_of(r), &r.to_string()[..60])) } else { r.clone() };
                let shown_d = if crate::ctx::depth_of(dd) > 60 { json!("<nested data>") } else { dd.clone() };
                ctx.law_fail("law:environment-independence", &shown, &json!({"data": shown_d, "environment": format!("{}={:?}", name, val)}), format!("as with the variable unset: {}", base[i].show().chars().take(200).collect::<String>()), o.show().chars().take(200).collect());
            }
            ctx.note_outcome("environment:law", o.class());
        }
        if let Some(c) = &cwd {
            let _ = std::env::set_current_dir(c);
        }
        for n in &names {
            std::env::remove_var(n);
        }
    }
    for (n, v) in saved {
        match v {
            Some(v) => std::env::set_var(&n, v),
            None => std::env::remove_var(&n),
        }
    }
}
