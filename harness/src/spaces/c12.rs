//! C12 - missing / missing_some report exactly the keys that var cannot find.
//!
//! Space: data trees x key lists of length 0..4 over K (duplicates, dotted paths, integer and
//! null keys, list given as operands / as one array / computed by merge or var) x thresholds
//! 0..n+1. Oracle: R (Appendix A.8) + the cross-operator law "k is reported missing iff
//! {"var":[k, SENTINEL]} returns the sentinel on the same data".

use crate::alphabet::{self as al, op};
use crate::ctx::Ctx;
use serde_json::{json, Value};

pub fn datas() -> Vec<Value> {
    vec![
        json!({}),
        json!({"a": 1}),
        json!({"a": null, "b": ""}),
        json!({"a": 0, "b": false, "c": []}),
        json!({"a": {"b": 1, "c": null}, "a.b": 2}),
        json!({"1": "one", "x": ["p", "q"]}),
        json!(["p", null]),
        json!({"x": "hé", "a": [0]}),
        json!("hé"),
        json!(null),
        json!(3),
    ]
}

pub fn keys(thorough: bool) -> Vec<Value> {
    let mut k = vec![
        json!("a"), json!("b"), json!("zz"), json!("a.b"), json!("a.c"), json!("a\\.b"), json!(1), json!(0), json!(-1),
        json!("x.1"), json!(null), json!(""), json!("x.-1"), json!("-1"),
    ];
    if thorough {
        k.extend([json!("c"), json!("x.-3"), json!("x.2"), json!(5), json!("1"), json!("a.b.c"), json!("-2"), json!("0")]);
    }
    k
}

pub fn meta(thorough: bool) -> (String, Value) {
    (
        "choice tree: data -> key list (length 0..4 over K, with duplicates) -> form (operands / one array / computed by merge / read by var) for missing; -> threshold 0..n+1 for missing_some; leaf = one apply() compared with R; law: membership in the result == var returns its sentinel default; non-trivial = R specifies the outcome; distinct = distinct (rule,data) text".into(),
        json!({"datas": datas().len(), "keys": keys(thorough).len(), "list_lengths": "0..4 (length 4 over the first 7 keys in quick)"}),
    )
}

fn lists(thorough: bool) -> Vec<Vec<Value>> {
    let k = keys(thorough);
    let mut out: Vec<Vec<Value>> = vec![vec![]];
    for a in &k {
        out.push(vec![a.clone()]);
    }
    for a in &k {
        for b in &k {
            out.push(vec![a.clone(), b.clone()]);
        }
    }
    for a in &k {
        for b in &k {
            for c in &k {
                out.push(vec![a.clone(), b.clone(), c.clone()]);
            }
        }
    }
    let k4: Vec<Value> = if thorough { k.iter().take(10).cloned().collect() } else { k.iter().take(6).cloned().collect() };
    for a in &k4 {
        for b in &k4 {
            for c in &k4 {
                for d in &k4 {
                    out.push(vec![a.clone(), b.clone(), c.clone(), d.clone()]);
                }
            }
        }
    }
    out
}

pub fn run(ctx: &mut Ctx) {
    let ds = datas();
    let ls = lists(ctx.tier_thorough);
    let sentinel = json!("§SENTINEL§");
    // the debug profile runs the shorter lists only
    let maxlen = if ctx.profile != "dev" { 4 } else { 2 };
    for l in &ls {
        if l.len() > maxlen {
            continue;
        }
        if !ctx.mine() {
            continue;
        }
        for d in &ds {
            ctx.edge();
            // missing: keys as operands
            let r1 = op("missing", l.clone());
            let o1 = ctx.check("missing:operands", &r1, d);
            // keys as one array operand
            let r2 = op("missing", vec![Value::Array(l.clone())]);
            let o2 = ctx.check("missing:array", &r2, d);
            // law: the two forms agree, unless the first operand-form key is itself an array (none here)
            if o1.ok() != o2.ok() || o1.is_err() != o2.is_err() {
                if !l.is_empty() {
                    ctx.law_fail("law:array-form", &r2, d, o1.show(), o2.show());
                }
            }
            // computed list
            let r3 = json!({"missing": {"merge": [l.clone()]}});
            ctx.check("missing:merge", &r3, d);
            // law against var
            if let Some(Value::Array(reported)) = o1.ok() {
                for k in l {
                    if k.is_null() {
                        continue;
                    }
                    let ov = ctx.exec(&json!({"var": [k, sentinel]}), d);
                    if let Some(v) = ov.ok() {
                        let absent = *v == sentinel;
                        let rep = reported.contains(k);
                        if absent != rep {
                            ctx.law_fail("law:missing-iff-var-absent", &r1, d, format!("key {} absent-by-var={}", k, absent), format!("reported={}", rep));
                        }
                    }
                }
            }
            // missing_some for every threshold
            for n in 0..=(l.len() + 1) {
                ctx.edge();
                let r = json!({"missing_some": [n, l]});
                let o = ctx.check("missing_some", &r, d);
                // law: a reported key is absent by var; an absent key is never dropped unless the threshold was met
                if let Some(Value::Array(rep)) = o.ok() {
                    for k in rep {
                        let ov = ctx.exec(&json!({"var": [k, sentinel]}), d);
                        if let Some(v) = ov.ok() {
                            if *v != sentinel {
                                ctx.law_fail("law:missing_some-reports-only-absent", &r, d, format!("{} is present", k), o.show());
                            }
                        }
                    }
                }
            }
        }
    }
    // missing / missing_some agree with var on the whole path space of C11 (trees x paths)
    {
        let depth = if ctx.tier_thorough && ctx.profile != "dev" { 2 } else { 1 };
        let ts = crate::spaces::c11::trees(depth, ctx.tier_thorough);
        let ps = crate::spaces::c11::paths(ctx.tier_thorough);
        for t in &ts {
            if !ctx.mine() {
                continue;
            }
            for p in &ps {
                ctx.edge();
                ctx.check("missing:path-space", &json!({"missing": [p]}), t);
                ctx.check("missing_some:path-space", &json!({"missing_some": [1, [p, "§never§"]]}), t);
            }
            for i in -4i64..=4 {
                ctx.check("missing:index-space", &json!({"missing": [i]}), t);
                ctx.check("missing_some:index-space", &json!({"missing_some": [1, [i]]}), t);
            }
        }
        // strings of every byte-width mix, integer and string-segment indices around both lengths
        for st in al::s_uni(3) {
            if !ctx.mine() {
                continue;
            }
            let d = json!({"w": st});
            for i in -8i64..=8 {
                ctx.edge();
                ctx.check("missing:string-index", &json!({"missing": [i, format!("{}", i)]}), &json!(st));
                ctx.check("missing:string-index:path", &json!({"missing": [format!("w.{}", i)]}), &d);
                ctx.check("missing_some:string-index:path", &json!({"missing_some": [1, [format!("w.{}", i)]]}), &d);
            }
        }
    }
    // size probes: long key lists with the present keys at chosen positions
    for n in al::size_classes(ctx.tier_thorough) {
        if n > 300 {
            continue;
        }
        if !ctx.mine() {
            continue;
        }
        let d = json!({"p0": 1, "p1": null, "p2": "", "arr": [1, 2], "o": {"x": 0}});
        let present = ["p0", "p1", "p2", "arr.0", "arr.-1", "o.x"];
        for stride in [1usize, 2, 3, 7] {
            ctx.edge();
            let keys: Vec<Value> = (0..n).map(|i| if i % stride == 0 { json!(present[(i / stride) % present.len()]) } else { json!(format!("absent{}", i % 5)) }).collect();
            let o = ctx.check("missing:size-probe", &op("missing", keys.clone()), &d);
            ctx.check("missing:size-probe:array", &op("missing", vec![Value::Array(keys.clone())]), &d);
            let distinct_present = keys.iter().filter(|k| present.contains(&k.as_str().unwrap_or(""))).map(|k| k.to_string()).collect::<std::collections::BTreeSet<_>>().len();
            for t in [0usize, 1, distinct_present.saturating_sub(1), distinct_present, distinct_present + 1, n, n + 1] {
                ctx.check("missing_some:size-probe", &json!({"missing_some": [t, keys]}), &d);
            }
            let _ = o;
        }
        // the same key spelled as integer and as string (distinct keys), all absent / half present
        for dd in [json!({"a": 1}), json!({"100": 1, "102": null}), json!(["p", "q"])] {
            ctx.edge();
            let keys: Vec<Value> = (0..n).map(|i| if i % 2 == 0 { json!(100 + (i / 2) as i64 % 7) } else { json!(format!("{}", 100 + (i / 2) % 7)) }).collect();
            ctx.check("missing:size-probe:int-and-string", &op("missing", keys.clone()), &dd);
            for t in [1usize, 2, n] {
                ctx.check("missing_some:size-probe:int-and-string", &json!({"missing_some": [t, keys]}), &dd);
            }
            let keys2: Vec<Value> = (0..n).map(|i| if i % 2 == 0 { json!(i as i64 / 2) } else { json!(format!("{}", i / 2)) }).collect();
            ctx.check("missing_some:size-probe:int-and-string:distinct", &json!({"missing_some": [n + 1, keys2]}), &dd);
        }
    }
    // data-carried lists, thresholds of other types, the array-first-operand rule
    if ctx.mine() {
        let d = json!({"a": 1, "need": ["a", "b", "c"], "n": 2, "b": null});
        for r in [
            json!({"missing": {"var": "need"}}),
            json!({"missing": [{"var": "need"}]}),
            json!({"missing": [{"var": "need"}, "zz"]}),
            json!({"missing": [["a", "zz"], "yy"]}),
            json!({"missing": ["yy", ["a", "zz"]]}),
            json!({"missing": "a"}),
            json!({"missing": "zz"}),
            json!({"missing": []}),
            json!({"missing": [[]]}),
            json!({"missing_some": [{"var": "n"}, {"var": "need"}]}),
            json!({"missing_some": [1, {"merge": [["a"], "zz"]}]}),
            json!({"missing_some": [3, {"var": "need"}]}),
            json!({"missing_some": ["2", ["a", "b"]]}),
            json!({"missing_some": [-1, ["a", "b"]]}),
            json!({"missing_some": [1.5, ["a", "b"]]}),
            json!({"missing_some": [1, "a"]}),
            json!({"missing_some": [1, null]}),
            json!({"missing_some": [18446744073709551615u64, ["a", "zz"]]}),
            json!({"if": [{"missing": ["a", "b"]}, "incomplete", "ok"]}),
            json!({"if": [{"missing": ["a", "zz"]}, "incomplete", "ok"]}),
        ] {
            ctx.edge();
            ctx.check("forms", &r, &d);
        }
    }
    crate::spaces::render_probes(ctx, &["missing", "missing_some"]);
    // thresholds of every number kind and magnitude (the count needed is a number like any other: beyond the key
    // count, beyond 2^31 / 2^32 / 2^53 / 2^63, u64::MAX, negative, fractional, -0, a numeric string)
    {
        let mut ths: Vec<Value> = al::ints_extreme();
        ths.extend(al::magnitude_ladder().into_iter().step_by(4));
        ths.extend(["0", "-0.0", "1.0", "1.5", "2.0", "-1", "0.5", "\"1\"", "\"2\"", "null", "true", "[1]", "3", "4", "2147483648", "4294967296", "9223372036854775807", "9223372036854775808", "18446744073709551615", "1e19", "1e300"].iter().map(|t| al::parse(t)));
        for th in al::dedup(ths) {
            if !ctx.mine() {
                continue;
            }
            for (keys, d) in [(json!(["x"]), json!({})), (json!(["x", "y.z", 0]), json!({"y": {"z": false}})), (json!(["a", "b"]), json!({"a": 1, "b": 2})), (json!(["a", "b", "c"]), json!({"a": 1})), (json!([]), json!({}))] {
                ctx.edge();
                ctx.check("threshold-kinds", &json!({"missing_some": [th, keys]}), &d);
                ctx.check("threshold-kinds:V", &json!({"missing_some": [{"var": "t"}, keys]}), &json!({"t": th, "a": 1}));
            }
        }
    }
    // key lists whose entries are themselves lists (a key list inside the key list, to any of three levels), objects
    // or booleans, at every position, for every threshold: `missing` flattens only a FIRST operand that is an
    // array (its documented quirk); everything else that is not a string, an integer or null is not a key
    {
        let entries: Vec<Value> = ["\"a\"", "\"zz\"", "1", "null", "[]", "[\"a\"]", "[\"zz\",\"yy\"]", "[\"zz\",\"yy\",\"xx\"]", "[[\"zz\",\"yy\"]]", "[5,6,7]", "{}", "true", "1.5", "[null]", "[[]]", "[{\"var\":\"k\"},\"zz\"]", "{\"var\":\"k\"}", "[[\"a\",\"zz\"]]"].iter().map(|t| al::parse(t)).collect();
        let mut lists: Vec<Vec<Value>> = vec![];
        for a in &entries {
            lists.push(vec![a.clone()]);
            for b in &entries {
                lists.push(vec![a.clone(), b.clone()]);
            }
        }
        for a in entries.iter().skip(4) {
            for b in entries.iter().take(6) {
                for c in entries.iter().take(6) {
                    lists.push(vec![a.clone(), b.clone(), c.clone()]);
                    lists.push(vec![b.clone(), a.clone(), c.clone()]);
                }
            }
        }
        for l in lists {
            if !ctx.mine() {
                continue;
            }
            for d in [json!({"a": 1, "c": 2}), json!([1, 2]), json!({}), json!("s")] {
                ctx.edge();
                ctx.check("nested-key-lists:missing", &op("missing", l.clone()), &d);
                ctx.check("nested-key-lists:missing:array", &op("missing", vec![Value::Array(l.clone())]), &d);
                ctx.check("nested-key-lists:missing:computed", &json!({"missing": {"var": "ks"}}), &json!({"ks": l, "a": 1}));
                for need in 0..=(l.len() + 2) {
                    ctx.check("nested-key-lists:missing_some", &json!({"missing_some": [need, l]}), &d);
                }
                ctx.check("nested-key-lists:missing_some:computed", &json!({"missing_some": [1, {"var": "ks"}]}), &json!({"ks": l, "a": 1}));
            }
        }
    }
    crate::spaces::width_probes(ctx);
    crate::spaces::sweep::length_sweep(ctx);
    crate::spaces::type_grid_probes(ctx, &["missing", "missing_some"]);
    crate::spaces::depth_probes(ctx);
}
