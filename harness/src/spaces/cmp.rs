//! C07 (`==` `!=`), C08 (`===` `!==`), C09 (`<` `<=` `>` `>=` incl. between).
//!
//! Space: all ordered pairs over the pairwise corpus P (the corpus whose ECMAScript verdicts
//! are recorded from V8) x operators x provenance channel {literal, via var}, the public
//! helpers of `js_op` on distinct clones, and for C09 all triples over a sub-corpus.
//! Oracle: R (= ECMA-262 IsLooselyEqual / IsStrictlyEqual / IsLessThan over JSON values,
//! validated against V8) + laws (symmetry, exact negation, === implies ==, a>b == b<a,
//! a>=b == b<=a, three operands = conjunction).

use crate::alphabet::{self as al, op};
use crate::ctx::Ctx;
use crate::refmodel;
use jsonlogic_rs::js_op;
use serde_json::{json, Value};

pub fn meta(prop: &str, thorough: bool) -> (String, Value) {
    let n = if thorough { al::pair_corpus_thorough().len() } else { al::pair_corpus().len() };
    let t = triple_corpus(thorough).len();
    let rule = format!(
        "choice tree: left operand a in P -> right operand b in P -> operator -> channel (L literal operands / V operands via var / helper = direct call of the public js_op function on distinct clones); leaf = one execution compared with R (validated against the recorded V8 verdicts) and with the algebraic laws; non-trivial = R specifies the verdict; distinct = distinct (rule,data) text. {}",
        if prop == "C09" { "Plus all triples over the sub-corpus T for the between form." } else { "" }
    );
    (rule, json!({"pair_corpus_size": n, "ordered_pairs": n * n, "triple_corpus_size": if prop == "C09" { t } else { 0 }}))
}

pub fn triple_corpus(thorough: bool) -> Vec<Value> {
    let t = [
        "null", "false", "true", "0", "1", "2", "3", "-1", "1.5", "-0.0", r#""""#, r#""1""#, r#""2""#, r#""10""#,
        r#""a""#, r#""b""#, r#"" 2 ""#, r#""0x2""#, "[]", "[1]", "[2]", "[1,2]", "{}", r#""1e1""#, "9007199254740993",
        "1e308", r#""Infinity""#, r#""inf""#, r#""é""#, r#""😀""#,
    ];
    let mut v: Vec<Value> = t.iter().map(|s| al::parse(s)).collect();
    if thorough {
        v.extend(["[null]", r#"["2"]"#, "[[2]]", r#""nan""#, r#""-1""#, r#""+2""#, "2.0", r#""2.0""#, "18446744073709551615", r#""\t3\n""#].iter().map(|s| al::parse(s)));
    }
    v
}

fn bool_of(o: &crate::exec::Obs) -> Option<bool> {
    o.ok().and_then(|v| v.as_bool())
}

pub fn run(ctx: &mut Ctx, prop: &str) {
    let p = if ctx.tier_thorough { al::pair_corpus_thorough() } else { al::pair_corpus() };
    let ops: &[&str] = match prop {
        "C07" => &["==", "!="],
        "C08" => &["===", "!=="],
        _ => &["<", "<=", ">", ">="],
    };
    let null = Value::Null;
    for a in &p {
        if !ctx.mine() {
            continue;
        }
        for b in &p {
            ctx.edge();
            let dv = json!({"a": a, "b": b});
            let mut got: Vec<Option<bool>> = Vec::new();
            for k in ops {
                ctx.edge();
                // channel L: both operands literal (P holds no operation-shaped value)
                let r1 = op(k, vec![a.clone(), b.clone()]);
                let o1 = ctx.check(&format!("{}:L", k), &r1, &null);
                // channel V: both through var
                let r2 = op(k, vec![json!({"var": "a"}), json!({"var": "b"})]);
                let o2 = ctx.check(&format!("{}:V", k), &r2, &dv);
                if bool_of(&o1) != bool_of(&o2) {
                    ctx.law_fail("law:channel-independence", &r1, &dv, "literal and var operands agree".into(), format!("{:?} vs {:?}", bool_of(&o1), bool_of(&o2)));
                }
                // channel C: operands computed by other operators (pass-through of if / or, re-built by merge / cat)
                let ca = match a {
                    Value::Array(_) => json!({"merge": [{"var": "a"}]}),
                    Value::String(_) => json!({"cat": [{"var": "a"}]}),
                    _ => json!({"if": [true, {"var": "a"}, 0]}),
                };
                let cb = json!({"or": [{"var": "b"}, {"var": "b"}]});
                let r3 = op(k, vec![ca, cb]);
                let o3 = ctx.check(&format!("{}:C", k), &r3, &dv);
                if bool_of(&o1) != bool_of(&o3) {
                    ctx.law_fail("law:channel-independence", &r3, &dv, "literal and computed operands agree".into(), format!("{:?} vs {:?}", bool_of(&o1), bool_of(&o3)));
                }
                got.push(bool_of(&o1));
                // public helper on distinct clones
                let (ca, cb) = (a.clone(), b.clone());
                let kk = *k;
                let oh = ctx.exec_fn(&|| json!({"helper": kk, "a": a, "b": b}).to_string(), move || {
                    Value::Bool(match kk {
                        "==" => js_op::abstract_eq(&ca, &cb),
                        "!=" => js_op::abstract_ne(&ca, &cb),
                        "===" => js_op::strict_eq(&ca, &cb),
                        "!==" => js_op::strict_ne(&ca, &cb),
                        "<" => js_op::abstract_lt(&ca, &cb),
                        "<=" => js_op::abstract_lte(&ca, &cb),
                        ">" => js_op::abstract_gt(&ca, &cb),
                        _ => js_op::abstract_gte(&ca, &cb),
                    })
                });
                let want = match *k {
                    "==" => refmodel::loose_eq(a, b),
                    "!=" => !refmodel::loose_eq(a, b),
                    "===" => refmodel::strict_eq(a, b),
                    "!==" => !refmodel::strict_eq(a, b),
                    r => refmodel::relational(r, a, b),
                };
                // the properties speak about the operators; the public helper is called for totality and its
                // verdict is only reported when it also disagrees with the operator built on it
                let helper_wrong = bool_of(&oh) != Some(want) && bool_of(&oh) != bool_of(&o1);
                let wanted = Value::Bool(want);
                ctx.judge_helper(&format!("{}:helper", k), json!({"helper": k, "a": a, "b": b}), &oh, if helper_wrong { Some(&wanted) } else { None });
            }
            // laws on this pair (oracle-free)
            match prop {
                "C07" | "C08" => {
                    if let (Some(e), Some(n)) = (got[0], got[1]) {
                        if e == n {
                            ctx.law_fail("law:negation", &op(ops[1], vec![a.clone(), b.clone()]), &null, "exact negation".into(), format!("{} -> {}, {} -> {}", ops[0], e, ops[1], n));
                        }
                    }
                    let rs = op(ops[0], vec![b.clone(), a.clone()]);
                    let os = ctx.exec(&rs, &null);
                    if bool_of(&os) != got[0] {
                        ctx.law_fail("law:symmetry", &rs, &null, format!("{:?}", got[0]), os.show());
                    }
                    if prop == "C08" && got[0] == Some(true) {
                        let re = op("==", vec![a.clone(), b.clone()]);
                        let oe = ctx.exec(&re, &null);
                        if bool_of(&oe) != Some(true) {
                            ctx.law_fail("law:===implies==", &re, &null, "true".into(), oe.show());
                        }
                    }
                }
                _ => {
                    // a>b == b<a ; a>=b == b<=a
                    let olt = ctx.exec(&op("<", vec![b.clone(), a.clone()]), &null);
                    if bool_of(&olt) != got[2] {
                        ctx.law_fail("law:a>b==b<a", &op(">", vec![a.clone(), b.clone()]), &null, format!("{:?}", bool_of(&olt)), format!("{:?}", got[2]));
                    }
                    let ole = ctx.exec(&op("<=", vec![b.clone(), a.clone()]), &null);
                    if bool_of(&ole) != got[3] {
                        ctx.law_fail("law:a>=b==b<=a", &op(">=", vec![a.clone(), b.clone()]), &null, format!("{:?}", bool_of(&ole)), format!("{:?}", got[3]));
                    }
                }
            }
        }
        if prop == "C08" {
            // the same field twice: containers obtained by evaluation are distinct instances
            ctx.edge();
            let r = json!({"===": [{"var": "a"}, {"var": "a"}]});
            ctx.check("===:same-var-twice", &r, &json!({"a": a}));
            let r = json!({"!==": [{"var": ""}, {"var": ""}]});
            ctx.check("!==:whole-data-twice", &r, a);
        }
    }
    // size probes: long strings and arrays that differ (or not) at position k
    for n in al::size_classes(ctx.tier_thorough) {
        if !ctx.mine() {
            continue;
        }
        let base: String = (0..n).map(|i| ['a', 'é', '水', '😀', '1'][i % 5]).collect();
        let digits: String = (0..n.min(300)).map(|i| char::from(b'0' + (i % 10) as u8)).collect();
        let mut variants: Vec<Value> = vec![json!(base), json!(digits), json!(format!(" {} ", digits)), json!(format!("{}.0", digits)), json!(format!("{}e0", digits))];
        for k in [0usize, n / 2, n - 1] {
            let v: String = base.chars().enumerate().map(|(i, c)| if i == k { 'b' } else { c }).collect();
            variants.push(json!(v));
            let arr: Vec<Value> = (0..n).map(|i| if i == k { json!(null) } else { json!(i % 10) }).collect();
            variants.push(Value::Array(arr));
        }
        variants.push(Value::Array((0..n).map(|i| json!(i % 10)).collect()));
        variants.push(json!((0..n).map(|i| (i % 10).to_string()).collect::<Vec<_>>().join(",")));
        variants.push(digits.parse::<f64>().ok().and_then(|f| serde_json::Number::from_f64(f)).map(Value::Number).unwrap_or(json!(0)));
        for a in &variants {
            for b in &variants {
                ctx.edge();
                for k in ops {
                    ctx.check(&format!("{}:size-probe", k), &op(k, vec![a.clone(), b.clone()]), &null);
                }
            }
        }
    }
    // containers whose string forms share prefixes around the "," separator (and, for == / ===, that
    // are structurally identical): all arrays of length 1..2 over a 10-element alphabet, pairwise
    {
        // (1 / 1.0 / -0.0 / 0, 2^53 / 2^53+1: the same double in different spellings next to each other)
        let el: Vec<Value> = ["1", "10", r#""1""#, r#""a""#, r#""a b""#, r#""a,b""#, "[1,2]", "[1]", "null", r#""""#, "[]", "[[]]", "[null]", "1.0", "0", "-0.0", "9007199254740992", "9007199254740993", "true"].iter().map(|t| al::parse(t)).collect();
        let mut arrs: Vec<Value> = Vec::new();
        for x in &el {
            arrs.push(json!([x]));
        }
        for x in &el {
            for y in &el {
                arrs.push(json!([x, y]));
            }
        }
        if ctx.tier_thorough {
            for x in el.iter().take(5) {
                for y in el.iter().take(5) {
                    for z in el.iter().take(5) {
                        arrs.push(json!([x, y, z]));
                    }
                }
            }
        }
        arrs.extend([json!("1,5"), json!("1,2,0"), json!("a,b"), json!("a b,c"), json!(",")]);
        // every array of the family against its own string form, and against that form plus / minus a comma
        let forms: Vec<Value> = arrs.iter().filter(|a| a.is_array()).map(|a| json!(crate::refmodel::str_form(a))).collect();
        let forms = al::dedup(forms);
        for a in arrs.clone().iter().filter(|a| a.is_array()) {
            if !ctx.mine() {
                continue;
            }
            for f in &forms {
                ctx.edge();
                for k in ops {
                    ctx.check(&format!("{}:array-family:own-form", k), &op(k, vec![a.clone(), f.clone()]), &null);
                    ctx.check(&format!("{}:array-family:own-form:swapped", k), &op(k, vec![f.clone(), a.clone()]), &null);
                }
            }
        }
        for a in &arrs {
            if !ctx.mine() {
                continue;
            }
            for b in &arrs {
                ctx.edge();
                for k in ops {
                    ctx.check(&format!("{}:array-family", k), &op(k, vec![a.clone(), b.clone()]), &null);
                }
            }
        }
    }
    // white-space blocks: "1" wrapped in (and each of) every character of the blocks around the white-space
    // and format characters, against a few partners, both ways round (R's table is validated per character)
    for x in al::ws_block_strings().into_iter().chain(al::mutated_literals()) {
        if !ctx.mine() {
            continue;
        }
        let mut partners = vec![json!(1), json!("1"), json!(0), json!(true), json!(null), json!([1]), json!("")];
        // for a literal with a foreign character in it: the numbers it would denote if the character were swallowed
        if x.as_str().map(|t| t.chars().count() > 3).unwrap_or(false) {
            partners.extend(al::mutated_literal_bases());
        }
        for y in partners {
            ctx.edge();
            for k in ops {
                ctx.check(&format!("{}:ws-block", k), &op(k, vec![x.clone(), y.clone()]), &null);
                ctx.check(&format!("{}:ws-block:V", k), &op(k, vec![json!({"var": 1}), json!({"var": 0})]), &json!([x, y]));
            }
        }
    }
    // radix literal families and integer digit strings against a few numbers (the conversion runs inside every
    // comparison)
    for x in al::radix_families().into_iter().chain(al::radix_widths()).chain(al::radix_tails()).chain(al::integer_digit_strings()).chain(al::decimal_strings()) {
        if !ctx.mine() {
            continue;
        }
        let mut partners = vec![json!(0), json!(1), json!("0"), json!(1.8446744073709552e19), json!(true), json!([0]), json!(18446744073709551615u64), json!(1e30), json!(-1e19)];
        // the double the text denotes (correctly rounded) and its two neighbours: equal to the first, unequal to
        // and ordered against the others
        if let Some(f) = x.as_str().and_then(|t| t.trim().parse::<f64>().ok()).filter(|f| f.is_finite() && *f != 0.0) {
            for g in [f, f64::from_bits(f.to_bits() + 1), f64::from_bits(f.to_bits() - 1)] {
                if g.is_finite() {
                    partners.push(json!(g));
                }
            }
        }
        for y in partners {
            ctx.edge();
            for k in ops {
                ctx.check(&format!("{}:radix-family", k), &op(k, vec![x.clone(), y.clone()]), &null);
                ctx.check(&format!("{}:radix-family:V", k), &op(k, vec![json!({"var": 1}), json!({"var": 0})]), &json!([x, y]));
            }
        }
    }
    // magnitude ladder: all pairs of numbers around every integer-width boundary (distinct numbers
    // that collapse into one double must compare as that double does; distinct doubles must not
    // collapse however large they are), and each number against the string spelling of its neighbours
    {
        let mut lad = al::magnitude_ladder();
        lad.sort_by(|x, y| x.as_f64().unwrap().partial_cmp(&y.as_f64().unwrap()).unwrap());
        for (i, a) in lad.iter().enumerate() {
            if !ctx.mine() {
                continue;
            }
            for (j, b) in lad.iter().enumerate() {
                ctx.edge();
                for k in ops {
                    ctx.check(&format!("{}:ladder:L", k), &op(k, vec![a.clone(), b.clone()]), &null);
                    ctx.check(&format!("{}:ladder:V", k), &op(k, vec![json!({"var": 0}), json!({"var": 1})]), &json!([a, b]));
                    if (i as i64 - j as i64).abs() <= 3 {
                        let sb = json!(b.to_string());
                        ctx.check(&format!("{}:ladder:num-str", k), &op(k, vec![a.clone(), sb.clone()]), &null);
                        ctx.check(&format!("{}:ladder:str-num", k), &op(k, vec![sb.clone(), a.clone()]), &null);
                        ctx.check(&format!("{}:ladder:arr-num", k), &op(k, vec![json!([b]), a.clone()]), &null);
                    }
                }
            }
        }
    }
    if prop == "C09" {
        let t = triple_corpus(ctx.tier_thorough);
        for a in &t {
            for b in &t {
                if !ctx.mine() {
                    continue;
                }
                for c in &t {
                    ctx.edge();
                    for k in ops {
                        let r = op(k, vec![a.clone(), b.clone(), c.clone()]);
                        let o = ctx.check(&format!("{}:between", k), &r, &null);
                        // conjunction law against the real two-operand results
                        let o1 = ctx.exec(&op(k, vec![a.clone(), b.clone()]), &null);
                        let o2 = ctx.exec(&op(k, vec![b.clone(), c.clone()]), &null);
                        if let (Some(x), Some(y), Some(z)) = (bool_of(&o1), bool_of(&o2), bool_of(&o)) {
                            if z != (x && y) {
                                ctx.law_fail("law:between=conjunction", &r, &null, format!("{}", x && y), format!("{}", z));
                            }
                        }
                    }
                }
            }
        }
        // between over the magnitude ladder: windows of three neighbours (integers that are one double, doubles
        // that are neighbours), preceded / followed by small operands
        {
            let mut lad = al::magnitude_ladder();
            lad.sort_by(|x, y| x.as_f64().unwrap().partial_cmp(&y.as_f64().unwrap()).unwrap());
            for w in lad.windows(3) {
                if !ctx.mine() {
                    continue;
                }
                for t in [[w[0].clone(), w[1].clone(), w[2].clone()], [w[2].clone(), w[1].clone(), w[0].clone()], [json!(0), w[0].clone(), w[1].clone()], [w[1].clone(), w[0].clone(), json!(0)], [w[0].clone(), w[1].clone(), w[1].clone()], [w[1].clone(), w[0].clone(), w[0].clone()], [json!(null), w[1].clone(), w[0].clone()]] {
                    ctx.edge();
                    for k in ops {
                        let r = op(k, t.to_vec());
                        let o = ctx.check(&format!("{}:between:ladder", k), &r, &null);
                        let o1 = ctx.exec(&op(k, vec![t[0].clone(), t[1].clone()]), &null);
                        let o2 = ctx.exec(&op(k, vec![t[1].clone(), t[2].clone()]), &null);
                        if let (Some(x), Some(y), Some(z)) = (bool_of(&o1), bool_of(&o2), bool_of(&o)) {
                            if z != (x && y) {
                                ctx.law_fail("law:between=conjunction", &r, &null, format!("{}", x && y), format!("{}", z));
                            }
                        }
                        ctx.check(&format!("{}:between:ladder:V", k), &op(k, vec![json!({"var": 0}), json!({"var": 1}), json!({"var": 2})]), &Value::Array(t.to_vec()));
                    }
                }
            }
        }
        // between as the predicate / per-element expression of an iteration, the current element in each of the
        // three operand positions (a predicate is evaluated like any other expression: all three operands count)
        {
            let elems = json!([1, 2, 3, 4, 6, "5", null, [3], "a", 2.5]);
            let consts: Vec<Value> = [json!(3), json!(5), json!("5"), json!(7), json!(1), json!(null), json!("a")].to_vec();
            for b in &consts {
                if !ctx.mine() {
                    continue;
                }
                for c in &consts {
                    ctx.edge();
                    for k in ops {
                        for (pos, args) in [(0, vec![json!({"var": ""}), b.clone(), c.clone()]), (1, vec![b.clone(), json!({"var": ""}), c.clone()]), (2, vec![b.clone(), c.clone(), json!({"var": ""})])] {
                            let pred = op(k, args);
                            for h in ["filter", "map", "all", "some", "none"] {
                                ctx.check(&format!("{}:between:in-iteration:{}", k, pos), &op(h, vec![json!({"var": "xs"}), pred.clone()]), &json!({"xs": elems}));
                            }
                            ctx.check(&format!("{}:between:in-iteration:{}:L", k, pos), &op("filter", vec![elems.clone(), pred.clone()]), &null);
                        }
                        // two operands in the same places, for contrast
                        ctx.check(&format!("{}:pair:in-iteration", k), &op("filter", vec![json!({"var": "xs"}), op(k, vec![json!({"var": ""}), b.clone()])]), &json!({"xs": elems}));
                    }
                }
            }
        }
        // between through var (computed operands)
        let small: Vec<Value> = t.iter().take(12).cloned().collect();
        for a in &small {
            if !ctx.mine() {
                continue;
            }
            for b in &small {
                for c in &small {
                    ctx.edge();
                    for k in ops {
                        let r = op(k, vec![json!({"var": "a"}), json!({"var": "b"}), json!({"var": "c"})]);
                        ctx.check(&format!("{}:between:V", k), &r, &json!({"a": a, "b": b, "c": c}));
                    }
                }
            }
        }
    }
    crate::spaces::render_probes(ctx, ops);
    crate::spaces::type_grid_probes(ctx, ops);
    crate::spaces::depth_probes(ctx);
    crate::spaces::sweep::length_sweep(ctx);
}
