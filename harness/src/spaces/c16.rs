//! C16 - cat concatenates JS string forms; substr slices by Unicode character.
//!
//! Space: cat operand lists of length 0..4 over V1 + N sample with the split law
//! cat(xs ++ ys) == cat(cat(xs), cat(ys)); substr over all strings of length 0..4 over
//! {a, 2-byte, 3-byte, 4-byte char} (+ extras) x start in I x length in I + {absent},
//! I = -10..10 plus the 64-bit extremes; law substr(s,0,i) ++ substr(s,i) == s.
//! Oracle: R (string forms of A.3, character-based clamping of A.11).

use crate::alphabet::{self as al, op};
use crate::ctx::Ctx;
use serde_json::{json, Value};

pub fn cat_alphabet(thorough: bool) -> Vec<Value> {
    let mut v: Vec<Value> = ["null", "true", "false", "0", "-0.0", "1.0", "1.5", "1e21", "1e-7", "9223372036854775808", r#""""#, r#""a""#, r#""é😀""#,
        "[]", "[null]", "[1,null,[2,[null,3]]]", r#"["a",{"b":1}]"#, "{}", r#"{"a":1}"#, "[[]]", "[true,false]", "-1", r#"" ""#,
        // text that looks like the joiner's own output: separators at the ends of strings, arrays ending / starting with empty forms
        r#""a,""#, r#"",""#, r#"",a""#, "[1,null]", "[null,null]", "[null,1]", r#"["",""]"#, "[[],[]]"]
        .iter()
        .map(|s| al::parse(s))
        .collect();
    if thorough {
        v.extend(al::numbers());
        v = al::dedup(v);
    }
    v
}

pub fn ints(thorough: bool) -> Vec<Value> {
    let mut v: Vec<Value> = al::ints_small().into_iter().map(|i| json!(i)).collect();
    v.extend(al::ints_extreme());
    if thorough {
        v.extend((11..=20).map(|i| json!(i)));
        v.extend((-20..=-11).map(|i| json!(i)));
    }
    v
}

pub fn strings(thorough: bool) -> Vec<String> {
    let mut s = al::s_uni(if thorough { 5 } else { 4 });
    s.extend(al::s_uni_extra());
    s
}

pub fn meta(thorough: bool) -> (String, Value) {
    (
        "choice tree: cat: operand count 0..4 -> operands -> split point; substr: string -> start -> length (or absent) ; leaf = one apply() compared with R, plus the split / partition laws between real executions; non-trivial = R specifies the outcome; distinct = distinct (rule,data) text".into(),
        json!({"cat_alphabet": cat_alphabet(thorough).len(), "strings": strings(thorough).len(), "ints": ints(thorough).len(),
               "cat_lengths": "0..3 full, 4 over the first 8 values"}),
    )
}

pub fn run(ctx: &mut Ctx) {
    let null = Value::Null;
    let a = cat_alphabet(ctx.tier_thorough);
    let release = ctx.profile != "dev";
    // cat
    if release {
        if ctx.mine() {
            ctx.check("cat:0", &json!({"cat": []}), &null);
        }
        let a4: Vec<Value> = a.iter().take(8).cloned().collect();
        let mut lists: Vec<Vec<Value>> = Vec::new();
        for x in &a {
            lists.push(vec![x.clone()]);
            for y in &a {
                lists.push(vec![x.clone(), y.clone()]);
                for z in &a {
                    lists.push(vec![x.clone(), y.clone(), z.clone()]);
                }
            }
        }
        for x in &a4 {
            for y in &a4 {
                for z in &a4 {
                    for w in &a4 {
                        lists.push(vec![x.clone(), y.clone(), z.clone(), w.clone()]);
                    }
                }
            }
        }
        for l in &lists {
            if !ctx.mine() {
                continue;
            }
            let r = op("cat", l.clone());
            let o = ctx.check("cat:L", &r, &null);
            if l.len() <= 2 {
                let vars: Vec<Value> = (0..l.len()).map(|i| json!({"var": i})).collect();
                ctx.check("cat:V", &op("cat", vars), &Value::Array(l.clone()));
            }
            if l.len() == 1 && !l[0].is_array() {
                ctx.check("cat:U", &al::obj1("cat", l[0].clone()), &null);
            }
            // split law at every split point
            if let Some(Value::String(whole)) = o.ok() {
                for i in 0..=l.len() {
                    ctx.edge();
                    let r2 = json!({"cat": [{"cat": l[..i]}, {"cat": l[i..]}]});
                    let o2 = ctx.exec(&r2, &null);
                    if o2.ok() != Some(&Value::String(whole.clone())) {
                        ctx.law_fail("law:cat-split", &r2, &null, format!("{:?}", whole), o2.show());
                    }
                }
            }
        }
    }
    // numbers with the longest JSON texts: as operand, next to other operands, inside arrays (to any depth), read
    // from data, as the source of substr
    for v in al::long_number_texts().into_iter().chain(al::magnitude_ladder()) {
        if !ctx.mine() {
            continue;
        }
        ctx.edge();
        let d = json!({"v": v, "vs": [v, v]});
        ctx.check("cat:long-number", &json!({"cat": [v]}), &null);
        ctx.check("cat:long-number", &json!({"cat": ["<", v, "|", v, ">"]}), &null);
        ctx.check("cat:long-number", &json!({"cat": [[v], [[v, null], v]]}), &null);
        ctx.check("cat:long-number:V", &json!({"cat": [{"var": "v"}, {"var": "vs"}]}), &d);
        ctx.check("cat:long-number:U", &json!({"cat": v}), &null);
        ctx.check("cat:long-number:computed", &json!({"cat": [{"*": [{"var": "v"}, 1]}, {"max": [{"var": "v"}]}]}), &d);
        for (i, l) in [(0i64, None), (-1, None), (-3, None), (20, None), (0, Some(-1i64)), (1, Some(23)), (-24, Some(24))] {
            let mut args = vec![json!({"var": "v"}), json!(i)];
            if let Some(l) = l {
                args.push(json!(l));
            }
            ctx.check("substr:long-number", &json!({"substr": args}), &d);
        }
    }
    // the bracket-less spelling with an operand that is an EXPRESSION (evaluating to an array, a string, null, a
    // number): one operand, whose string form is the result
    {
        let d = json!({"xs": ["a", "b", "c"], "one": ["z"], "empty": [], "nul": [null], "s": "str", "n": 5, "nested": [["a"], ["b", ["c"]]]});
        for e in [json!({"var": "xs"}), json!({"var": "one"}), json!({"var": "empty"}), json!({"var": "nul"}), json!({"var": "s"}), json!({"var": "n"}), json!({"var": "nested"}), json!({"var": "nope"}),
                  json!({"merge": [["a"], ["b"]]}), json!({"map": [{"var": "xs"}, {"var": ""}]}), json!({"filter": [{"var": "xs"}, true]}), json!({"if": [true, ["p", "q"]]}), json!({"missing": ["u", "v"]})] {
            if !ctx.mine() {
                continue;
            }
            ctx.edge();
            ctx.check("cat:bare:computed", &al::obj1("cat", e.clone()), &d);
            ctx.check("cat:bare:computed:nested", &json!({"cat": ["<", al::obj1("cat", e.clone()), ">"]}), &d);
            ctx.check("cat:bracketed:computed", &json!({"cat": [e]}), &d);
            ctx.check("substr:bare-source:computed", &json!({"substr": [al::obj1("cat", e.clone()), 1]}), &d);
        }
    }
    // string form of arrays: every array of length 1..3 over an 8-element alphabet (empty and nested
    // arrays, nulls, objects next to each other), alone, wrapped and between strings
    if release {
        let el: Vec<Value> = ["1", r#""a""#, "null", "[]", "[[]]", "[null]", "[1,2]", "{}"].iter().map(|t| al::parse(t)).collect();
        for n in 1..=3usize {
            for t in al::tuples(&el, n) {
                if !ctx.mine() {
                    continue;
                }
                let v = Value::Array(t);
                ctx.edge();
                ctx.check("cat:array-form", &json!({"cat": [v]}), &null);
                ctx.check("cat:array-form:between", &json!({"cat": ["x", v, "y"]}), &null);
                ctx.check("cat:array-form:V", &json!({"cat": [{"var": "v"}, {"var": "v"}]}), &json!({"v": v}));
                ctx.check("cat:array-form:wrapped", &json!({"cat": [[v], [v, v], [[v], 0]]}), &null);
            }
        }
    }
    // cat of strings whose lengths straddle small-string / buffer thresholds, mixed with other kinds
    if release {
        let lens = [0usize, 1, 7, 8, 14, 15, 16, 22, 23, 24, 31, 32, 33, 63, 64, 65];
        for &a in &lens {
            if !ctx.mine() {
                continue;
            }
            for &b in &lens {
                ctx.edge();
                let sa: String = (0..a).map(|i| ['x', 'é', '水'][i % 3]).collect();
                let sb: String = (0..b).map(|i| ['y', '😀'][i % 2]).collect();
                let r = json!({"cat": [sa, 1.5, sb, null, [sa, [sb]], sb]});
                let o = ctx.check("cat:string-lengths", &r, &null);
                ctx.check("cat:string-lengths:V", &json!({"cat": [{"var": "a"}, {"var": "b"}, {"var": "a"}]}), &json!({"a": sa, "b": sb}));
                if let Some(Value::String(w)) = o.ok() {
                    let o2 = ctx.exec(&json!({"cat": [{"cat": [sa, 1.5]}, {"cat": [sb, null, [sa, [sb]], sb]}]}), &null);
                    if o2.ok() != Some(&Value::String(w.clone())) {
                        ctx.law_fail("law:cat-split", &r, &null, format!("{} chars", w.chars().count()), o2.show());
                    }
                }
            }
        }
    }
    // substr
    let ss = strings(ctx.tier_thorough);
    let is = ints(ctx.tier_thorough);
    for s in &ss {
        if !release && s.chars().count() > 3 {
            continue;
        }
        if !ctx.mine() {
            continue;
        }
        for i in &is {
            ctx.edge();
            let r = json!({"substr": [s, i]});
            let o = ctx.check("substr:2", &r, &null);
            for l in &is {
                ctx.edge();
                ctx.check("substr:3", &json!({"substr": [s, i, l]}), &null);
            }
            // partition law for i >= 0
            if i.as_i64().map(|x| x >= 0).unwrap_or(false) {
                let o1 = ctx.exec(&json!({"substr": [s, 0, i]}), &null);
                if let (Some(Value::String(p)), Some(Value::String(q))) = (o1.ok(), o.ok()) {
                    if format!("{}{}", p, q) != *s {
                        ctx.law_fail("law:substr-partition", &r, &null, format!("{:?}", s), format!("{:?} ++ {:?}", p, q));
                    }
                }
            }
        }
        // through var
        ctx.check("substr:V", &json!({"substr": [{"var": "s"}, {"var": "i"}, {"var": "l"}]}), &json!({"s": s, "i": -2, "l": 1}));
    }
    // size probes: long mixed strings with start / length around every boundary class; cat with many operands
    for n in al::size_classes(ctx.tier_thorough) {
        if !ctx.mine() {
            continue;
        }
        let st: String = (0..n).map(|i| ['a', 'é', '水', '😀', 'b', 'c', 'd'][i % 7]).collect();
        let nn = n as i64;
        let pts = [0i64, 1, 2, nn / 2, nn - 2, nn - 1, nn, nn + 1, -1, -2, -nn / 2, -nn + 1, -nn, -nn - 1];
        for i in pts {
            ctx.edge();
            let r = json!({"substr": [st, i]});
            let o = ctx.check("substr:size-probe:2", &r, &null);
            for l in pts {
                ctx.check("substr:size-probe:3", &json!({"substr": [st, i, l]}), &null);
            }
            if i >= 0 {
                let o1 = ctx.exec(&json!({"substr": [st, 0, i]}), &null);
                if let (Some(Value::String(p)), Some(Value::String(q))) = (o1.ok(), o.ok()) {
                    if format!("{}{}", p, q) != st {
                        ctx.law_fail("law:substr-partition", &r, &null, format!("{:?}", st), format!("{:?} ++ {:?}", p, q));
                    }
                }
            }
        }
        if release {
            let ops_: Vec<Value> = (0..n).map(|i| match i % 6 { 0 => json!(format!("s{}", i)), 1 => json!(i), 2 => json!(null), 3 => json!([i, null, [i]]), 4 => json!({}), _ => json!(i as f64 + 0.5) }).collect();
            let r = op("cat", ops_.clone());
            let o = ctx.check("cat:size-probe", &r, &null);
            if let Some(Value::String(whole)) = o.ok() {
                for cut in [1usize, n / 2, n - 1] {
                    let r2 = json!({"cat": [{"cat": ops_[..cut]}, {"cat": ops_[cut..]}]});
                    let o2 = ctx.exec(&r2, &null);
                    if o2.ok() != Some(&Value::String(whole.clone())) {
                        ctx.law_fail("law:cat-split", &r2, &null, format!("{} chars", whole.len()), o2.show());
                    }
                }
            }
        }
    }
    // other operand kinds (unspecified -> totality only) and a long string
    if ctx.mine() {
        let long: String = "水é".repeat(2000);
        for r in [
            json!({"substr": [long, 3999]}),
            json!({"substr": [long, -1]}),
            json!({"substr": [long, 1, -3998]}),
            json!({"substr": [12345, 1]}),
            json!({"substr": ["abc", 1.5]}),
            json!({"substr": ["abc", "1"]}),
            json!({"substr": ["abc", 1, 1.0]}),
            json!({"substr": ["abc", 1, null]}),
            json!({"substr": [null, 0]}),
            json!({"substr": [["abc"], 0]}),
        ] {
            ctx.edge();
            ctx.check("substr:other", &r, &null);
        }
    }
    // straddle strings: a multi-byte character across every block boundary of 8 .. 256 bytes; start and length
    // at, just before and just after that character, counted from both ends, with the partition law
    for (st, ci) in al::straddle_strings() {
        if !ctx.mine() {
            continue;
        }
        let n = st.chars().count() as i64;
        let ci = ci as i64;
        for start in [ci - 1, ci, ci + 1, ci - n, ci + 1 - n, 0, -1] {
            ctx.edge();
            ctx.check("substr:straddle:2", &json!({"substr": [st, start]}), &null);
            for len in [0i64, 1, 2, ci - start, ci - start + 1, -1, -(n - ci), -(n - ci - 1), n] {
                ctx.check("substr:straddle:3", &json!({"substr": [{"var": "s"}, start, len]}), &json!({"s": st}));
            }
        }
        // substr(s,0,i) ++ substr(s,i) == s at the straddling character
        for i in [ci, ci + 1] {
            let a = ctx.exec(&json!({"substr": [st, 0, i]}), &null);
            let b = ctx.exec(&json!({"substr": [st, i]}), &null);
            if let (Some(Value::String(x)), Some(Value::String(y))) = (a.ok(), b.ok()) {
                if format!("{}{}", x, y) != st {
                    ctx.law_fail("law:substr-partition", &json!({"substr": [st, 0, i]}), &null, "the two pieces give the string back".into(), format!("{:?} ++ {:?}", x, y));
                }
            }
        }
        ctx.check("cat:straddle", &json!({"cat": [st, "|", {"var": "s"}]}), &json!({"s": st}));
    }
    crate::spaces::render_probes(ctx, &["cat", "substr"]);
    crate::spaces::width_probes(ctx);
    crate::spaces::sweep::length_sweep(ctx);
    crate::spaces::type_grid_probes(ctx, &["cat", "substr"]);
    crate::spaces::depth_probes(ctx);
}
