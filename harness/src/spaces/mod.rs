//! One module per property: the explored space, the clause -> comparison table, the laws.

use crate::ctx::Ctx;
use serde_json::{json, Value};

pub mod c01;
pub mod c02;
pub mod c03;
pub mod c04;
pub mod c05;
pub mod c06;
pub mod c10;
pub mod c11;
pub mod c12;
pub mod c13;
pub mod c14;
pub mod c15;
pub mod c16;
pub mod cmp;

pub struct Plan {
    /// build profiles of the code under test in which the space is executed
    pub profiles: Vec<String>,
    /// number of worker processes per profile (capped by the core count)
    pub shards: u64,
    /// spaces whose every leaf legitimately has the same outcome class
    pub single_outcome_ok: bool,
}

pub struct Meta {
    pub rule: String,
    pub bounds: Value,
    pub engines: Value,
    pub assumptions: Vec<String>,
}

pub const PROPS: [&str; 19] = [
    "C01", "C02", "C03", "C04", "C05", "C06", "C07", "C08", "C09", "C10", "C11", "C12", "C13", "C14", "C15", "C16",
    "C17", "C18", "C19",
];

pub fn known_prop(p: &str) -> bool {
    PROPS.contains(&p)
}

fn profs(xs: &[&str]) -> Vec<String> {
    xs.iter().map(|s| s.to_string()).collect()
}

pub fn plan(prop: &str, thorough: bool) -> Plan {
    let profiles = match (prop, thorough) {
        ("C01", false) => profs(&["release", "dev", "relchk"]),
        ("C01", true) => profs(&["release", "dev", "relchk", "devnochk"]),
        // boundary and history / schedule engines: one build of the library under the harness
        ("C17", _) | ("C18", _) | ("C19", _) => profs(&["release"]),
        // every E1 space runs with overflow checks and debug assertions off (release) and on (relchk:
        // release code generation + overflow-checks + debug-assertions, i.e. what a debug build checks)
        (_, false) => profs(&["release", "relchk"]),
        (_, true) => profs(&["release", "relchk", "dev"]),
    };
    Plan { profiles, shards: 16, single_outcome_ok: false }
}

pub fn run(ctx: &mut Ctx) {
    run_space(ctx)
}

/// The E1 space of one property (C01 also calls this for the union of the others).
pub fn run_space(ctx: &mut Ctx) {
    let p = ctx.prop.clone();
    match p.as_str() {
        "C01" => c01::run(ctx),
        "C02" => c02::run(ctx),
        "C03" => c03::run(ctx),
        "C04" => c04::run(ctx),
        "C05" => c05::run(ctx),
        "C06" => c06::run(ctx),
        "C07" | "C08" | "C09" => cmp::run(ctx, &p),
        "C10" => c10::run(ctx),
        "C11" => c11::run(ctx),
        "C12" => c12::run(ctx),
        "C13" => c13::run(ctx),
        "C14" => c14::run(ctx),
        "C15" => c15::run(ctx),
        "C16" => c16::run(ctx),
        "C17" => {
            crate::history::run(ctx);
            crate::sched::run(ctx);
            // sampling proviso, labelled as such in the evidence (see sched::stress)
            crate::sched::stress(ctx, if ctx.tier_thorough { 20_000 } else { 1_500 });
        }
        "C18" => crate::boundary::c18(ctx),
        "C19" => crate::boundary::python(ctx, "c19"),
        p => panic!("no space for {}", p),
    }
}

pub fn common_assumptions() -> Vec<String> {
    vec![
        "rustc/cargo and serde_json (parsing, Number text, Value equality) are trusted".into(),
        "the reference model R (harness/src/refmodel.rs) is trusted as validated at the start of every check against the recorded V8 verdicts (fixtures/es_truth.json) and the shared JsonLogic cases".into(),
        "values outside the stated alphabets and sizes beyond the stated bounds are not covered".into(),
    ]
}

pub fn meta(prop: &str, thorough: bool) -> Meta {
    let (rule, bounds) = match prop {
        "C01" => c01::meta(thorough),
        "C02" => c02::meta(thorough),
        "C03" => c03::meta(thorough),
        "C04" => c04::meta(thorough),
        "C05" => c05::meta(thorough),
        "C06" => c06::meta(thorough),
        "C07" | "C08" | "C09" => cmp::meta(prop, thorough),
        "C10" => c10::meta(thorough),
        "C11" => c11::meta(thorough),
        "C12" => c12::meta(thorough),
        "C13" => c13::meta(thorough),
        "C14" => c14::meta(thorough),
        "C15" => c15::meta(thorough),
        "C16" => c16::meta(thorough),
        "C17" => {
            let (mr, md) = (crate::history::rules().len(), crate::history::datas().len());
            let (cr, cd) = (crate::history::coercion_rules().len(), crate::history::coercion_datas().len());
            (
                format!("E2: state = fork() snapshot of the real process after a history of calls; transition = one more apply() call from an alphabet: main = {} rules x {} data ({} calls: every operator family, size-dependent 'big' variants, string indexing, prefix-twin keys, error paths), coercion = {} rules x {} data ({} calls: the same ambiguous operand under every coercion family); every call compared with its outcome as the first call in a fresh snapshot (value, Err-ness, log lines, inputs intact); all histories up to depth 2 (thorough: depth 3 over a core of each alphabet). E3: state = position of every thread in its sequence of scheduling points; transition = one scheduling decision; stateless DFS with preemption bound 0,1,(2,3) over ~200 two- and three-thread harnesses on shared Arc<Value> inputs at hook points, and with bound 0,1 at every function entry of the instrumented tree; every configuration warm (one process) and cold (every schedule in a forked child of a process that never evaluated anything); every complete schedule compared with the isolated outcomes, then every call repeated sequentially (aftermath); non-trivial = every history / schedule; distinct = distinct history / schedule", mr, md, mr * md, cr, cd, cr * cd),
                json!({"history_depth": if thorough { 3 } else { 2 }, "history_alphabet_main": mr * md, "history_alphabet_coercion": cr * cd, "preemption_bounds": if thorough { "pairs 2, hand-picked 3, deep chains 1, function-entry 1" } else { "pairs 1, hand-picked 2, deep chains 1, function-entry 1" }, "hook_points": ["Parsed::from_value", "Parsed::evaluate", "Operator::execute", "LazyOperator::execute", "DataOperator::execute", "log", "(fine build) every function entry"]}),
            )
        }
        "C18" => (
            "choice tree: binary (debug; thorough also release) -> rule text -> data text -> delivery form (argument / argument + junk on stdin / stdin without argument / stdin with '-'); deep nesting around the parser limit; large documents; chains r1 -> r2 over the valid texts; leaf = one run of the real binary whose stdout and exit status are compared with the library in-process; non-trivial = every run; distinct = distinct (argv, stdin)".into(),
            json!({"rule_texts": crate::boundary::rule_texts(thorough).len(), "data_texts": crate::boundary::data_texts(thorough).len(), "forms": 4}),
        ),
        "C19" => (
            "choice tree: extension build (debug; thorough also release) -> rule object -> data object -> entry point and optional-argument combination (17 call forms) + malformed texts + broken serializers; leaf = one call of the real package compared type-strictly with the library reached through the harness oracle, or ValueError; plus E2 at the wrapper level: DFS over sequences of calls from a 47-call alphabet whose states are os.fork() snapshots of the interpreter; non-trivial = every call; distinct = distinct call description".into(),
            json!({"rules": 62, "datas": 26, "call_forms": 17, "history_depth": if thorough { 3 } else { 2 }}),
        ),
        _ => (String::new(), json!({})),
    };
    let rule = if ["C17", "C18", "C19"].contains(&prop) {
        rule
    } else {
        format!("{} Additional enumerated sub-spaces (counts per sub-space are in coverage.subspaces): size probes - position-sensitive patterns at operand / collection / string / path lengths {:?} (complete over the stated patterns, not over all inputs of those lengths); for C04 the composition of every operator inside every operand position of every operator.", rule, crate::alphabet::size_classes(thorough))
    };
    Meta {
        rule,
        bounds,
        engines: match prop {
            "C17" => json!(["E2 history explorer: explicit-state DFS, states are fork() snapshots of the real process", "E3 schedule explorer: preemption-bounded stateless DFS over real threads at verif_hooks points and at function entries (-Z instrument-mcount), warm and cold start, aftermath check", "proviso (thorough): free-running thread bodies under miri's data-race detector"]),
            "C18" => json!(["E4 boundary explorer: the real jsonlogic binary built from the working tree, oracle = library in-process"]),
            "C19" => json!(["E4 boundary explorer: the real Python package built from the working tree, oracle = library through `jlmc oracle`", "E2 at the wrapper level: os.fork() snapshots of the interpreter"]),
            "C01" => json!(["E1 term explorer (totality only) in several build profiles, isolated workers with crash / hang localisation", "E4 boundary explorers (CLI, Python)"]),
            _ => json!(["E1 term explorer over the real apply(), diff against reference model R + oracle-free laws"]),
        },
        assumptions: common_assumptions(),
    }
}

/// Replay of records that are not plain (rule, data) cases. None = use the generic replay.
pub fn replay_special(_prop: &str, rec: &Value) -> Option<i32> {
    if rec["case"].get("history").is_some() {
        return Some(crate::history::replay(rec));
    }
    if rec["case"].get("schedule").is_some() {
        return Some(crate::sched::replay(rec));
    }
    if rec["case"].get("argv").is_some() || rec["case"].get("argv_hex").is_some() {
        return Some(crate::boundary::replay_cli(rec));
    }
    None
}

/// Render probes: values whose rendering is long and multi-byte at every byte alignment, in every
/// operand position of the given operators (literal and read from the data, with three kinds of
/// neighbours). Most of these calls fail; a failure must be an orderly Err whose message can be
/// rendered (the executor renders every error), whatever the length and alphabet of the value quoted.
pub fn render_probes(ctx: &mut Ctx, ops: &[&str]) {
    let vals = crate::alphabet::long_render_values();
    let fills = [json!(1), json!([1, 2]), json!("ab")];
    for k in ops {
        for n in 1..=3usize {
            if !ctx.mine() {
                continue;
            }
            for p in 0..n {
                for v in &vals {
                    ctx.edge();
                    let dv = json!({"v": v});
                    for f in &fills {
                        let mut args = vec![f.clone(); n];
                        args[p] = v.clone();
                        ctx.check("render-probe:L", &crate::alphabet::op(k, args.clone()), &dv);
                        args[p] = json!({"var": "v"});
                        ctx.check("render-probe:V", &crate::alphabet::op(k, args), &dv);
                    }
                    if n == 1 && !v.is_array() {
                        ctx.check("render-probe:U", &crate::alphabet::obj1(k, v.clone()), &dv);
                    }
                }
            }
        }
    }
}
