//! One module per property: the explored space, the clause -> comparison table, the laws.

use crate::ctx::Ctx;
use serde_json::{json, Value};

pub mod c06;

pub struct Plan {
    /// build profiles of the code under test in which the space is executed
    pub profiles: Vec<String>,
    /// number of worker processes per profile (capped by the core count)
    pub shards: u64,
    /// spaces whose every leaf legitimately has the same outcome class
    pub single_outcome_ok: bool,
}

pub struct Meta {
    pub rule: String,
    pub bounds: Value,
    pub engines: Value,
    pub assumptions: Vec<String>,
}

pub const PROPS: [&str; 19] = [
    "C01", "C02", "C03", "C04", "C05", "C06", "C07", "C08", "C09", "C10", "C11", "C12", "C13", "C14", "C15", "C16",
    "C17", "C18", "C19",
];

pub fn known_prop(p: &str) -> bool {
    PROPS.contains(&p)
}

fn profs(xs: &[&str]) -> Vec<String> {
    xs.iter().map(|s| s.to_string()).collect()
}

pub fn plan(prop: &str, thorough: bool) -> Plan {
    let _ = thorough;
    match prop {
        _ => Plan { profiles: profs(&["release"]), shards: 16, single_outcome_ok: false },
    }
}

pub fn run(ctx: &mut Ctx) {
    match ctx.prop.as_str() {
        "C06" => c06::run(ctx),
        p => panic!("no space for {}", p),
    }
}

pub fn common_assumptions() -> Vec<String> {
    vec![
        "rustc/cargo and serde_json (parsing, Number text, Value equality) are trusted".into(),
        "the reference model R (harness/src/refmodel.rs) is trusted as validated at the start of every check against the recorded V8 verdicts (fixtures/es_truth.json) and the shared JsonLogic cases".into(),
        "values outside the stated alphabets and sizes beyond the stated bounds are not covered".into(),
    ]
}

pub fn meta(prop: &str, thorough: bool) -> Meta {
    let (rule, bounds) = match prop {
        "C06" => c06::meta(thorough),
        _ => (String::new(), json!({})),
    };
    Meta {
        rule,
        bounds,
        engines: json!(["E1 term explorer over the real apply(), diff against reference model R + oracle-free laws"]),
        assumptions: common_assumptions(),
    }
}

/// Replay of records that are not plain (rule, data) cases. None = use the generic replay.
pub fn replay_special(_prop: &str, _rec: &Value) -> Option<i32> {
    None
}
