//! One module per property: the explored space, the clause -> comparison table, the laws.

use crate::ctx::Ctx;
use serde_json::{json, Value};

pub mod c01;
pub mod c02;
pub mod c03;
pub mod c04;
pub mod c05;
pub mod c06;
pub mod c10;
pub mod c11;
pub mod c12;
pub mod c13;
pub mod c14;
pub mod c15;
pub mod c16;
pub mod cmp;
pub mod sweep;

pub struct Plan {
    /// build profiles of the code under test in which the space is executed
    pub profiles: Vec<String>,
    /// number of worker processes per profile (capped by the core count)
    pub shards: u64,
    /// spaces whose every leaf legitimately has the same outcome class
    pub single_outcome_ok: bool,
}

pub struct Meta {
    pub rule: String,
    pub bounds: Value,
    pub engines: Value,
    pub assumptions: Vec<String>,
}

pub const PROPS: [&str; 19] = [
    "C01", "C02", "C03", "C04", "C05", "C06", "C07", "C08", "C09", "C10", "C11", "C12", "C13", "C14", "C15", "C16",
    "C17", "C18", "C19",
];

pub fn known_prop(p: &str) -> bool {
    PROPS.contains(&p)
}

fn profs(xs: &[&str]) -> Vec<String> {
    xs.iter().map(|s| s.to_string()).collect()
}

pub fn plan(prop: &str, thorough: bool) -> Plan {
    let profiles = match (prop, thorough) {
        ("C01", false) => profs(&["release", "dev", "relchk"]),
        ("C01", true) => profs(&["release", "dev", "relchk", "devnochk"]),
        // boundary and history / schedule engines: one build of the library under the harness
        ("C17", _) | ("C18", _) | ("C19", _) => profs(&["release"]),
        // every E1 space runs with overflow checks and debug assertions off (release) and on (relchk:
        // release code generation + overflow-checks + debug-assertions, i.e. what a debug build checks)
        (_, false) => profs(&["release", "relchk"]),
        (_, true) => profs(&["release", "relchk", "dev"]),
    };
    Plan { profiles, shards: 16, single_outcome_ok: false }
}

pub fn run(ctx: &mut Ctx) {
    run_space(ctx)
}

/// The E1 space of one property (C01 also calls this for the union of the others).
pub fn run_space(ctx: &mut Ctx) {
    let p = ctx.prop.clone();
    match p.as_str() {
        "C01" => c01::run(ctx),
        "C02" => c02::run(ctx),
        "C03" => c03::run(ctx),
        "C04" => c04::run(ctx),
        "C05" => c05::run(ctx),
        "C06" => c06::run(ctx),
        "C07" | "C08" | "C09" => cmp::run(ctx, &p),
        "C10" => c10::run(ctx),
        "C11" => c11::run(ctx),
        "C12" => c12::run(ctx),
        "C13" => c13::run(ctx),
        "C14" => c14::run(ctx),
        "C15" => c15::run(ctx),
        "C16" => c16::run(ctx),
        "C17" => {
            crate::history::run(ctx);
            crate::sched::run(ctx);
            // sampling proviso, labelled as such in the evidence (see sched::stress)
            crate::sched::stress(ctx, if ctx.tier_thorough { 20_000 } else { 1_500 });
            // last: the in-memory rules nested 1500 deep of the environment probes touch megabytes of stack, and
            // every page a worker has dirtied is paid for again by each of the ~10^6 fork() snapshots of E2
            sweep::effects_probes(ctx);
        }
        "C18" => crate::boundary::c18(ctx),
        "C19" => crate::boundary::python(ctx, "c19"),
        p => panic!("no space for {}", p),
    }
}

pub fn common_assumptions() -> Vec<String> {
    vec![
        "rustc/cargo and serde_json (parsing, Number text, Value equality) are trusted".into(),
        "the reference model R (harness/src/refmodel.rs) is trusted as validated at the start of every check against the recorded V8 verdicts (fixtures/es_truth.json) and the shared JsonLogic cases".into(),
        "values outside the stated alphabets and sizes beyond the stated bounds are not covered".into(),
    ]
}

pub fn meta(prop: &str, thorough: bool) -> Meta {
    let (rule, bounds) = match prop {
        "C01" => c01::meta(thorough),
        "C02" => c02::meta(thorough),
        "C03" => c03::meta(thorough),
        "C04" => c04::meta(thorough),
        "C05" => c05::meta(thorough),
        "C06" => c06::meta(thorough),
        "C07" | "C08" | "C09" => cmp::meta(prop, thorough),
        "C10" => c10::meta(thorough),
        "C11" => c11::meta(thorough),
        "C12" => c12::meta(thorough),
        "C13" => c13::meta(thorough),
        "C14" => c14::meta(thorough),
        "C15" => c15::meta(thorough),
        "C16" => c16::meta(thorough),
        "C17" => {
            let (mr, md) = (crate::history::rules().len(), crate::history::datas().len());
            let (cr, cd) = (crate::history::coercion_rules().len(), crate::history::coercion_datas().len());
            (
                format!("E2: state = fork() snapshot of the real process after a history of calls; transition = one more apply() call from an alphabet: main = {} rules x {} data ({} calls: every operator family, size-dependent 'big' variants, string indexing, prefix-twin keys, error paths), coercion = {} rules x {} data ({} calls: the same ambiguous operand under every coercion family); every call compared with its outcome as the first call in a fresh snapshot (value, Err-ness, log lines, inputs intact); all histories up to depth 2 (thorough: depth 3 over a core of each alphabet). E3: state = position of every thread in its sequence of scheduling points; transition = one scheduling decision; stateless DFS with preemption bound 0,1,(2,3) over ~200 two- and three-thread harnesses on shared Arc<Value> inputs at hook points, and with bound 0,1 at every function entry of the instrumented tree; every configuration warm (one process) and cold (every schedule in a forked child of a process that never evaluated anything); every complete schedule compared with the isolated outcomes, then every call repeated sequentially (aftermath); non-trivial = every history / schedule; distinct = distinct history / schedule", mr, md, mr * md, cr, cd, cr * cd),
                json!({"history_depth": if thorough { 3 } else { 2 }, "history_alphabet_main": mr * md, "history_alphabet_coercion": cr * cd, "preemption_bounds": if thorough { "pairs 2, hand-picked 3, deep chains 1, function-entry 1" } else { "pairs 1, hand-picked 2, deep chains 1, function-entry 1" }, "hook_points": ["Parsed::from_value", "Parsed::evaluate", "Operator::execute", "LazyOperator::execute", "DataOperator::execute", "log", "(fine build) every function entry"]}),
            )
        }
        "C18" => (
            "choice tree: binary (debug and release) -> rule text -> data text -> delivery form (argument / argument + junk on stdin / stdin without argument / stdin with '-'); deep nesting around the parser limit; large documents; chains r1 -> r2 over the valid texts; leaf = one run of the real binary whose stdout and exit status are compared with the library in-process; non-trivial = every run; distinct = distinct (argv, stdin)".into(),
            json!({"rule_texts": crate::boundary::rule_texts(thorough).len(), "data_texts": crate::boundary::data_texts(thorough).len(), "forms": 4}),
        ),
        "C19" => (
            "choice tree: extension build (debug and release) -> rule object -> data object -> entry point and optional-argument combination (17 call forms) + malformed texts + broken serializers; leaf = one call of the real package compared type-strictly with the library reached through the harness oracle, or ValueError; plus E2 at the wrapper level: DFS over sequences of calls from a 47-call alphabet whose states are os.fork() snapshots of the interpreter; non-trivial = every call; distinct = distinct call description".into(),
            json!({"rules": 62, "datas": 26, "call_forms": 17, "history_depth": if thorough { 3 } else { 2 }}),
        ),
        _ => (String::new(), json!({})),
    };
    let rule = if ["C17", "C18", "C19"].contains(&prop) {
        rule
    } else {
        format!("{} Additional enumerated sub-spaces (counts per sub-space are in coverage.subspaces): size probes - position-sensitive patterns at operand / collection / string / path lengths {:?} (complete over the stated patterns, not over all inputs of those lengths); for C04 the composition of every operator inside every operand position of every operator. Shared probe families (spaces/sweep.rs; sub-space names say which): CLOSED enumerations - every length 1..{} of operand lists / collections / strings / key lists with one distinguished position (first, around the centre, last; all positions up to length 24), every nesting depth of one-operand operations, the first and last character of every UTF-8 lead byte, white-space blocks, digit strings of every length 1..40 and at every machine-integer limit, radix literals by digit count and with tails, every operator x rejected operand count x evaluated position, every eager operator x position x deciding neighbours; CORPORA (complete over their stated list, silent about anything outside it) - confusable string pairs, look-alike twins, near-miss operator keys, long number and float texts (a fixed linear-congruential sequence), index spellings, condition kinds, provenance forms.", rule, crate::alphabet::size_classes(thorough), if thorough {{ 2100 }} else {{ 1100 }})
    };
    Meta {
        rule,
        bounds,
        engines: match prop {
            "C17" => json!(["E2 history explorer: explicit-state DFS, states are fork() snapshots of the real process", "E3 schedule explorer: preemption-bounded stateless DFS over real threads at verif_hooks points and at function entries (-Z instrument-mcount), warm and cold start, aftermath check", "proviso (thorough): free-running thread bodies under miri's data-race detector"]),
            "C18" => json!(["E4 boundary explorer: the real jsonlogic binary built from the working tree, oracle = library in-process"]),
            "C19" => json!(["E4 boundary explorer: the real Python package built from the working tree, oracle = library through `jlmc oracle`", "E2 at the wrapper level: os.fork() snapshots of the interpreter"]),
            "C01" => json!(["E1 term explorer (totality only) in several build profiles, isolated workers with crash / hang localisation", "E4 boundary explorers (CLI, Python)"]),
            _ => json!(["E1 term explorer over the real apply(), diff against reference model R + oracle-free laws"]),
        },
        assumptions: common_assumptions(),
    }
}

/// Replay of records that are not plain (rule, data) cases. None = use the generic replay.
pub fn replay_special(_prop: &str, rec: &Value) -> Option<i32> {
    if rec["case"].get("history").is_some() {
        return Some(crate::history::replay(rec));
    }
    if rec["case"].get("schedule").is_some() {
        return Some(crate::sched::replay(rec));
    }
    if rec["case"].get("argv").is_some() || rec["case"].get("argv_hex").is_some() {
        return Some(crate::boundary::replay_cli(rec));
    }
    None
}

/// Render probes: values whose rendering is long and multi-byte at every byte alignment, in every
/// operand position of the given operators (literal and read from the data, with three kinds of
/// neighbours). Most of these calls fail; a failure must be an orderly Err whose message can be
/// rendered (the executor renders every error), whatever the length and alphabet of the value quoted.
pub fn render_probes(ctx: &mut Ctx, ops: &[&str]) {
    let vals = crate::alphabet::long_render_values();
    let fills = [json!(1), json!([1, 2]), json!("ab")];
    for k in ops {
        for n in 1..=3usize {
            if !ctx.mine() {
                continue;
            }
            for p in 0..n {
                for v in &vals {
                    ctx.edge();
                    let dv = json!({"v": v});
                    for f in &fills {
                        let mut args = vec![f.clone(); n];
                        args[p] = v.clone();
                        ctx.check("render-probe:L", &crate::alphabet::op(k, args.clone()), &dv);
                        args[p] = json!({"var": "v"});
                        ctx.check("render-probe:V", &crate::alphabet::op(k, args), &dv);
                    }
                    if n == 1 && !v.is_array() {
                        ctx.check("render-probe:U", &crate::alphabet::obj1(k, v.clone()), &dv);
                    }
                }
            }
        }
    }
}

/// Width probes: operand lists, collections, strings and key lists far beyond every small-size
/// regime (15 / 16-bit counts, typical allocation caps, recursion over the width of a list), with
/// position-sensitive content so that a truncated, capped or mis-chunked traversal changes the answer.
pub fn width_probes(ctx: &mut Ctx) {
    let prop = ctx.prop.clone();
    let null = Value::Null;
    for n in crate::alphabet::width_classes(ctx.tier_thorough) {
        if !ctx.mine() {
            continue;
        }
        let ints: Vec<Value> = (0..n).map(|i| json!(i)).collect();
        let dv = json!({"xs": ints});
        match prop.as_str() {
            "C05" => {
                // a flat chain of n falsy conditions, then the deciding one (with and without a final else)
                let mut args: Vec<Value> = Vec::with_capacity(2 * n + 1);
                for i in 0..n {
                    args.push(json!({"==": [{"var": "x"}, i]}));
                    args.push(json!(i));
                }
                ctx.check("width:if:no-else", &json!({"if": args}), &json!({"x": -1}));
                ctx.check("width:if:last-clause", &json!({"if": args}), &json!({"x": n - 1}));
                let mut a2 = args.clone();
                a2.push(json!("else"));
                ctx.check("width:if:else", &json!({"if": a2}), &json!({"x": -1}));
                ctx.check("width:?:", &json!({"?:": a2}), &json!({"x": -1}));
                let falsy: Vec<Value> = (0..n).map(|i| if i + 1 == n { json!("last") } else { json!(0) }).collect();
                ctx.check("width:or", &json!({"or": falsy}), &null);
                let truthy: Vec<Value> = (0..n).map(|i| if i + 1 == n { json!(0) } else { json!(i + 1) }).collect();
                ctx.check("width:and", &json!({"and": truthy}), &null);
            }
            "C13" => {
                let o = ctx.check("width:map", &json!({"map": [{"var": "xs"}, {"+": [{"var": ""}, 1]}]}), &dv);
                if let Some(Value::Array(a)) = o.ok() {
                    if a.len() != n {
                        ctx.law_fail("law:map-length", &json!({"map": [{"var": "xs"}, "..."]}), &json!({"xs": format!("[0..{})", n)}), format!("length {}", n), format!("length {}", a.len()));
                    }
                }
                ctx.check("width:map:error-in-last", &json!({"map": [{"var": "xs"}, {"/": [1, {"-": [{"var": ""}, n - 1]}]}]}), &dv);
                ctx.check("width:filter", &json!({"filter": [{"var": "xs"}, {">=": [{"var": ""}, n - 2]}]}), &dv);
                ctx.check("width:reduce", &json!({"reduce": [{"var": "xs"}, {"+": [{"var": "current"}, {"var": "accumulator"}]}, 0]}), &dv);
                ctx.check("width:reduce:last", &json!({"reduce": [{"var": "xs"}, {"var": "current"}, "init"]}), &dv);
                ctx.check("width:map:literal", &json!({"map": [ints, {"var": ""}]}), &null);
            }
            "C14" => {
                for (k, p) in [("all", json!({"<": [{"var": ""}, n - 1]})), ("all", json!({"<": [{"var": ""}, n]})), ("some", json!({"==": [{"var": ""}, n - 1]})), ("some", json!({"==": [{"var": ""}, n]})), ("none", json!({"==": [{"var": ""}, n - 1]})), ("none", json!({">": [{"var": ""}, n]}))] {
                    ctx.check(&format!("width:{}", k), &crate::alphabet::op(k, vec![json!({"var": "xs"}), p]), &dv);
                }
                let st: String = (0..n).map(|i| if i + 1 == n { 'é' } else { 'a' }).collect();
                ctx.check("width:some:string", &json!({"some": [{"var": "s"}, {"==": [{"var": ""}, "é"]}]}), &json!({"s": st}));
                ctx.check("width:all:string", &json!({"all": [{"var": "s"}, {"==": [{"var": ""}, "a"]}]}), &json!({"s": st}));
            }
            "C15" => {
                let ops_: Vec<Value> = (0..n).map(|i| if i % 2 == 0 { json!([i]) } else { json!(i) }).collect();
                ctx.check("width:merge:operands", &json!({"merge": ops_}), &null);
                ctx.check("width:merge:long-array", &json!({"merge": [{"var": "xs"}, [n], {"var": "xs"}]}), &dv);
                for nd in [json!(n - 1), json!((n - 1) as f64), json!(n), json!("0")] {
                    ctx.check("width:in:array", &json!({"in": [nd, {"var": "xs"}]}), &dv);
                }
                let st: String = (0..n).map(|i| if i + 1 == n { 'é' } else { 'a' }).collect();
                ctx.check("width:in:string", &json!({"in": ["aé", {"var": "s"}]}), &json!({"s": st}));
                ctx.check("width:in:string:absent", &json!({"in": ["éa", {"var": "s"}]}), &json!({"s": st}));
            }
            "C16" => {
                let parts: Vec<Value> = (0..n).map(|i| if i % 3 == 0 { json!("é") } else if i % 3 == 1 { json!(i) } else { json!([null]) }).collect();
                ctx.check("width:cat:operands", &json!({"cat": parts}), &null);
                ctx.check("width:cat:long-array", &json!({"cat": [{"var": "xs"}, "|"]}), &dv);
                let st: String = (0..n).map(|i| ['a', 'é', '水', '😀'][i % 4]).collect();
                let ds = json!({"s": st});
                for (a, b) in [(json!(-3), Value::Null), (json!(n - 2), Value::Null), (json!(1), json!(-1 * (n as i64 - 3))), (json!(n / 2), json!(2))] {
                    let mut args = vec![json!({"var": "s"}), a];
                    if !b.is_null() {
                        args.push(b);
                    }
                    ctx.check("width:substr", &json!({"substr": args}), &ds);
                }
            }
            "C10" => {
                let ones: Vec<Value> = (0..n).map(|i| if i % 2 == 0 { json!(1) } else { json!("1") }).collect();
                for k in ["+", "*", "max", "min"] {
                    ctx.check(&format!("width:{}", k), &crate::alphabet::op(k, ones.clone()), &null);
                }
                ctx.check("width:max:last", &json!({"max": (0..n).map(|i| json!(i)).collect::<Vec<_>>()}), &null);
                ctx.check("width:+:error-last", &json!({"+": (0..n).map(|i| if i + 1 == n { json!("x") } else { json!(1) }).collect::<Vec<_>>()}), &null);
            }
            "C11" => {
                ctx.check("width:var:index", &json!({"var": format!("xs.{}", n - 1)}), &dv);
                ctx.check("width:var:index:neg", &json!({"var": format!("xs.-{}", n)}), &dv);
                ctx.check("width:var:index:out", &json!({"var": [format!("xs.{}", n), "dflt"]}), &dv);
                let st: String = (0..n).map(|i| if i + 1 == n { 'é' } else { 'a' }).collect();
                ctx.check("width:var:string-index", &json!({"var": format!("s.{}", n - 1)}), &json!({"s": st}));
                ctx.check("width:var:int-key", &json!({"var": n - 1}), &Value::Array((0..n).map(|i| json!(i)).collect()));
            }
            "C12" => {
                // key lists: de-duplicating the reported keys by linear search is a legitimate (quadratic)
                // implementation - the library's missing_some does it, benign/B5 does it for missing - so the
                // widths stay where a quadratic pass takes seconds, not minutes (a third of the class; an
                // eighth in the unoptimised profiles)
                // ... and never more than 40 000 keys: the hang watchdog allows one evaluation 20 s, which a loaded
                // machine needs for 87 000 keys (a false "hang" of the thorough tier seen under load)
                let n = (if ctx.profile.starts_with("dev") { n / 8 } else { n / 3 }).min(40_000);
                let keys: Vec<Value> = (0..n).map(|i| json!(format!("k{}", i))).collect();
                let d = json!({"k0": 1, format!("k{}", n - 1): null, format!("k{}", n / 2): false});
                ctx.check("width:missing", &json!({"missing": keys}), &d);
                ctx.check("width:missing_some", &json!({"missing_some": [3, keys]}), &d);
                ctx.check("width:missing_some:more", &json!({"missing_some": [4, keys]}), &d);
            }
            _ => {}
        }
    }
}

/// Nested iteration: an iteration operator inside the per-element expression of another one, with
/// exactly one argument position of the inner operator reading the outer element (its collection, its
/// initial value) or none (data-free collection), inner collections that are empty / null / "" for
/// some outer elements, and long outer collections whose inner iterations end early.
pub fn nested_iteration_probes(ctx: &mut Ctx) {
    use crate::alphabet::op;
    let plus = json!({"+": [{"var": "current"}, {"var": "accumulator"}]});
    let inner: Vec<Value> = vec![
        json!({"map": [{"var": "xs"}, {"+": [{"var": ""}, 1]}]}),
        json!({"map": [[10, 20], {"var": ""}]}),
        json!({"reduce": [[10, 20], plus, {"var": "n"}]}),
        json!({"reduce": [{"var": "xs"}, plus, 0]}),
        json!({"reduce": [{"var": "xs"}, plus, {"var": "n"}]}),
        json!({"filter": [{"var": "xs"}, {">": [{"var": ""}, 1]}]}),
        json!({"all": [{"var": "xs"}, {">": [{"var": ""}, 0]}]}),
        json!({"some": [{"var": "xs"}, {">": [{"var": ""}, 2]}]}),
        json!({"none": [{"var": "xs"}, {">": [{"var": ""}, 2]}]}),
        json!({"some": [[1, 2], {"==": [{"var": ""}, 2]}]}),
        json!({"<": [{"reduce": [[10, 20], plus, {"var": "n"}]}, 50]}),
        json!({"map": [{"var": "xs"}, {"var": "n"}]}),
        json!({"all": [{"var": "s"}, {"in": [{"var": ""}, "ab"]}]}),
        json!({"some": [{"var": "nothing"}, true]}),
        json!({"filter": [{"var": "xs"}, {"some": [[1, 3], {"==": [{"var": ""}, 3]}]}]}),
        json!({"reduce": [{"var": "xs"}, {"+": [{"var": "accumulator"}, {"reduce": [[1, 2], plus, {"var": "current"}]}]}, {"var": "n"}]}),
        json!({"map": [{"map": [{"var": "xs"}, {"*": [{"var": ""}, 2]}]}, {"+": [{"var": ""}, 1]}]}),
        json!({"if": [{"some": [{"var": "xs"}, {"+": ["x"]}]}, "t", "f"]}),
        // a literal collection whose items read the outer element (the one place where array items are expressions)
        json!({"some": [[{"var": "n"}, {"var": "s"}], {">": [{"var": ""}, 10]}]}),
        json!({"all": [[{"var": "n"}, 5], {"<": [{"var": ""}, 50]}]}),
        json!({"!": [{"none": [[{"var": "xs.0"}], {"==": [{"var": ""}, 3]}]}]}),
        // a default that reads the element, for keys some elements lack
        json!({"var": ["q", {"var": "n"}]}),
        json!({"var": ["xs.5", {"var": "s"}]}),
        json!({"cat": [{"var": ["q", {"var": "n"}]}, "|", {"var": ["n", {"var": "q"}]}]}),
    ];
    let rows = json!([{"n": 1, "xs": [1, 2], "s": "ab"}, {"n": 100, "xs": [], "s": ""}, {"n": 2, "xs": [3], "s": "abc"}, {"n": 3, "xs": null, "s": null}]);
    let d = json!({"rows": rows, "n": "OUTER", "xs": ["OUTER"], "s": "OUTER"});
    if ctx.mine() {
        for b in &inner {
            ctx.edge();
            for host in ["map", "filter", "all", "some", "none"] {
                ctx.check(&format!("nested-iteration:{}", host), &op(host, vec![json!({"var": "rows"}), b.clone()]), &d);
                ctx.check(&format!("nested-iteration:{}:literal-rows", host), &op(host, vec![json!({"filter": [{"var": "rows"}, true]}), b.clone()]), &d);
            }
            // under reduce the outer element is reached through "current"
            let via_current = rewrite_vars(b, "current");
            ctx.check("nested-iteration:reduce", &json!({"reduce": [{"var": "rows"}, {"merge": [{"var": "accumulator"}, [via_current]]}, []]}), &d);
        }
    }
    // long outer collections whose inner iteration finds its collection empty / null / "" (leaves early)
    for n in crate::alphabet::size_classes(ctx.tier_thorough) {
        if !ctx.mine() {
            continue;
        }
        for empty in [json!([]), json!(null), json!("")] {
            let rows: Vec<Value> = (0..n).map(|i| if i + 1 == n { json!({"tags": ["x"], "i": i}) } else { json!({"tags": empty, "i": i}) }).collect();
            let dd = json!({"rows": rows});
            let q = json!({"some": [{"var": "tags"}, {"==": [{"var": ""}, "x"]}]});
            let a = json!({"all": [{"var": "tags"}, {"==": [{"var": ""}, "x"]}]});
            ctx.edge();
            for host in ["none", "some", "all", "map", "filter"] {
                ctx.check(&format!("nested-iteration:size-probe:{}", host), &op(host, vec![json!({"var": "rows"}), q.clone()]), &dd);
                ctx.check(&format!("nested-iteration:size-probe:{}:all", host), &op(host, vec![json!({"var": "rows"}), a.clone()]), &dd);
            }
            ctx.check("nested-iteration:size-probe:map:filter", &json!({"map": [{"var": "rows"}, {"filter": [{"var": "tags"}, true]}]}), &dd);
            ctx.check("nested-iteration:size-probe:map:reduce", &json!({"map": [{"var": "rows"}, {"reduce": [{"var": "tags"}, {"var": "current"}, {"var": "i"}]}]}), &dd);
        }
    }
}

/// {"var": "k"} -> {"var": "<prefix>.k"} at the outermost scope only (not inside nested iteration bodies).
fn rewrite_vars(v: &Value, prefix: &str) -> Value {
    match v {
        Value::Object(m) if m.len() == 1 => {
            let (k, a) = m.iter().next().unwrap();
            if k == "var" {
                return match a {
                    Value::String(s) if s.is_empty() => json!({"var": prefix}),
                    Value::String(s) => json!({"var": format!("{}.{}", prefix, s)}),
                    other => json!({"var": other}),
                };
            }
            let iter_ops = ["map", "filter", "reduce", "all", "some", "none"];
            if iter_ops.contains(&k.as_str()) {
                if let Value::Array(args) = a {
                    // the collection (and reduce's initial value) belong to the outer scope, the body to the inner one
                    let mut out = Vec::new();
                    for (i, x) in args.iter().enumerate() {
                        if i == 1 {
                            out.push(x.clone());
                        } else {
                            out.push(rewrite_vars(x, prefix));
                        }
                    }
                    return json!({k.clone(): out});
                }
            }
            json!({k.clone(): rewrite_vars(a, prefix)})
        }
        Value::Array(a) => Value::Array(a.iter().map(|x| rewrite_vars(x, prefix)).collect()),
        x => x.clone(),
    }
}

/// Type grid: every operand tuple (1..3 operands) over `alphabet::type_grid` for the given operators,
/// operands written in the rule and read from the data: a change confined to one cell of an operator's
/// type table (one ordered pair of types, one representation of numbers in one position) is inside it.
pub fn type_grid_probes(ctx: &mut Ctx, ops: &[&str]) {
    use crate::alphabet::op;
    let t = crate::alphabet::type_grid();
    for k in ops {
        for n in 1..=3usize {
            if !crate::refmodel::arity_ok(k, n) {
                continue;
            }
            // three operands: the third ranges over a sub-grid
            let third: Vec<Value> = if n == 3 { t.iter().step_by(3).cloned().collect() } else { vec![Value::Null] };
            for a in &t {
                if !ctx.mine() {
                    continue;
                }
                let seconds: Vec<Value> = if n >= 2 { t.clone() } else { vec![Value::Null] };
                for b in &seconds {
                    for c in &third {
                        ctx.edge();
                        let args: Vec<Value> = [a, b, c].iter().take(n).map(|x| (*x).clone()).collect();
                        if !args.iter().any(crate::alphabet::is_operation_shaped) {
                            ctx.check("type-grid:L", &op(k, args.clone()), &Value::Null);
                        }
                        ctx.check("type-grid:V", &op(k, (0..n).map(|i| json!({"var": i})).collect()), &Value::Array(args));
                    }
                }
            }
        }
    }
}

/// Depth probes: operands nested to depths around the limits that recursive helpers and "defensive"
/// caps choose (17, 33, 65, 100, 126 levels of arrays / objects around a leaf), value-checked: the
/// string form, equality, membership, flattening and truthiness of a deep value are defined like those
/// of a shallow one.
pub fn depth_probes(ctx: &mut Ctx) {
    use crate::alphabet::{nest_arrays, nest_objects};
    let prop = ctx.prop.clone();
    for d in crate::alphabet::depth_classes(ctx.tier_thorough) {
        if !ctx.mine() {
            continue;
        }
        let deep_a = nest_arrays(d, json!(["a", null, 2]));
        let deep_b = nest_arrays(d, json!(["a", null, 3]));
        let deep_o = nest_objects(d, json!(1));
        let deep_mixed = nest_arrays(d / 2, nest_objects(d / 2, json!([7])));
        let dv = json!({"x": deep_a, "y": deep_b, "o": deep_o, "m": deep_mixed});
        let (x, y, o, m) = (json!({"var": "x"}), json!({"var": "y"}), json!({"var": "o"}), json!({"var": "m"}));
        let rules: Vec<Value> = match prop.as_str() {
            "C16" => vec![
                json!({"cat": ["<", x, ">"]}), json!({"cat": [deep_a]}), json!({"cat": [o, m]}), json!({"substr": [{"cat": [x]}, 2, 3]}),
            ],
            "C15" => vec![
                json!({"merge": [x, y]}), json!({"merge": [[x], deep_b]}), json!({"in": [x, [y, x]]}), json!({"in": [x, [y]]}), json!({"in": [o, [m, o]]}),
                json!({"in": [deep_a, [deep_b, deep_a]]}),
            ],
            "C07" => vec![json!({"==": [x, "a,,2"]}), json!({"==": [x, y]}), json!({"==": [x, x]}), json!({"!=": [x, "a,,3"]}), json!({"==": [o, "[object Object]"]}), json!({"==": [deep_a, "a,,2"]})],
            "C08" => vec![json!({"===": [x, x]}), json!({"===": [x, "a,,2"]}), json!({"!==": [o, o]})],
            "C09" => vec![json!({"<": [x, y]}), json!({"<=": [y, x]}), json!({">": [y, "a,,2"]}), json!({"<": [x, y, "b"]}), json!({"<": [deep_a, deep_b]})],
            "C06" => vec![json!({"!!": [x]}), json!({"!": [o]}), json!({"if": [m, "t", "f"]}), json!({"filter": [[x, o, m], {"var": ""}]}), json!({"!!": [nest_arrays(d, json!([]))]})],
            "C10" => vec![json!({"+": [nest_arrays(d, json!(3)), 1]}), json!({"-": [{"var": "n"}, 1]}), json!({"max": [nest_arrays(d, json!("5")), 1]}), json!({"*": [x, 2]})],
            "C13" => vec![
                json!({"map": [[x, o], {"var": ""}]}), json!({"filter": [[x, o, 0], {"var": ""}]}), json!({"reduce": [[x, y], {"merge": [{"var": "accumulator"}, [{"var": "current"}]]}, []]}),
                json!({"map": [x, {"cat": [{"var": ""}]}]}),
            ],
            "C14" => vec![json!({"all": [[x, o], {"var": ""}]}), json!({"some": [x, {"==": [{"var": ""}, "a,,2"]}]}), json!({"none": [[m], {"!": [{"var": ""}]}]})],
            "C11" => vec![
                json!({"var": format!("x.{}", vec!["0"; d].join("."))}), json!({"var": format!("x.{}.2", vec!["0"; d].join("."))}), json!({"var": format!("o.{}", vec!["k"; d].join("."))}),
                json!({"var": [format!("o.{}.zz", vec!["k"; d].join(".")), "dflt"]}), json!({"var": format!("x.{}.0.0.0", vec!["0"; d].join("."))}),
            ],
            "C12" => vec![json!({"missing": [format!("o.{}", vec!["k"; d].join(".")), format!("o.{}.zz", vec!["k"; d].join(".")), format!("x.{}.1", vec!["0"; d].join("."))]})],
            "C04" => vec![json!({"merge": [nest_arrays(d, json!({"var": "x"}))]}), json!({"cat": [nest_arrays(d.min(60), json!({"log": "LEAK"}))]}), json!({"if": [true, nest_objects(d, json!({"log": "LEAK"})), 0]})],
            "C02" => vec![nest_arrays(d, json!({"var": "x"})), nest_objects(d, json!({"log": "LEAK"})), json!({"if": [true, nest_arrays(d, json!({"+": ["x"]}))]})],
            _ => vec![],
        };
        let mut dv = dv;
        dv["n"] = nest_arrays(d, json!(" 4 "));
        for r in rules {
            ctx.edge();
            ctx.check("depth-probe", &r, &dv);
        }
    }
}
