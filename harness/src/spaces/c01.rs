//! C01 - evaluation is total: a value or an error, never a panic, abort, stack overflow or hang.
//!
//! Space: (a) the union of the spaces of C02-C16 re-run purely for totality; (b) the extremes
//! space: every operator x every accepted operand count <= 3 x every tuple over X (64-bit
//! integer and double extremes, NUL, 10k-character strings, markers); (c) deep chains: every
//! operator nested in each operand position up to the parser's depth limit, and data nested to
//! the limit through every value-recursive routine; (d) every public function of `js_op` on all
//! pairs / vectors over the corpus; (e) all of it in several build profiles (overflow checks
//! on and off); (f) the process boundary (CLI, Python) - see boundary.rs.
//! Oracle: none needed - the outcome must be Ok or Err. A worker that dies or stops making
//! progress is localised to the single input by the parent (driver.rs).

use crate::alphabet::{self as al, op};
use crate::ctx::Ctx;
use crate::refmodel::{self, OPS};
use crate::spaces;
use jsonlogic_rs::js_op;
use serde_json::{json, Value};

pub fn xs(thorough: bool) -> Vec<Value> {
    let x = al::extremes();
    if thorough {
        x
    } else {
        // one per class
        let keep = [0usize, 2, 3, 5, 6, 7, 8, 9, 11, 13, 15, 16, 17, 20, 21, 23, 25, 27, 28, 29, 30, 31];
        keep.iter().filter_map(|&i| x.get(i).cloned()).collect()
    }
}

pub fn depths() -> Vec<usize> {
    vec![1, 2, 4, 8, 16, 32, 63, 64, 65, 100, 125, 126, 127, 128, 129, 130, 200]
}

pub fn meta(thorough: bool) -> (String, Value) {
    (
        "choice tree: (a) every leaf of the spaces C02..C16, outcome observed only for totality; (b) operator -> accepted count <= 3 -> operand tuple over the extremes X -> data; (c) operator -> operand position -> nesting depth (rule text built as text and accepted by the JSON parser, i.e. within the depth the text interfaces deliver) and data nesting depth through value-recursive routines; (d) public js_op function -> argument vector; each leaf = one execution whose outcome must be Ok or Err (a panic is caught and reported with its source location; an abort, stack overflow or hang kills the isolated worker and is localised by re-running the shard in trace mode); non-trivial = every leaf; distinct = distinct (rule,data) text".into(),
        json!({"extremes": xs(thorough).len(), "depths": depths(), "profiles": if thorough { "release, dev, relchk, devnochk" } else { "release, dev (b-d); relchk (a)" },
               "hang_cap_s": crate::driver::HANG_SECS, "stack": "8 MiB worker thread (the main-thread default of the CLI and CPython)"}),
    )
}

fn helper_calls(ctx: &mut Ctx, a: &Value, b: &Value) {
    macro_rules! call2 {
        ($name:expr, $f:expr) => {{
            let (x, y) = (a.clone(), b.clone());
            let o = ctx.exec_fn(&|| json!({"helper": $name, "a": a, "b": b}).to_string(), move || $f(&x, &y));
            ctx.judge_helper("helper", json!({"helper": $name, "a": a, "b": b}), &o, None);
        }};
    }
    let bv = |x: bool| Value::Bool(x);
    call2!("abstract_eq", |x: &Value, y: &Value| bv(js_op::abstract_eq(x, y)));
    call2!("abstract_ne", |x: &Value, y: &Value| bv(js_op::abstract_ne(x, y)));
    call2!("strict_eq", |x: &Value, y: &Value| bv(js_op::strict_eq(x, y)));
    call2!("strict_ne", |x: &Value, y: &Value| bv(js_op::strict_ne(x, y)));
    call2!("abstract_lt", |x: &Value, y: &Value| bv(js_op::abstract_lt(x, y)));
    call2!("abstract_lte", |x: &Value, y: &Value| bv(js_op::abstract_lte(x, y)));
    call2!("abstract_gt", |x: &Value, y: &Value| bv(js_op::abstract_gt(x, y)));
    call2!("abstract_gte", |x: &Value, y: &Value| bv(js_op::abstract_gte(x, y)));
    call2!("abstract_plus", |x: &Value, y: &Value| js_op::abstract_plus(x, y));
    call2!("abstract_minus", |x: &Value, y: &Value| fr(js_op::abstract_minus(x, y)));
    call2!("abstract_div", |x: &Value, y: &Value| fr(js_op::abstract_div(x, y)));
    call2!("abstract_mod", |x: &Value, y: &Value| fr(js_op::abstract_mod(x, y)));
    call2!("abstract_max", |x: &Value, y: &Value| fr(js_op::abstract_max(&vec![x, y])));
    call2!("abstract_min", |x: &Value, y: &Value| fr(js_op::abstract_min(&vec![x, y])));
    call2!("parse_float_add", |x: &Value, y: &Value| fr(js_op::parse_float_add(&vec![x, y, x])));
    call2!("parse_float_mul", |x: &Value, y: &Value| fr(js_op::parse_float_mul(&vec![x, y, y])));
}

fn fr<E>(r: Result<f64, E>) -> Value {
    match r {
        Ok(f) => json!(f.to_string()),
        Err(_) => json!("Err"),
    }
}

fn unary_helpers(ctx: &mut Ctx, a: &Value) {
    macro_rules! call1 {
        ($name:expr, $f:expr) => {{
            let x = a.clone();
            let o = ctx.exec_fn(&|| json!({"helper": $name, "a": a}).to_string(), move || $f(&x));
            ctx.judge_helper("helper", json!({"helper": $name, "a": a}), &o, None);
        }};
    }
    call1!("to_string", |x: &Value| json!(js_op::to_string(x)));
    call1!("to_number", |x: &Value| json!(js_op::to_number(x).map(|f| f.to_string())));
    call1!("parse_float", |x: &Value| json!(js_op::parse_float(x).map(|f| f.to_string())));
    call1!("to_negative", |x: &Value| json!(js_op::to_negative(x).map(|f| f.to_string()).unwrap_or("Err".into())));
    call1!("str_to_number", |x: &Value| json!(js_op::str_to_number(refmodel::str_form(x)).map(|f| f.to_string())));
    call1!("abstract_max1", |x: &Value| json!(js_op::abstract_max(&vec![x]).map(|f| f.to_string()).unwrap_or("Err".into())));
    call1!("abstract_min0", |_x: &Value| json!(js_op::abstract_min(&vec![]).map(|f| f.to_string()).unwrap_or("Err".into())));
}

/// Build `depth` nested applications of operator k with the recursion in position p.
fn chain_text_filled(k: &str, p: usize, n: usize, depth: usize, leaf: &str, fill: &str) -> String {
    let mut s = leaf.to_string();
    for _ in 0..depth {
        let mut args: Vec<String> = (0..n).map(|_| fill.to_string()).collect();
        args[p] = s;
        s = format!("{{\"{}\":[{}]}}", k, args.join(","));
    }
    s
}

fn chain_text(k: &str, p: usize, n: usize, depth: usize, leaf: &str, bracketless: bool) -> String {
    let mut s = leaf.to_string();
    for _ in 0..depth {
        if bracketless {
            s = format!("{{\"{}\":{}}}", k, s);
        } else {
            // collections of the higher-order operators hold one element: with two, a chain in the
            // expression position needs 2^depth evaluations by the very semantics of the rule
            let mut args: Vec<String> = spaces::c03::benign(k, n).iter().map(|v| if v.is_array() { "[1]".to_string() } else { v.to_string() }).collect();
            args[p] = s;
            s = format!("{{\"{}\":[{}]}}", k, args.join(","));
        }
    }
    s
}

pub fn run(ctx: &mut Ctx) {
    let part = std::env::var("JLMC_C01_PART").unwrap_or_else(|_| "all".into());
    let _ = part;
    let union_here = ctx.tier_thorough || ctx.profile == "relchk";
    let own_here = ctx.tier_thorough || ctx.profile != "relchk";
    // (a) union of the other spaces, totality only
    if union_here {
        ctx.total_only = true;
        for p in ["C02", "C03", "C04", "C05", "C06", "C07", "C08", "C09", "C10", "C11", "C12", "C13", "C14", "C15", "C16"] {
            let saved = ctx.prop.clone();
            ctx.prop = p.to_string();
            ctx.space_tag = Some(p.to_string());
            spaces::run_space(ctx);
            ctx.prop = saved;
        }
        ctx.space_tag = None;
        ctx.total_only = false;
    }
    if !own_here {
        return;
    }
    // (f) the process boundary: the real CLI binary and the real Python package
    if ctx.profile == "release" {
        crate::boundary::c01_cli(ctx);
        crate::boundary::python(ctx, "c01");
    }
    // (g) width: the width probes of the operator spaces also in the unoptimised profile of this check (a
    // recursion over the width of an operand list that the optimiser turns into a loop overflows the stack
    // only without optimisation); in the quick tier the union above runs them in relchk only
    if !ctx.tier_thorough && ctx.profile == "dev" {
        ctx.total_only = true;
        for p in ["C05", "C10", "C11", "C12", "C13", "C14", "C15", "C16"] {
            let saved = ctx.prop.clone();
            ctx.prop = p.to_string();
            ctx.space_tag = Some(format!("{}:width", p));
            spaces::width_probes(ctx);
            ctx.prop = saved;
        }
        ctx.space_tag = None;
        ctx.total_only = false;
    }
    let thorough = ctx.tier_thorough;
    let x = xs(thorough);
    let datas = vec![json!(null), json!({"a": 1, "s": "x"}), json!([1, [2, 3]]), json!("héllo")];
    // (b) extremes
    for k in OPS {
        for n in 1..=3usize {
            if !refmodel::arity_ok(k, n) {
                continue;
            }
            for first in &x {
                if !ctx.mine() {
                    continue;
                }
                let rest = al::tuples(&x, n - 1);
                for r in rest {
                    ctx.edge();
                    let mut args = vec![first.clone()];
                    args.extend(r);
                    // operation-shaped extremes are delivered through data (they cannot be literals)
                    let mut dmap = serde_json::Map::new();
                    let args: Vec<Value> = args
                        .into_iter()
                        .enumerate()
                        .map(|(i, a)| {
                            if al::is_operation_shaped(&a) {
                                dmap.insert(format!("x{}", i), a);
                                json!({"var": format!("x{}", i)})
                            } else {
                                a
                            }
                        })
                        .collect();
                    let rule = op(k, args);
                    if dmap.is_empty() {
                        let d = &datas[(ctx.leaves % datas.len() as u64) as usize].clone();
                        ctx.check_total("extremes", &rule, d);
                    } else {
                        ctx.check_total("extremes", &rule, &Value::Object(dmap));
                    }
                }
            }
        }
    }
    // extremes as data and as var keys / indices
    for a in &x {
        if !ctx.mine() {
            continue;
        }
        for b in &x {
            ctx.edge();
            if !al::is_operation_shaped(b) {
                ctx.check_total("extremes:var-key", &json!({"var": [b]}), a);
                ctx.check_total("extremes:var-key-default", &json!({"var": [b, "d"]}), a);
                ctx.check_total("extremes:missing", &json!({"missing": [b]}), a);
                ctx.check_total("extremes:missing_some", &json!({"missing_some": [b, [b]]}), a);
                ctx.check_total("extremes:missing_some2", &json!({"missing_some": [1, [b, b]]}), a);
                ctx.check_total("extremes:substr", &json!({"substr": [{"var": ""}, b, b]}), a);
                ctx.check_total("extremes:substr2", &json!({"substr": ["héllo", b]}), a);
                if let Some(s) = b.as_str() {
                    ctx.check_total("extremes:path", &json!({"var": format!("a.{}", s)}), &json!({"a": a}));
                }
                if let Some(i) = b.as_i64() {
                    ctx.check_total("extremes:path-index", &json!({"var": format!("{}", i)}), a);
                    ctx.check_total("extremes:path-index2", &json!({"var": format!("0.{}", i)}), &json!([a]));
                }
            }
            helper_calls(ctx, a, b);
        }
        unary_helpers(ctx, a);
    }
    // (d) helpers on the pairwise corpus
    let pc = al::pair_corpus();
    for a in &pc {
        if !ctx.mine() {
            continue;
        }
        for b in &pc {
            ctx.edge();
            helper_calls(ctx, a, b);
        }
        unary_helpers(ctx, a);
    }
    // (c) deep chains
    for k in OPS {
        for n in 1..=3usize {
            if !refmodel::arity_ok(k, n) {
                continue;
            }
            for p in 0..n {
                if !ctx.mine() {
                    continue;
                }
                for depth in depths() {
                    for leaf in ["1", "\"a\"", "[1]", "{\"var\":\"a\"}"] {
                        ctx.edge();
                        let t = chain_text(k, p, n, depth, leaf, false);
                        match serde_json::from_str::<Value>(&t) {
                            Ok(rule) => {
                                ctx.check_total("chain", &rule, &datas[1]);
                            }
                            Err(_) => {
                                ctx.note_outcome("chain:beyond-text-depth", "skipped".into());
                            }
                        }
                        // control flow with falsy / truthy fill: every branch of every level is walked
                        if ["if", "?:", "and", "or"].contains(&k) {
                            for (fill, lf) in [("0", "0"), ("1", "1"), ("0", "1"), ("\"\"", "[]")] {
                                let t = chain_text_filled(k, p, n, depth, lf, fill);
                                if let Ok(rule) = serde_json::from_str::<Value>(&t) {
                                    ctx.check_total("chain:control-flow-fill", &rule, &datas[1]);
                                }
                            }
                        }
                        if n == 1 && p == 0 {
                            let t = chain_text(k, 0, 1, depth, leaf, true);
                            if let Ok(rule) = serde_json::from_str::<Value>(&t) {
                                ctx.check_total("chain:bracketless", &rule, &datas[1]);
                            }
                        }
                    }
                }
            }
        }
    }
    // deep data through the value-recursive routines
    if ctx.mine() {
        for depth in depths() {
            for (txt, what) in [(al::nested_array_text(depth, "1"), "array"), (al::nested_object_text(depth, "1"), "object"), (al::nested_array_text(depth, "null"), "array-null")] {
                let deep: Value = match serde_json::from_str(&txt) {
                    Ok(v) => v,
                    Err(_) => continue,
                };
                let d = json!({"deep": deep.clone(), "a": 1});
                let path = vec!["deep"; 1].into_iter().chain(std::iter::repeat(if what == "object" { "a" } else { "0" }).take(depth + 2)).collect::<Vec<_>>().join(".");
                for r in [
                    json!({"cat": [{"var": "deep"}]}), json!({"==": [{"var": "deep"}, "1"]}), json!({"<": [{"var": "deep"}, {"var": "deep"}]}),
                    json!({"+": [{"var": "deep"}]}), json!({"-": [{"var": "deep"}]}), json!({"max": [{"var": "deep"}, 1]}), json!({"in": [{"var": "deep"}, [{"var": "deep"}]]}),
                    json!({"in": [1, {"var": "deep"}]}), json!({"merge": [{"var": "deep"}, {"var": "deep"}]}), json!({"!!": [{"var": "deep"}]}),
                    json!({"var": path}), json!({"missing": [path]}), json!({"log": {"var": "deep"}}), json!({"===": [{"var": "deep"}, {"var": "deep"}]}),
                    json!({"map": [{"var": "deep"}, {"var": ""}]}), json!({"all": [{"var": "deep"}, {"var": ""}]}), json!({"reduce": [{"var": "deep"}, {"var": "current"}, 0]}),
                    json!({"var": ""}), json!({"if": [{"var": "deep"}, {"var": "deep"}]}), json!({"substr": [{"cat": [{"var": "deep"}]}, -1]}),
                ] {
                    ctx.edge();
                    ctx.check_total(&format!("deep-data:{}", what), &r, &d);
                }
                // the deep value itself as a literal rule and as data
                ctx.check_total("deep-literal", &deep, &deep);
                helper_calls(ctx, &deep, &deep);
                unary_helpers(ctx, &deep);
            }
        }
        // a path with very many segments
        let long_path = vec!["a"; 5000].join(".");
        ctx.check_total("long-path", &json!({"var": long_path}), &json!({"a": {"a": 1}}));
        let long_esc = "\\".repeat(10001);
        ctx.check_total("long-escape", &json!({"var": long_esc}), &json!({"a": {"a": 1}}));
    }
}
