//! C14 - all / some / none are bounded quantifiers with short-circuit; none = not some.
//!
//! Space: collections (literal arrays of *expression* elements of length 0..3 incl. poison and
//! tracers after the deciding element; computed arrays via var / merge; strings incl. non-ASCII,
//! literal and computed; null; other) x predicates (element tests, constants, tracers, poisons,
//! outer-scope probes) x data. Oracle: R on value, Err-ness and log sequence; laws
//! none == not some (value and Err-ness), all(p) == none(not p) on non-empty input.

use crate::alphabet::{self as al, op};
use crate::ctx::Ctx;
use serde_json::{json, Value};

pub fn elem_exprs() -> Vec<Value> {
    vec![
        json!(1), json!(0), json!("a"), json!({"var": "k"}), json!({"var": "z"}), json!({"log": "E"}), json!({"+": ["x"]}), json!({"==": []}),
        // elements that are containers are literals again: nothing inside them is evaluated
        json!([{"log": "LEAK"}]), json!({"k": {"var": "k"}, "j": [{"log": "LEAK"}]}),
    ]
}

pub fn preds() -> Vec<Value> {
    vec![
        json!({"var": ""}), json!(true), json!(false), json!({"==": [{"var": ""}, 1]}), json!({"!": {"var": ""}}), json!({"log": {"var": ""}}),
        json!({"+": ["x"]}), json!({"==": []}), json!({"var": "outer"}), json!({">": [{"var": ""}, 0]}), json!({"in": [{"var": ""}, "aé"]}),
        json!({"if": [{"var": ""}, {"log": "P-t"}, {"log": [0]}]}), json!({"/": [1, {"var": ""}]}),
        json!({"===": [{"var": "0.log"}, "LEAK"]}), json!({"==": [{"var": "k.var"}, "k"]}),
        // an error one lazy level below the predicate root (raised only while the predicate is evaluated)
        json!({"and": [{"==": [{"var": ""}]}]}), json!({"if": [{"!": [1, 2]}]}), json!({"or": [0, {"+": ["x"]}]}),
    ]
}

pub fn data() -> Value {
    json!({"k": 1, "outer": "OUT", "s": "aé水", "empty": [], "nul": null, "num": 3, "obj": {"a": 1}, "arr": [1, 0, "a"], "ones": [1, 1]})
}

pub fn meta(_thorough: bool) -> (String, Value) {
    (
        "choice tree: collection (literal array of 0..3 expression elements over an 8-letter alphabet with per-position tracer marks; computed arrays; literal and computed strings over {a, 2-, 3-, 4-byte chars}; null; non-collections) -> predicate (13) -> operator (all, some, none); leaf = one apply() compared with R on value, Err-ness and log sequence; laws none == not some, all(p) == none(not p) on non-empty collections; non-trivial = R specifies the outcome; distinct = distinct (rule,data) text".into(),
        json!({"literal_collections": 1 + 10 + 100 + 1000, "predicates": preds().len(), "strings": al::s_uni(3).len()}),
    )
}

fn mark(e: &Value, i: usize) -> Value {
    // give tracers a per-position mark
    if e.get("log").is_some() {
        json!({"log": format!("E{}", i)})
    } else {
        e.clone()
    }
}

fn triple(ctx: &mut Ctx, sub: &str, coll: &Value, pred: &Value, d: &Value, nonempty: Option<bool>) {
    ctx.edge();
    let oa = ctx.check(&format!("all:{}", sub), &op("all", vec![coll.clone(), pred.clone()]), d);
    let os = ctx.check(&format!("some:{}", sub), &op("some", vec![coll.clone(), pred.clone()]), d);
    let on = ctx.check(&format!("none:{}", sub), &op("none", vec![coll.clone(), pred.clone()]), d);
    // none == not some
    let ok = match (os.ok().and_then(|v| v.as_bool()), on.ok().and_then(|v| v.as_bool())) {
        (Some(s), Some(n)) => s != n,
        (None, None) => os.is_err() == on.is_err(),
        _ => false,
    };
    if !ok {
        ctx.law_fail("law:none=not-some", &op("none", vec![coll.clone(), pred.clone()]), d, format!("negation of {}", os.show()), on.show());
    }
    // all(p) == none(not p) on non-empty collections (only when no tracer is involved: the log differs)
    if nonempty == Some(true) {
        let np = json!({"!": [pred]});
        let onn = ctx.exec(&op("none", vec![coll.clone(), np]), d);
        if let (Some(a), Some(b)) = (oa.ok(), onn.ok()) {
            if a != b {
                ctx.law_fail("law:all=none-not", &op("all", vec![coll.clone(), pred.clone()]), d, format!("{}", b), format!("{}", a));
            }
        }
    }
    let _ = oa;
}

pub fn run(ctx: &mut Ctx) {
    let ee = elem_exprs();
    let ps = preds();
    let d = data();
    // literal arrays of expression elements
    for n in 0..=(if ctx.tier_thorough { 4usize } else { 3usize }) {
        for t in al::tuples(&ee, n) {
            if !ctx.mine() {
                continue;
            }
            let coll = Value::Array(t.iter().enumerate().map(|(i, e)| mark(e, i)).collect());
            for p in &ps {
                triple(ctx, "literal", &coll, p, &d, None);
            }
        }
    }
    // computed arrays: elements are data
    let vals = vec![json!(1), json!(0), json!("a"), json!(null), json!([]), json!({"var": "k"}), json!({"log": "LEAK"}), json!({"==": [1]}), json!({"in": [1, 2]})];
    for n in 0..=(if ctx.tier_thorough { 4usize } else { 3usize }) {
        for t in al::tuples(&vals, n) {
            if !ctx.mine() {
                continue;
            }
            let mut dd = d.clone();
            dd["coll"] = Value::Array(t.clone());
            for p in &ps {
                triple(ctx, "computed:var", &json!({"var": "coll"}), p, &dd, Some(n > 0));
                if n <= 2 {
                    triple(ctx, "computed:merge", &json!({"merge": [{"var": "coll"}]}), p, &dd, Some(n > 0));
                    // computed without touching the data: the value of a constant expression is data all the same
                    triple(ctx, "computed:constant:merge", &json!({"merge": [t]}), p, &d, Some(n > 0));
                    triple(ctx, "computed:constant:if", &json!({"if": [true, t]}), p, &d, Some(n > 0));
                    triple(ctx, "computed:constant:filter", &json!({"filter": [t, true]}), p, &d, None);
                }
            }
        }
    }
    // collections (arrays and strings) fetched through hard paths
    for payload in [json!([1, 0]), json!([0, 0]), json!([1, 1]), json!([]), json!("ab"), json!(""), json!(null), json!([[1], "x", {"a": 1}]), json!(7)] {
        if !ctx.mine() {
            continue;
        }
        for (name, coll, dd) in al::path_fetches(&payload) {
            for p in [json!({"var": ""}), json!({">": [{"var": ""}, 0]}), json!({"log": {"var": ""}}), json!(true), json!({"===": [{"var": ""}, "a"]})] {
                triple(ctx, &format!("fetch:{}", name), &coll, &p, &dd, None);
            }
        }
    }
    // strings, literal and computed
    let mut ss = al::s_uni(3);
    ss.extend(al::s_uni_extra());
    for s in &ss {
        if !ctx.mine() {
            continue;
        }
        let nonempty = !s.is_empty();
        let mut dd = d.clone();
        dd["str"] = json!(s);
        for p in [
            json!({"==": [{"var": ""}, "é"]}), json!({"in": [{"var": ""}, "a水"]}), json!({"var": ""}), json!({"log": {"var": ""}}),
            json!({"===": [{"substr": [{"var": ""}, 1]}, ""]}), json!({"!==": [{"var": ""}, "😀"]}),
        ] {
            triple(ctx, "string:literal", &json!(s), &p, &d, Some(nonempty));
            triple(ctx, "string:var", &json!({"var": "str"}), &p, &dd, Some(nonempty));
            triple(ctx, "string:cat", &json!({"cat": [{"var": "str"}]}), &p, &dd, Some(nonempty));
        }
    }
    // size probes: the deciding element at every position of a long collection / string
    for n in al::size_classes(ctx.tier_thorough) {
        if n > 300 {
            continue;
        }
        if !ctx.mine() {
            continue;
        }
        let step = if n > 40 { n / 13 + 1 } else { 1 };
        let mut k = 0;
        while k <= n {
            // computed array: 1 everywhere, 0 at k (k == n: no deciding element)
            let coll: Vec<Value> = (0..n).map(|i| if i == k { json!(0) } else { json!(1) }).collect();
            let mut dd = d.clone();
            dd["coll"] = Value::Array(coll.clone());
            triple(ctx, "size-probe:var", &json!({"var": "coll"}), &json!({"log": {"var": ""}}), &dd, Some(true));
            // literal array of expressions: tracers, then a poison after the deciding element
            let lit: Vec<Value> = (0..n).map(|i| if i < k { json!({"log": [1]}) } else if i == k { json!({"log": [0]}) } else { json!({"+": ["x"]}) }).collect();
            triple(ctx, "size-probe:literal", &Value::Array(lit), &json!({"var": ""}), &d, None);
            // string: 'a' everywhere, a 4-byte character at k
            let st: String = (0..n).map(|i| if i == k { '😀' } else { 'a' }).collect();
            triple(ctx, "size-probe:string", &json!(st), &json!({"==": [{"var": ""}, "a"]}), &d, Some(true));
            triple(ctx, "size-probe:string:var", &json!({"var": "str"}), &json!({"log": {"var": ""}}), &json!({"str": st}), Some(true));
            k += step;
        }
    }
    // strings over letters that collide in encodings (lead bytes, low bytes, combining marks)
    for st in al::s_uni_rich(2) {
        if !ctx.mine() {
            continue;
        }
        let nonempty = !st.is_empty();
        for c in ['a', 'ü', '氵', '中', '😁', 'д'] {
            let p = json!({"===": [{"var": ""}, c.to_string()]});
            triple(ctx, "string:rich:literal", &json!(st), &p, &d, Some(nonempty));
            triple(ctx, "string:rich:var", &json!({"var": "str"}), &p, &json!({"str": st}), Some(nonempty));
        }
        triple(ctx, "string:rich:log", &json!({"var": "str"}), &json!({"log": {"var": ""}}), &json!({"str": st}), Some(nonempty));
    }
    // spelling twins (1 / "1", null / "null", ...) far apart in long collections, type-sensitive predicates
    for n in al::size_classes(ctx.tier_thorough) {
        if n > 300 {
            continue;
        }
        if !ctx.mine() {
            continue;
        }
        for (x, y) in al::spelling_twins() {
            for (first, second) in [(x.clone(), y.clone()), (y.clone(), x.clone())] {
                let coll: Vec<Value> = (0..n).map(|i| if i == 0 { first.clone() } else if i == n - 1 { second.clone() } else { json!("pad") }).collect();
                let dd = json!({"coll": coll, "w": second});
                for p in [json!({"===": [{"var": ""}, {"var": "nope"}]}), json!({"!==": [{"var": ""}, "pad"]}), json!({"in": [{"var": ""}, [second.clone()]]})] {
                    triple(ctx, "size-probe:twins", &json!({"var": "coll"}), &p, &dd, Some(true));
                }
                // the predicate distinguishes the twin by strict equality with a literal of the second's type
                if !al::is_operation_shaped(&second) {
                    triple(ctx, "size-probe:twins:strict", &json!({"var": "coll"}), &json!({"===": [{"var": ""}, second.clone()]}), &dd, Some(true));
                }
            }
        }
    }
    // numeric boundary elements with type- and value-sensitive predicates
    {
        let nums = al::numbers_small();
        for t in al::tuples(&nums, 2) {
            if !ctx.mine() {
                continue;
            }
            let dd = json!({"coll": t});
            for p in [json!({"===": [{"var": ""}, 9007199254740992u64]}), json!({"<": [{"var": ""}, 9007199254740993u64]}), json!({"var": ""}), json!({"in": [{"var": ""}, [1, 9223372036854775808u64]]})] {
                triple(ctx, "numeric-boundary", &json!({"var": "coll"}), &p, &dd, Some(true));
            }
        }
    }
    // item-dependence: every way a predicate can depend on its element (var, var with default, missing,
    // missing_some, a nested quantifier / map / reduce / in over a field of the element), over computed
    // collections of objects that differ in what they carry; the first element is not representative
    {
        let elems = vec![json!({"qty": 1}), json!({"sku": "x"}), json!({"qty": 0, "tags": ["x"]}), json!({}), json!({"qty": 2, "sku": "y", "tags": []})];
        let item_preds = vec![
            json!({"var": "qty"}),
            json!({"var": ["qty", true]}),
            json!({"missing": ["qty"]}),
            json!({"!": {"missing": ["qty"]}}),
            json!({"missing": "sku"}),
            json!({"missing_some": [1, ["qty", "sku"]]}),
            json!({"!": [{"missing_some": [2, ["qty", "sku", "tags"]]}]}),
            json!({"some": [{"var": "tags"}, {"==": [{"var": ""}, "x"]}]}),
            json!({"in": ["x", {"var": "tags"}]}),
            json!({"map": [{"var": "tags"}, 1]}),
            json!({"reduce": [{"var": "tags"}, 1, 0]}),
            json!({"filter": [{"var": "tags"}, true]}),
            json!({"merge": [{"var": "tags"}]}),
            json!({"log": {"missing": ["qty", "sku"]}}),
            json!({"if": [{"missing": ["qty"]}, false, true]}),
        ];
        for n in 1..=(if ctx.tier_thorough { 4usize } else { 3usize }) {
            for t in al::tuples(&elems, n) {
                if !ctx.mine() {
                    continue;
                }
                let dd = json!({"items": t, "qty": "OUTER", "sku": "OUTER", "tags": ["x"]});
                for p in &item_preds {
                    triple(ctx, "item-dependence:var", &json!({"var": "items"}), p, &dd, Some(true));
                    if n <= 2 {
                        triple(ctx, "item-dependence:merge", &json!({"merge": [{"var": "items"}, []]}), p, &dd, Some(true));
                        triple(ctx, "item-dependence:filter", &json!({"filter": [{"var": "items"}, true]}), p, &dd, Some(true));
                    }
                }
            }
        }
    }
    // rows of equal byte length (33, 40, 64, 65 bytes) that differ at one end only, with predicates that
    // index into the element: every element is a fresh temporary of the same size as the previous one
    for len in [33usize, 40, 64, 65] {
        if !ctx.mine() {
            continue;
        }
        let row = |first: char, last: char| -> String { format!("{}{}{}", first, "-".repeat(len - 2), last) };
        let rows: Vec<Value> = vec![json!(row('A', 'a')), json!(row('B', 'b')), json!(row('C', 'c')), json!(row('D', 'd'))];
        let recs: Vec<Value> = rows.iter().map(|r| json!({"name": r, "tags": [r]})).collect();
        let dd = json!({"rows": rows, "recs": recs});
        for want in ["A", "C", "D", "Z"] {
            let lw = want.to_lowercase();
            for p in [
                json!({"==": [{"var": 0}, want]}), json!({"==": [{"var": -1}, lw]}), json!({"in": [want, {"var": ""}]}),
                json!({"==": [{"substr": [{"var": ""}, 0, 1]}, want]}), json!({"==": [{"substr": [{"var": ""}, -1]}, lw]}),
            ] {
                triple(ctx, "long-rows:strings", &json!({"var": "rows"}), &p, &dd, Some(true));
            }
            for p in [json!({"==": [{"var": "name.0"}, want]}), json!({"==": [{"var": "tags.0.-1"}, lw]}), json!({"some": [{"var": "tags"}, {"==": [{"var": 0}, want]}]})] {
                triple(ctx, "long-rows:records", &json!({"var": "recs"}), &p, &dd, Some(true));
            }
        }
    }
    // null, empty and non-collections
    if ctx.mine() {
        let colls = vec![
            json!(null), json!({"var": "nul"}), json!({"var": "empty"}), json!({"var": "missing"}), json!([]), json!(""), json!({"cat": []}),
            json!(5), json!(true), json!(false), json!(0), json!({}), json!({"a": 1}), json!({"var": "num"}), json!({"var": "obj"}), json!({"var": "k"}),
            json!({"+": ["x"]}), json!({"==": []}), json!({"log": [[1]]}), json!({"log": "ab"}),
        ];
        for c in &colls {
            for p in &ps {
                triple(ctx, "other", c, p, &d, None);
            }
        }
    }
    // straddle strings taken character by character
    for (st, ci) in al::straddle_strings() {
        if !ctx.mine() {
            continue;
        }
        let ch: String = st.chars().nth(ci).unwrap().to_string();
        for p in [json!({"===": [{"var": ""}, ch]}), json!({"!==": [{"var": ""}, ch]}), json!({"in": [{"var": ""}, "axyz"]}), json!({"log": {"var": ""}})] {
            triple(ctx, "string:straddle", &json!({"var": "s"}), &p, &json!({"s": st}), Some(true));
        }
    }
    crate::spaces::render_probes(ctx, &["all", "some", "none"]);
    crate::spaces::width_probes(ctx);
    crate::spaces::sweep::length_sweep(ctx);
    crate::spaces::nested_iteration_probes(ctx);
    crate::spaces::type_grid_probes(ctx, &["all", "some", "none"]);
    crate::spaces::depth_probes(ctx);
}
