//! C10 - arithmetic yields the exact IEEE-754 double or an error, never a wrong number.
//!
//! Space: operand tuples over A = N (numbers around 2^53, 2^63, 2^64, 1e-320 .. 1.8e308, both
//! spellings) + S_num (string spellings) + containers, lengths 0..5, for + - * / % min max,
//! channels L (literal) and V (via var), plus the bracket-less unary forms.
//! Oracle: R computes the double with its own ToNumber / parseFloat (validated against V8)
//! and the natural left fold; the returned JSON number must equal it exactly (integers are
//! distinguished from floats, so 2^63 must be spelled 9223372036854775808) and Err iff an
//! operand is non-numeric or the result is not finite.

use crate::alphabet::{self as al, op};
use crate::ctx::Ctx;
use serde_json::{json, Value};

pub fn containers() -> Vec<Value> {
    ["[]", "[3]", r#"["5"]"#, "[1,2]", "[null]", "[[5]]", "{}", "true", "false", "null", r#"["1e3"]"#, "[-0.0]", r#"[" 7 "]"#]
        .iter()
        .map(|s| al::parse(s))
        .collect()
}

pub fn full() -> Vec<Value> {
    let mut v = al::numbers();
    v.extend(al::s_num());
    v.extend(containers());
    v.extend(al::wrapped_scalars());
    // "1" wrapped in every white-space candidate (and look-alike)
    v.extend(al::ws_strings().into_iter().step_by(2));
    al::dedup(v)
}

/// sub-alphabet for triples: one representative per conversion class and magnitude class
pub fn mid(thorough: bool) -> Vec<Value> {
    let t = [
        "0", "1", "-1", "0.5", "0.1", "0.2", "3", "9007199254740992", "9007199254740993", "9223372036854775807",
        "9223372036854775808", "-9223372036854775808", "18446744073709551615", "1e19", "1e308", "-1e308",
        "1.7976931348623157e308", "5e-324", "-0.0", r#""""#, r#""2""#, r#""12px""#, r#""1e3""#, r#""0x10""#, r#"" 4 ""#,
        r#""a""#, r#""Infinity""#, "[3]", "[]", "null", "true", "{}",
    ];
    let mut v: Vec<Value> = t.iter().map(|s| al::parse(s)).collect();
    if thorough {
        v.extend(
            ["2", "1e21", "1e-320", "-9223372036854775809.0", "18446744073709551616.0", "4294967296", r#""1-2""#, r#""1e+""#, r#"".5""#, r#""-1""#,
             r#""nan""#, r#""inf""#, "[1,2]", r#"["5"]"#, "false", "1.5", "-1e19", "123456789.125", "0.30000000000000004", r#""1e1000""#,
             r#""１２""#, "[null]", "[[5]]", r#""+.5""#, r#""1.""#, r#""1e5e""#, "10", r#""00012""#]
                .iter()
                .map(|s| al::parse(s)),
        );
    }
    v
}

pub fn small() -> Vec<Value> {
    ["1", "-1", "0.1", "3", "9007199254740993", "9223372036854775807", "1e308", "5e-324", r#""2""#, r#""12px""#, r#""a""#, "[3]"]
        .iter()
        .map(|s| al::parse(s))
        .collect()
}

pub const OPS: [&str; 7] = ["+", "-", "*", "/", "%", "min", "max"];
pub const VARIADIC: [&str; 4] = ["+", "*", "max", "min"];

pub fn meta(thorough: bool) -> (String, Value) {
    (
        "choice tree: operator -> operand count -> operand_1 .. operand_n from the arithmetic alphabet -> channel (L literal / V via var / U bracket-less unary); leaf = one apply() compared with R's exactly computed double and Err-ness; non-trivial = R specifies the outcome; distinct = distinct (rule,data) text".into(),
        json!({
            "alphabet_full": full().len(), "alphabet_mid": mid(thorough).len(), "alphabet_small": small().len(),
            "lengths": "0..2 over full (7 operators, channels L+V), 3 over mid (+ * max min), 4 over small, 5 over small[..8] (thorough: small)",
        }),
    )
}

pub fn run(ctx: &mut Ctx) {
    let a = full();
    let null = Value::Null;
    // length 0 and the bracket-less forms
    if ctx.mine() {
        for k in OPS {
            ctx.check(&format!("{}:0", k), &op(k, vec![]), &null);
        }
    }
    // length 1
    for x in &a {
        if !ctx.mine() {
            continue;
        }
        for k in OPS {
            ctx.edge();
            let r = op(k, vec![x.clone()]);
            let o = ctx.check(&format!("{}:1:L", k), &r, &null);
            ctx.check(&format!("{}:1:V", k), &op(k, vec![json!({"var": "a"})]), &json!({"a": x}));
            if !x.is_array() {
                // {"op": x} means {"op": [x]}
                let ru = al::obj1(k, x.clone());
                let ou = ctx.check(&format!("{}:1:U", k), &ru, &null);
                if ou.ok() != o.ok() || ou.is_err() != o.is_err() {
                    ctx.law_fail("law:unary-sugar", &ru, &null, o.show(), ou.show());
                }
            }
        }
    }
    // decimal strings with 15-20 significant digits, alone and against a few partners
    for x in al::decimal_strings() {
        if !ctx.mine() {
            continue;
        }
        for k in OPS {
            ctx.edge();
            ctx.check(&format!("{}:decimal-string:1", k), &op(k, vec![x.clone()]), &null);
            for y in [json!(0), json!(1), json!("1"), json!(-1), json!(3)] {
                ctx.check(&format!("{}:decimal-string:2", k), &op(k, vec![x.clone(), y.clone()]), &null);
                ctx.check(&format!("{}:decimal-string:2", k), &op(k, vec![y.clone(), json!({"var": "s"})]), &json!({"s": x}));
            }
        }
        // the parseFloat side also takes a prefix: digits followed by a unit
        let xs = x.as_str().unwrap_or("").to_string();
        ctx.check("+:decimal-string:prefix", &json!({"+": [format!("{}px", xs)]}), &null);
        ctx.check("*:decimal-string:prefix", &json!({"*": [format!(" {} ", xs), 1]}), &null);
    }
    // radix literal families around the accumulator widths (all-zero, all-max, top bit, bottom bit, alternating)
    for x in al::radix_families().into_iter().chain(al::radix_widths()).chain(al::radix_tails()).chain(al::integer_digit_strings()) {
        if !ctx.mine() {
            continue;
        }
        for k in OPS {
            ctx.edge();
            ctx.check(&format!("{}:radix-family:1", k), &op(k, vec![x.clone()]), &null);
            ctx.check(&format!("{}:radix-family:2", k), &op(k, vec![json!(1), json!({"var": "s"})]), &json!({"s": x}));
        }
        ctx.check("-:radix-family:neg", &json!({"-": [format!("-{}", x.as_str().unwrap())]}), &null);
    }
    // white-space blocks (see cmp): as arithmetic operands
    for x in al::ws_block_strings().into_iter().chain(al::mutated_literals()) {
        if !ctx.mine() {
            continue;
        }
        for k in OPS {
            ctx.edge();
            ctx.check(&format!("{}:ws-block:1", k), &op(k, vec![x.clone()]), &null);
            ctx.check(&format!("{}:ws-block:2", k), &op(k, vec![json!(2), json!({"var": "s"})]), &json!({"s": x}));
        }
    }
    // factor boundaries: products / sums of 2..4 integers that cross 2^53, 2^63, 2^64
    {
        let fb = al::factor_boundaries();
        for n in 2..=4usize {
            let alpha: Vec<Value> = if n <= 3 { fb.clone() } else { fb.iter().take(8).cloned().collect() };
            for t in al::tuples(&alpha, n) {
                if !ctx.mine() {
                    continue;
                }
                for k in VARIADIC {
                    ctx.edge();
                    ctx.check(&format!("{}:factor-boundaries:{}", k, n), &op(k, t.clone()), &null);
                }
                if n == 2 {
                    for k in ["-", "/", "%"] {
                        ctx.check(&format!("{}:factor-boundaries:2", k), &op(k, t.clone()), &null);
                    }
                }
            }
        }
    }
    // magnitude ladder: all pairs around every integer-width boundary (integer fast paths whose
    // partial results leave the exact range, cancellation back into it)
    {
        let lad = al::magnitude_ladder();
        for x in &lad {
            if !ctx.mine() {
                continue;
            }
            for y in &lad {
                ctx.edge();
                for k in OPS {
                    ctx.check(&format!("{}:ladder:2", k), &op(k, vec![x.clone(), y.clone()]), &null);
                }
            }
            // three operands: out of the exact range and back
            for y in lad.iter().filter(|v| v.is_i64() || v.is_u64()) {
                for z in [json!(1), json!(-1), x.clone()] {
                    ctx.check("+:ladder:3", &json!({"+": [x, y, z]}), &null);
                    ctx.check("+:ladder:3:V", &json!({"+": [{"var": 0}, {"var": 1}, {"var": 2}]}), &json!([y, z, x]));
                }
            }
        }
    }
    // sums that leave the exactly representable range and come back: (a, small, -a) and permutations for every
    // ladder integer, all operands integer-typed (and the same with one operand float-typed: the spelling of
    // an operand does not change a sum)
    {
        let lad = al::magnitude_ladder();
        for a in lad.iter().filter_map(|v| v.as_i64()) {
            if !ctx.mine() || a == i64::MIN {
                continue;
            }
            for sm in [1i64, 2, 3, -4, 7] {
                ctx.edge();
                for t in [[a, sm, -a], [-a, sm, a], [sm, a, -a], [a, -a, sm]] {
                    ctx.check("+:cancellation:3", &json!({"+": [t[0], t[1], t[2]]}), &null);
                    ctx.check("+:cancellation:3:float-spelling", &json!({"+": [t[0], t[1] as f64, t[2]]}), &null);
                    ctx.check("+:cancellation:3:V", &json!({"+": [{"var": 0}, {"var": 1}, {"var": 2}]}), &json!([t[0], t[1], t[2]]));
                }
                ctx.check("+:cancellation:5", &json!({"+": [1, 2, a, -10, 1, -a]}), &null);
                ctx.check("-:cancellation", &json!({"-": [{"+": [a, sm]}, a]}), &null);
            }
        }
    }
    // grouping: the same operator nested in an operand position is a call of its own (its result is rounded,
    // range-checked and delivered before the outer call sees it): floating-point + and * are not associative,
    // an inner overflow is an error even when the outer operands would cancel it, an inner call has its own
    // operand-count rules
    {
        let g: Vec<Value> = ["0.1", "0.2", "0.3", "1e308", "-1e308", "1e-200", "1e200", "9007199254740992", "1", "-1", "3", "\"x\"", "\"-Infinity\"", "\"1e309\"", "5e-324", "0.5", "0", "-0.0", "\"0\"", "\"0.1\"", "\"1e308\"", "\"1e200\"", "[0.2]"].iter().map(|t| al::parse(t)).collect();
        for x in &g {
            for y in &g {
                if !ctx.mine() {
                    continue;
                }
                for z in &g {
                    ctx.edge();
                    for k in ["+", "*", "max", "min"] {
                        ctx.check(&format!("{}:grouping:right", k), &op(k, vec![x.clone(), op(k, vec![y.clone(), z.clone()])]), &null);
                        ctx.check(&format!("{}:grouping:left", k), &op(k, vec![op(k, vec![x.clone(), y.clone()]), z.clone()]), &null);
                    }
                    for k in ["+", "*", "max", "min"] {
                        ctx.check(&format!("{}:grouping:flat", k), &op(k, vec![x.clone(), y.clone(), z.clone()]), &null);
                    }
                    ctx.check("+:grouping:minus", &json!({"+": [x, {"-": [y, z]}]}), &null);
                    ctx.check("*:grouping:div", &json!({"*": [x, {"/": [y, z]}]}), &null);
                }
                for k in ["+", "*", "max", "min"] {
                    ctx.check(&format!("{}:grouping:inner-unary", k), &op(k, vec![x.clone(), op(k, vec![y.clone()]), x.clone()]), &null);
                    ctx.check(&format!("{}:grouping:inner-empty", k), &op(k, vec![x.clone(), op(k, vec![]), y.clone()]), &null);
                    ctx.check(&format!("{}:grouping:inner-bare", k), &op(k, vec![x.clone(), al::obj1(k, y.clone())]), &null);
                    ctx.check(&format!("{}:grouping:deep", k), &op(k, vec![x.clone(), op(k, vec![y.clone(), op(k, vec![x.clone(), op(k, vec![y.clone(), x.clone()])])])]), &null);
                }
            }
        }
    }
    // near-integers: two-decimal fractions against scale factors; the exact result is often one ulp
    // away from a whole number and must not be "tidied" into it
    {
        let scales = [json!(3), json!(10), json!(100), json!(1000), json!(0.1), json!(0.01), json!(1e15), json!(7)];
        for d in 1..=500u32 {
            if !ctx.mine() {
                continue;
            }
            let x = json!(d as f64 / 100.0);
            for sc in &scales {
                ctx.edge();
                for k in ["*", "/", "+", "-", "%"] {
                    ctx.check(&format!("{}:near-integer", k), &op(k, vec![x.clone(), sc.clone()]), &null);
                }
            }
            ctx.check("+:near-integer:3", &json!({"+": [x, 0.2, 0.1]}), &null);
            ctx.check("-:near-integer:big", &json!({"-": [4503599627370496u64, x]}), &null);
            ctx.check("+:near-integer:big", &json!({"+": [2251799813685248u64, x]}), &null);
        }
    }
    // length 2
    for x in &a {
        for y in &a {
            if !ctx.mine() {
                continue;
            }
            let d = json!({"a": x, "b": y});
            for k in OPS {
                ctx.edge();
                ctx.check(&format!("{}:2:L", k), &op(k, vec![x.clone(), y.clone()]), &null);
                ctx.check(&format!("{}:2:V", k), &op(k, vec![json!({"var": "a"}), json!({"var": "b"})]), &d);
            }
        }
    }
    // length 3
    let m = mid(ctx.tier_thorough);
    for x in &m {
        for y in &m {
            if !ctx.mine() {
                continue;
            }
            for z in &m {
                ctx.edge();
                for k in VARIADIC {
                    ctx.check(&format!("{}:3", k), &op(k, vec![x.clone(), y.clone(), z.clone()]), &null);
                }
            }
        }
    }
    // size probes: long operand lists with a position-sensitive pattern (one odd operand at k)
    for n in al::size_classes(ctx.tier_thorough) {
        if !ctx.mine() {
            continue;
        }
        let step = if n > 40 { n / 11 + 1 } else { 1 };
        for odd in [json!("12px"), json!(0.5), json!("a"), json!(9007199254740993u64), json!([3]), json!(-1e308)] {
            let mut k = 0;
            while k < n {
                ctx.edge();
                let args: Vec<Value> = (0..n).map(|i| if i == k { odd.clone() } else if i % 3 == 0 { json!(1) } else if i % 3 == 1 { json!("2") } else { json!(1.5) }).collect();
                for kk in VARIADIC {
                    ctx.check(&format!("{}:size-probe", kk), &op(kk, args.clone()), &null);
                }
                k += step;
            }
        }
        // all through var: one long data array
        let data: Vec<Value> = (0..n).map(|i| json!(i as f64 * 0.25 - 3.0)).collect();
        let args: Vec<Value> = (0..n).map(|i| json!({"var": i})).collect();
        for kk in VARIADIC {
            ctx.check(&format!("{}:size-probe:V", kk), &op(kk, args.clone()), &Value::Array(data.clone()));
        }
    }
    // capacity probes: n distinct numeric strings (and distinct prefixed strings) in one rule, then the first
    // ones again, under both coercions
    for n in al::size_classes(ctx.tier_thorough) {
        if !ctx.mine() {
            continue;
        }
        let mut strs: Vec<Value> = (0..n).map(|i| json!(format!("{}.5", i))).collect();
        strs.extend((0..n.min(4)).map(|i| json!(format!("{}.5", i))));
        let mut px: Vec<Value> = (0..n).map(|i| json!(format!("{}px", i))).collect();
        px.extend((0..n.min(4)).map(|i| json!(format!("{}px", i))));
        ctx.edge();
        for k in VARIADIC {
            ctx.check(&format!("{}:capacity:numeric-strings", k), &op(k, strs.clone()), &null);
            ctx.check(&format!("{}:capacity:prefixed-strings", k), &op(k, px.clone()), &null);
        }
        // parseFloat first, Number afterwards, on the same strings (and the other way round)
        ctx.check("capacity:coercions-mixed", &json!({"cat": [{"+": px.clone()}, "|", {"map": [px.clone(), {"==": [{"var": ""}, 1]}]}, "|", {"+": px.clone()}]}), &null);
        ctx.check("capacity:coercions-mixed:2", &json!({"merge": [{"map": [strs.clone(), {"<": [{"var": ""}, 2]}]}, {"*": strs.iter().take(8).cloned().collect::<Vec<_>>()}, {"max": strs.clone()}]}), &null);
    }
    // length 4, 5
    let s = small();
    for x in &s {
        for y in &s {
            if !ctx.mine() {
                continue;
            }
            for z in &s {
                for w in &s {
                    ctx.edge();
                    for k in VARIADIC {
                        ctx.check(&format!("{}:4", k), &op(k, vec![x.clone(), y.clone(), z.clone(), w.clone()]), &null);
                    }
                }
            }
        }
    }
    let s5: Vec<Value> = if ctx.tier_thorough { s.clone() } else { s.iter().take(8).cloned().collect() };
    for x in &s5 {
        for y in &s5 {
            if !ctx.mine() {
                continue;
            }
            for z in &s5 {
                for w in &s5 {
                    for u in &s5 {
                        ctx.edge();
                        for k in VARIADIC {
                            ctx.check(&format!("{}:5", k), &op(k, vec![x.clone(), y.clone(), z.clone(), w.clone(), u.clone()]), &null);
                        }
                    }
                }
            }
        }
    }
    crate::spaces::render_probes(ctx, &OPS);
    crate::spaces::width_probes(ctx);
    crate::spaces::sweep::length_sweep(ctx);
    crate::spaces::type_grid_probes(ctx, &OPS);
    crate::spaces::depth_probes(ctx);
}
