//! C04 - only rule text is executed: data and computed values are never re-interpreted.
//!
//! Space: a marker store as data (fields holding {"var":"s"}, {"+":["x"]}, {"log":"LEAK"},
//! alone and inside arrays) fed into every operand position of every operator through
//! channel V (var) and C (computed by if / merge); var defaults; collection elements,
//! accumulators and results of map / filter / reduce; computed vs literal collections of
//! all / some / none; tracer rules (every operand wrapped in a uniquely marked log: each marker
//! printed exactly as often as R evaluates the operand); and the substitution law for the 22
//! eager operators over E^n, n <= 3.
//! Oracle: R (single-pass by construction) on value and on the captured log lines.

use crate::alphabet::{self as al, op};
use crate::ctx::Ctx;
use crate::refmodel::{self, EAGER, OPS};
use crate::spaces::c03::benign;
use serde_json::{json, Value};

pub fn store() -> Value {
    json!({
        "m_var": {"var": "s"},
        "m_err": {"+": ["x"]},
        "m_log": {"log": "LEAK"},
        "m_if": {"if": [true, "REINTERPRETED"]},
        "arr": [{"var": "s"}, {"log": "LEAK"}],
        "arr_err": [{"+": ["x"]}],
        "arr_mixed": [0, {"var": "s"}, 1],
        "key_op": {"cat": ["s"]},
        "s": "SECRET", "one": 1, "str": "abc", "a": 1,
        "nested": {"deep": {"var": "s"}},
        "arr_en": [[], 1], "arr_en2": [1, [], [[], 2]]
    })
}

/// Expressions that deliver a marker (data that looks like an operation) to an operand position.
pub fn marker_exprs() -> Vec<(&'static str, Value)> {
    vec![
        ("V:m_var", json!({"var": "m_var"})),
        ("V:m_err", json!({"var": "m_err"})),
        ("V:m_log", json!({"var": "m_log"})),
        ("V:m_if", json!({"var": "m_if"})),
        ("V:arr", json!({"var": "arr"})),
        ("V:arr_err", json!({"var": "arr_err"})),
        ("V:nested", json!({"var": "nested.deep"})),
        ("V:arr.0", json!({"var": "arr.0"})),
        ("V:arr_en", json!({"var": "arr_en"})),
        ("V:arr_en2", json!({"var": "arr_en2"})),
        ("C:arr_en", json!({"merge": [[[], 1]]})),
        ("C:if", json!({"if": [true, {"var": "m_var"}, 0]})),
        ("C:if-err", json!({"if": [false, 0, {"var": "m_err"}]})),
        ("C:or", json!({"or": [0, {"var": "m_log"}]})),
        ("C:and", json!({"and": [1, {"var": "m_var"}]})),
        ("C:merge", json!({"merge": [{"var": "arr"}]})),
        ("C:merge-err", json!({"merge": [{"var": "m_err"}, {"var": "m_log"}]})),
        ("C:default", json!({"var": ["nope", {"var": "m_var"}]})),
        ("C:default-log", json!({"var": ["nope", {"var": "m_log"}]})),
        ("C:map", json!({"map": [{"var": "arr"}, {"var": ""}]})),
        ("C:filter", json!({"filter": [{"var": "arr"}, true]})),
        ("C:reduce", json!({"reduce": [{"var": "arr"}, {"var": "current"}, 0]})),
        ("C:log", json!({"log": {"var": "m_var"}})),
        // computed without touching the data: a constant expression's value is as inert as any other
        ("K:merge", json!({"merge": [[{"var": "s"}]]})),
        ("K:merge-2", json!({"merge": [[{"log": "LEAK"}], [{"+": ["x"]}]]})),
        ("K:if", json!({"if": [true, [{"var": "s"}]]})),
        ("K:or", json!({"or": [0, [{"log": "LEAK"}]]})),
        ("K:filter", json!({"filter": [[[{"log": "LEAK"}]], true]})),
        ("K:map", json!({"map": [[1], [{"var": "s"}]]})),
        ("K:reduce", json!({"reduce": [[1], [{"var": "s"}, {"log": "LEAK"}], 0]})),
    ]
}

/// E: operand expressions for the substitution law.
pub fn exprs(thorough: bool) -> Vec<Value> {
    let mut e = vec![
        json!(1), json!(0), json!("a"), json!(null), json!([1, 2]), json!("2"), json!(true), json!([]),
        json!({"var": "one"}), json!({"var": "str"}), json!({"var": "nope"}), json!({"var": "m_var"}), json!({"var": "arr"}),
        json!({"var": "m_err"}), json!({"+": ["x"]}), json!({"==": []}), json!({"log": "T"}),
        json!({"cat": ["a", {"var": "one"}]}), json!({"+": [1, {"var": "one"}]}), json!({"merge": [{"var": "arr"}, 1]}),
        json!({"if": [{"var": "nope"}, 1, {"var": "m_log"}]}), json!({"var": ["nope", {"var": "m_var"}]}),
        json!({"map": [{"var": "arr"}, {"var": ""}]}), json!({"missing": ["one", "q"]}),
        json!({"merge": [[{"var": "s"}], 2.0]}), json!({"if": [true, [{"log": "LEAK"}]]}),
        // array literals of every small length: where ONE operand stands they are one operand
        json!([1, 2, 3]), json!(["abc", 1]), json!([[1, 1]]), json!([{"var": "one"}]),
    ];
    if thorough {
        e.extend([
            json!(-1), json!(1.5), json!("abc"), json!({}), json!({"var": "m_log"}), json!({"var": "arr_err"}), json!({"var": ""}),
            json!({"and": [1, {"var": "m_var"}]}), json!({"reduce": [{"var": "arr"}, {"var": "current"}, 0]}), json!({"substr": ["hello", 1, 2]}),
        ]);
    }
    e
}

pub fn meta(thorough: bool) -> (String, Value) {
    (
        "choice tree: operator -> accepted operand count (<= 3) -> operand position -> marker expression (channel V or C) with benign operands elsewhere; named scenarios (defaults, collection elements, accumulators, computed vs literal collections); tracer rules: operator -> count -> every operand wrapped in a uniquely marked log; substitution law: eager operator -> operand expressions from E; leaf = one apply() compared with R on value and on log lines (a LEAK line is a violation anywhere); non-trivial = R specifies the outcome; distinct = distinct (rule,data) text".into(),
        json!({"marker_expressions": marker_exprs().len(), "E": exprs(thorough).len(), "eager_operators": 22, "law_operand_counts": "1..3"}),
    )
}

fn wrap_log(x: &Value, marker: &str) -> Value {
    // prints the unique marker, then yields x: traces each evaluation of this operand
    json!({"if": [{"log": marker}, x, "unreachable"]})
}

pub fn run(ctx: &mut Ctx) {
    let d = store();
    let ms = marker_exprs();
    // every operator x position x marker expression
    for k in OPS {
        for n in 1..=3usize {
            if !refmodel::arity_ok(k, n) {
                continue;
            }
            if !ctx.mine() {
                continue;
            }
            for p in 0..n {
                for (name, e) in &ms {
                    ctx.edge();
                    let mut args = benign(k, n);
                    args[p] = e.clone();
                    ctx.check(&format!("position:{}", &name[..1]), &op(k, args), &d);
                    // the same with degenerate neighbours (null, a missing variable, an empty array): operands
                    // of a call that takes an early way out are still rule text, evaluated or not, never returned raw
                    for (fname, fill) in [("null", json!(null)), ("absent", json!({"var": "nope"})), ("empty", json!([]))] {
                        let mut args: Vec<Value> = vec![fill.clone(); n];
                        args[p] = e.clone();
                        ctx.check(&format!("position:{}:neighbours-{}", &name[..1], fname), &op(k, args), &d);
                    }
                }
            }
        }
    }
    // a literal collection whose ITEMS are marker expressions: each item is evaluated once (all / some / none)
    // or not at all (map / filter / reduce: inert), and what an item evaluates to is data, never rule text again
    for (name, e) in &ms {
        if !ctx.mine() {
            continue;
        }
        for coll in [json!([e]), json!([1, e]), json!([e, e])] {
            for p in [json!({"var": ""}), json!({"var": "0"}), json!({"var": "0.0"}), json!({"log": {"var": ""}}), json!(true), json!({"===": [{"var": "0"}, "SECRET"]})] {
                ctx.edge();
                for k in ["all", "some", "none", "map", "filter"] {
                    ctx.check(&format!("literal-collection-of-markers:{}", &name[..1]), &op(k, vec![coll.clone(), p.clone()]), &d);
                }
                ctx.check(&format!("literal-collection-of-markers:{}", &name[..1]), &json!({"reduce": [coll, {"merge": [{"var": "accumulator"}, [{"var": "current"}], [p]]}, []]}), &d);
            }
        }
    }
    // reduce's initial value is evaluated exactly once, whatever the accumulator becomes in the middle of the
    // fold (null, false, 0, "", [] are values like any other); a tracer in the initial-value position
    for x in [json!(null), json!(false), json!(0), json!(""), json!([])] {
        if !ctx.mine() {
            continue;
        }
        let keep = json!({"if": [{"===": [{"var": "current"}, "KEEP"]}, {"var": "accumulator"}, {"var": "current"}]});
        for st in [keep, json!({"and": [{"var": "accumulator"}, {"var": "current"}]}), json!({"or": [{"var": "current"}, {"var": "accumulator"}]})] {
            for coll in [json!([x, "KEEP"]), json!([1, x, "KEEP", 2]), json!([1, x, 2])] {
                ctx.edge();
                ctx.check("reduce:initial-value-once", &json!({"reduce": [{"var": "c"}, st, {"log": "INIT"}]}), &json!({"c": coll}));
                ctx.check("reduce:initial-value-once:var", &json!({"reduce": [{"var": "c"}, st, {"var": "seed"}]}), &json!({"c": coll, "seed": {"var": "s"}, "s": "SECRET"}));
            }
        }
    }
    // named scenarios
    if ctx.mine() {
        let scenarios = vec![
            json!({"var": ["nope", {"var": "m_var"}]}),
            json!({"var": ["a", {"var": "m_err"}]}),
            json!({"var": ["a", {"var": "m_log"}]}),
            json!({"var": ["nope", {"var": "m_log"}]}),
            json!({"var": ["nope", {"var": "m_err"}]}),
            json!({"var": ["nope", {"var": "arr"}]}),
            json!({"var": ["nope", {"var": ["nope2", {"var": "m_var"}]}]}),
            json!({"var": [{"var": "key_op"}]}),
            json!({"var": {"var": "m_var"}}),
            json!({"map": [{"var": "arr"}, {"var": ""}]}),
            json!({"map": [{"var": "arr_mixed"}, {"if": [{"var": ""}, {"var": ""}, "falsy"]}]}),
            json!({"map": [[1, 2], {"var": "m"}]}),
            json!({"filter": [{"var": "arr"}, {"var": ""}]}),
            json!({"filter": [{"var": "arr_err"}, {"var": ""}]}),
            json!({"filter": [{"var": "arr"}, true]}),
            json!({"reduce": [{"var": "arr"}, {"var": "current"}, 0]}),
            json!({"reduce": [{"var": "arr"}, {"var": "accumulator"}, {"var": "m_var"}]}),
            json!({"reduce": [{"var": "arr_mixed"}, {"merge": [{"var": "accumulator"}, {"var": "current"}]}, []]}),
            json!({"reduce": [[1], {"var": "accumulator"}, {"var": "m_log"}]}),
            json!({"all": [{"var": "arr"}, {"var": ""}]}),
            json!({"all": [{"var": "arr_err"}, true]}),
            json!({"all": [{"var": "arr_err"}, {"var": ""}]}),
            json!({"some": [{"var": "arr"}, {"var": ""}]}),
            json!({"some": [{"var": "arr_err"}, {"var": ""}]}),
            json!({"none": [{"var": "arr"}, {"==": [{"var": ""}, "SECRET"]}]}),
            json!({"none": [{"var": "arr_err"}, false]}),
            json!({"some": [{"var": "arr"}, {"==": [{"var": ""}, "SECRET"]}]}),
            json!({"all": [{"merge": [{"var": "arr"}]}, {"var": ""}]}),
            json!({"all": [{"if": [true, {"var": "arr_err"}]}, 1]}),
            json!({"some": [{"var": "arr_mixed"}, {"===": [{"var": ""}, "SECRET"]}]}),
            // literal arrays: the stated exception - elements are rule text
            json!({"all": [[{"var": "one"}, {"var": "s"}], {"var": ""}]}),
            json!({"some": [[{"var": "nope"}, {"var": "one"}], {"var": ""}]}),
            json!({"none": [[{"var": "one"}], {"==": [{"var": ""}, 1]}]}),
            // but what those element expressions *return* is data again
            json!({"all": [[{"var": "m_var"}], {"var": ""}]}),
            json!({"some": [[{"var": "m_err"}], true]}),
            json!({"some": [[{"var": "m_log"}], {"var": ""}]}),
            json!({"if": [{"var": "m_var"}, {"var": "m_err"}, 0]}),
            json!({"if": [0, 1, {"var": "m_log"}]}),
            json!({"and": [{"var": "m_var"}, {"var": "m_log"}]}),
            json!({"or": [{"var": "m_err"}, 1]}),
            json!({"missing": {"var": "arr"}}),
            json!({"missing": [{"var": "key_op"}]}),
            json!({"missing_some": [1, {"var": "arr"}]}),
            json!({"in": [{"var": "m_var"}, {"var": "arr"}]}),
            json!({"in": [{"var": "m_err"}, {"var": "arr_err"}]}),
            json!({"cat": [{"var": "m_var"}, {"var": "arr"}]}),
            json!({"==": [{"var": "m_var"}, "[object Object]"]}),
            json!({"merge": [{"var": "arr"}, {"var": "arr_err"}, {"var": "m_log"}]}),
            json!({"log": {"var": "m_log"}}),
            json!({"!!": [{"var": "m_err"}]}),
            json!({"var": ""}),
            json!({"var": []}),
            json!({"map": [[{"var": "s"}], {"var": ""}]}),
            json!({"map": [[{"var": "s"}], {"var": "var"}]}),
        ];
        for r in &scenarios {
            ctx.edge();
            ctx.check("scenario", r, &d);
        }
        // the whole data is a marker
        for r in [json!({"var": ""}), json!({"if": [{"var": ""}, {"var": ""}]}), json!({"map": [[1], {"var": "zz"}]}), json!({"var": ["zz", {"var": ""}]}), json!({"all": [{"var": ""}, {"var": ""}]})] {
            for whole in [json!({"var": "s"}), json!({"log": "LEAK"}), json!({"+": ["x"]}), json!([{"log": "LEAK"}])] {
                ctx.edge();
                ctx.check("scenario:whole-data-marker", &r, &whole);
            }
        }
    }
    // the collection is the whole data / the current element, spelled in every way
    for whole in [
        json!([{"var": "s"}]), json!([{"log": "LEAK"}]), json!([{"+": ["x"]}]), json!([0, {"log": "LEAK"}, 1]), json!([[{"log": "LEAK"}]]),
        json!({"var": "s"}), json!({"log": "LEAK"}),
    ] {
        if !ctx.mine() {
            continue;
        }
        for coll in [json!({"var": ""}), json!({"var": null}), json!({"var": []}), json!({"var": [""]}), json!({"var": [null]}), json!({"if": [true, {"var": ""}]}), json!({"merge": [{"var": ""}]})] {
            for k in ["all", "some", "none", "map", "filter"] {
                for e in [json!({"var": ""}), json!(true), json!(false), json!({"!": [{"var": ""}]})] {
                    ctx.edge();
                    ctx.check("whole-data-collection", &op(k, vec![coll.clone(), e]), &whole);
                }
            }
            ctx.check("whole-data-collection", &op("reduce", vec![coll.clone(), json!({"var": "current"}), json!(0)]), &whole);
            for k in ["merge", "cat", "!!", "log", "missing", "max"] {
                ctx.check("whole-data-operand", &op(k, vec![coll.clone()]), &whole);
            }
            ctx.check("whole-data-operand", &op("in", vec![json!("x"), coll.clone()]), &whole);
            // one level down: the current element of an outer map is the collection
            for k in ["all", "some", "none", "filter", "map"] {
                let inner = op(k, vec![coll.clone(), json!({"var": ""})]);
                ctx.check("current-element-collection", &json!({"map": [{"var": "groups"}, inner]}), &json!({"groups": [[1], whole, []]}));
            }
        }
    }
    // size probes: a marker at every position class of a long computed collection / operand list
    for n in al::size_classes(ctx.tier_thorough) {
        if n > 300 {
            continue;
        }
        if !ctx.mine() {
            continue;
        }
        for k in [0usize, 1, n / 2, n - 1] {
            for marker in [json!({"log": "LEAK"}), json!({"var": "s"}), json!({"+": ["x"]})] {
                ctx.edge();
                let coll: Vec<Value> = (0..n).map(|i| if i == k { marker.clone() } else { json!(i + 1) }).collect();
                let dd = json!({"coll": coll, "s": "SECRET"});
                for r in [
                    json!({"all": [{"var": "coll"}, true]}), json!({"some": [{"var": "coll"}, false]}), json!({"none": [{"var": "coll"}, {"var": "nope"}]}),
                    json!({"map": [{"var": "coll"}, {"var": ""}]}), json!({"filter": [{"var": "coll"}, true]}),
                    json!({"reduce": [{"var": "coll"}, {"var": "current"}, 0]}), json!({"merge": [{"var": "coll"}, {"var": "coll"}]}),
                    json!({"reduce": [{"var": "coll"}, {"merge": [{"var": "accumulator"}, {"var": "current"}]}, []]}),
                    json!({"reduce": [{"var": "coll"}, {"cat": [{"var": "accumulator"}, {"var": "current"}]}, ""]}),
                    json!({"reduce": [{"var": "coll"}, {"+": [{"var": "accumulator"}, {"var": "current"}]}, 0]}),
                    json!({"reduce": [{"var": "coll"}, {"+": [{"var": "current"}, {"var": "accumulator"}]}, 0]}),
                    json!({"reduce": [{"var": "coll"}, {"max": [{"var": "accumulator"}, {"var": "current"}]}, 0]}),
                    json!({"reduce": [{"var": "coll"}, {"*": [{"var": "accumulator"}, {"var": "current"}]}, 1]}),
                    json!({"reduce": [[1, 2], {"merge": [{"var": "accumulator"}, {"var": "current"}]}, {"var": "coll"}]}),
                    json!({"map": [{"var": "coll"}, {"merge": [{"var": ""}]}]}), json!({"map": [{"var": "coll"}, {"cat": [{"var": ""}]}]}),
                    json!({"filter": [{"var": "coll"}, {"!!": [{"var": ""}]}]}), json!({"some": [{"var": "coll"}, {"===": [{"var": ""}, "SECRET"]}]}),
                    json!({"in": [0, {"var": "coll"}]}), json!({"missing": {"filter": [{"var": "coll"}, {"===": [{"var": ""}, 1]}]}}),
                    json!({"var": format!("coll.{}", k)}), json!({"var": ["nope", {"var": format!("coll.{}", k)}]}),
                ] {
                    ctx.check("size-probe:marker-in-long-collection", &r, &dd);
                }
                // long eager operand lists fed from data
                let args: Vec<Value> = (0..n).map(|i| json!({"var": format!("coll.{}", i)})).collect();
                ctx.check("size-probe:merge-operands", &op("merge", args.clone()), &dd);
                ctx.check("size-probe:cat-operands", &op("cat", args.clone()), &dd);
                ctx.check("size-probe:or-operands", &op("or", args.iter().map(|a| json!({"!": [a]})).collect()), &dd);
            }
        }
    }
    // composition: every operator nested in every operand position of every operator (benign and
    // alternative operand vectors), compared with the single-pass reference
    {
        let alt = |k: &str, n: usize| -> Vec<Value> {
            // a second operand vector per operator: falsy / empty / string-typed where the benign one is truthy / numeric
            let pool = [json!(0), json!(""), json!([]), json!("3"), json!(null), json!([2, 1])];
            let mut v = benign(k, n);
            for (i, x) in v.iter_mut().enumerate() {
                if x.is_number() || x.is_string() {
                    *x = pool[(i + k.len()) % pool.len()].clone();
                }
            }
            v
        };
        let dd = json!({"a": "A", "s": "SECRET", "one": 1, "xs": [1, 2, 3], "m_var": {"var": "s"}});
        for outer in OPS {
            if !ctx.mine() {
                continue;
            }
            for n in 1..=3usize {
                if !refmodel::arity_ok(outer, n) {
                    continue;
                }
                for p in 0..n {
                    for inner in OPS {
                        for m in 0..=3usize {
                            if !refmodel::arity_ok(inner, m) || (m == 0 && !["+", "cat", "merge", "missing", "if", "?:", "var"].contains(&inner)) {
                                continue;
                            }
                            for (ov, iv) in [(benign(outer, n), benign(inner, m)), (alt(outer, n), benign(inner, m)), (benign(outer, n), alt(inner, m))] {
                                ctx.edge();
                                let mut args = ov;
                                args[p] = op(inner, iv);
                                ctx.check("composition", &op(outer, args), &dd);
                            }
                        }
                    }
                }
            }
        }
    }
    // provenance through hard paths: every operand position of every operator fed by every kind of
    // data reference (nested, negative index, escaped dot, integer key, default, computed key, whole data ...)
    for k in OPS {
        for n in 1..=3usize {
            if !refmodel::arity_ok(k, n) {
                continue;
            }
            if !ctx.mine() {
                continue;
            }
            for p in 0..n {
                let base = benign(k, n);
                if al::is_operation_shaped(&base[p]) {
                    continue;
                }
                for payload in [base[p].clone(), json!({"var": "s"}), json!("é水"), json!([2, "x"])] {
                    for (name, fetch, dd) in al::path_fetches(&payload) {
                        ctx.edge();
                        let mut args = base.clone();
                        args[p] = fetch;
                        ctx.check(&format!("fetch-provenance:{}", name), &op(k, args), &dd);
                    }
                }
            }
        }
    }
    // tracer rules
    for k in OPS {
        for n in 0..=4usize {
            if !refmodel::arity_ok(k, n) {
                continue;
            }
            if !ctx.mine() {
                continue;
            }
            let args: Vec<Value> = benign(k, n).iter().enumerate().map(|(i, x)| wrap_log(x, &format!("M{}", i))).collect();
            let dd = json!({"a": 1});
            ctx.edge();
            ctx.check("tracer", &op(k, args.clone()), &dd);
            // the same with a falsy first operand (other branch of the lazy operators)
            if n >= 1 {
                let mut a2 = args.clone();
                a2[0] = wrap_log(&json!(0), "Z0");
                ctx.check("tracer:falsy-first", &op(k, a2), &dd);
            }
        }
    }
    // tracer size probes: long operand lists, every operand printing its own mark exactly once
    for n in al::size_classes(ctx.tier_thorough) {
        if n > 300 {
            continue;
        }
        if !ctx.mine() {
            continue;
        }
        let dd = json!({"a": 1});
        for k in ["cat", "merge", "+", "*", "max", "min", "missing", "and", "or", "if", "?:"] {
            ctx.edge();
            let args: Vec<Value> = (0..n).map(|i| match k {
                "missing" => json!({"log": format!("key{}", i)}),
                "+" | "*" | "max" | "min" => json!({"log": [i % 7 + 1]}),
                "or" => json!({"log": [if i + 1 == n { json!("last") } else { json!(0) }]}),
                _ => json!({"log": format!("M{}", i)}),
            }).collect();
            ctx.check("tracer:size-probe", &op(k, args), &dd);
        }
        // nested: a long eager operand list inside another one
        let inner: Vec<Value> = (0..n).map(|i| json!({"log": format!("I{}", i)})).collect();
        ctx.check("tracer:size-probe:nested", &json!({"cat": [{"log": "before"}, {"merge": inner}, {"log": "after"}]}), &dd);
    }
    // substitution law at size: a long operand written in the rule and the same value read from the
    // data give the same answer, whatever the spelling of the numbers in it
    for n in al::size_classes(ctx.tier_thorough) {
        if !ctx.mine() {
            continue;
        }
        let nn = n as i64;
        let long_i: Vec<Value> = (1..=nn).map(|i| json!(i)).collect();
        let long_f: Vec<Value> = (1..=nn).map(|i| json!(i as f64)).collect();
        let long_s: Vec<Value> = (1..=nn).map(|i| json!(format!("k{}", i))).collect();
        let long_m: Vec<Value> = (1..=nn).map(|i| match i % 4 { 0 => json!(i), 1 => json!(i as f64), 2 => json!(i.to_string()), _ => json!([i]) }).collect();
        let needles = [json!(2), json!(2.0), json!("2"), json!(nn), json!(nn as f64), json!(nn + 1), json!([3]), json!([3.0]), json!("k2"), json!(null)];
        let mut cases: Vec<(&str, Vec<Value>)> = Vec::new();
        for long in [&long_i, &long_f, &long_s, &long_m] {
            let l = Value::Array(long.clone());
            for nd in &needles {
                cases.push(("in", vec![nd.clone(), l.clone()]));
                cases.push(("merge", vec![l.clone(), nd.clone()]));
            }
            cases.push(("cat", vec![l.clone(), json!("|")]));
            cases.push(("==", vec![l.clone(), l.clone()]));
            cases.push(("==", vec![l.clone(), Value::Array(long_i.clone())]));
            cases.push(("<", vec![Value::Array(long_i.clone()), l.clone()]));
            cases.push(("missing", vec![l.clone()]));
            cases.push(("missing_some", vec![json!(2), l.clone()]));
            cases.push(("max", long.clone()));
            cases.push(("min", long.clone()));
            cases.push(("+", long.clone()));
            cases.push(("cat", long.clone()));
            cases.push(("merge", long.clone()));
        }
        for (k, args) in cases {
            ctx.edge();
            if args.iter().any(al::is_operation_shaped) {
                continue;
            }
            let lhs_rule = op(k, args.clone());
            let dd = Value::Array(args.clone());
            let lhs = ctx.check("law:substitution:size-probe:L", &lhs_rule, &dd);
            let rhs_rule = op(k, (0..args.len()).map(|i| json!({"var": i})).collect());
            let rhs = ctx.check("law:substitution:size-probe:V", &rhs_rule, &dd);
            let same = match (lhs.ok(), rhs.ok()) {
                (Some(a), Some(b)) => a == b,
                (None, None) => lhs.is_err() && rhs.is_err(),
                _ => false,
            };
            if !same {
                ctx.law_fail("law:substitution", &lhs_rule, &dd, format!("same as {}: {}", rhs_rule, rhs.show()), lhs.show());
            }
        }
    }
    // substitution law
    let es = exprs(ctx.tier_thorough);
    let evald: Vec<crate::exec::Obs> = es.iter().map(|e| ctx.exec(e, &d)).collect();
    for k in EAGER {
        for n in 1..=3usize {
            // counts the operator does not accept are part of the law as well (both sides are errors), up to two
            // operands: an operand list is not re-shaped by what the operands are (literal arrays, arrays of arrays)
            if !refmodel::arity_ok(k, n) && n > 2 {
                continue;
            }
            for idx in al::tuples(&(0..es.len()).map(|i| json!(i)).collect::<Vec<_>>(), n) {
                if !ctx.mine() {
                    continue;
                }
                let ids: Vec<usize> = idx.iter().map(|v| v.as_u64().unwrap() as usize).collect();
                let args: Vec<Value> = ids.iter().map(|&i| es[i].clone()).collect();
                let lhs_rule = op(k, args);
                let lhs = ctx.exec(&lhs_rule, &d);
                ctx.record("law:substitution", &lhs_rule, &d, &lhs, None);
                if ids.iter().any(|&i| evald[i].ok().is_none()) {
                    // an operand that errors makes the operator error
                    if ids.iter().any(|&i| evald[i].is_err()) && !lhs.is_err() {
                        ctx.law_fail("law:substitution", &lhs_rule, &d, "Err (an operand errors)".into(), lhs.show());
                    }
                    continue;
                }
                let pre: Vec<Value> = ids.iter().map(|&i| evald[i].ok().unwrap().clone()).collect();
                let rhs_rule = op(k, (0..n).map(|i| json!({"var": i})).collect());
                let rhs_data = Value::Array(pre);
                let rhs = ctx.exec(&rhs_rule, &rhs_data);
                let same = match (lhs.ok(), rhs.ok()) {
                    (Some(a), Some(b)) => a == b,
                    (None, None) => lhs.is_err() && rhs.is_err(),
                    _ => false,
                };
                if !same {
                    ctx.law_fail("law:substitution", &lhs_rule, &d, format!("same as {} on {}: {}", rhs_rule, rhs_data, rhs.show()), lhs.show());
                }
            }
        }
    }
    crate::spaces::depth_probes(ctx);
    crate::spaces::nested_iteration_probes(ctx);
    crate::spaces::sweep::length_sweep(ctx);
}
