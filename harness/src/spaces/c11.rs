//! C11 - var resolves paths through objects, arrays and strings; absent means default.
//!
//! Space: (a) every data tree of a bounded grammar x every path of 1..3 segments;
//! (b) key operand kinds (integers incl. 64-bit extremes on arrays / strings / objects, null,
//! "", no operand, computed keys); (c) defaults through literal and var channels with the key
//! present-and-null / present-and-falsy / absent; (d) the frame law: changing any part of the
//! data that the path does not name never changes the result.
//! Oracle: R's lookup (Appendix A.8) + the frame law (oracle-free).

use crate::alphabet::{self as al, op};
use crate::ctx::Ctx;
use serde_json::{json, Map, Value};

pub fn leaves(thorough: bool) -> Vec<Value> {
    let mut v = vec![json!(null), json!(0), json!("hé😀")];
    if thorough {
        v.push(json!({"var": "a"}));
    }
    v
}
pub fn tree_keys(thorough: bool) -> Vec<&'static str> {
    if thorough {
        vec!["a", "1", "a.b", "-1"]
    } else {
        vec!["a", "1", "a.b"]
    }
}

/// All trees of depth <= d: leaves, arrays of length 0..2, objects with 0..2 keys.
pub fn trees(d: usize, thorough: bool) -> Vec<Value> {
    let lv = leaves(thorough);
    if d == 0 {
        return lv;
    }
    let sub = trees(d - 1, thorough);
    let keys = tree_keys(thorough);
    let mut out = lv;
    out.push(json!([]));
    for x in &sub {
        out.push(json!([x]));
    }
    for x in &sub {
        for y in &sub {
            out.push(json!([x, y]));
        }
    }
    out.push(json!({}));
    for k in &keys {
        for x in &sub {
            let mut m = Map::new();
            m.insert(k.to_string(), x.clone());
            out.push(Value::Object(m));
        }
    }
    for i in 0..keys.len() {
        for j in (i + 1)..keys.len() {
            for x in &sub {
                for y in &sub {
                    let mut m = Map::new();
                    m.insert(keys[i].to_string(), x.clone());
                    m.insert(keys[j].to_string(), y.clone());
                    out.push(Value::Object(m));
                }
            }
        }
    }
    out
}

pub fn seg1() -> Vec<&'static str> {
    vec!["a", "1", "a\\.b", "0", "-1", "-2", "2", "b", "é", "-3", "3", "a\\b", "\\a", "1\\.0", " 1", "1.0e0", "１"]
}
pub fn seg2() -> Vec<&'static str> {
    vec!["a", "1", "a\\.b", "0", "-1", "-2", "2", "b"]
}
pub fn seg3(thorough: bool) -> Vec<&'static str> {
    if thorough {
        vec!["a", "1", "a\\.b", "0", "-1", "-2", "2"]
    } else {
        vec!["a", "1", "a\\.b", "0", "-1"]
    }
}
/// spellings whose meaning the property does not pin (totality only)
pub fn unspecified_paths() -> Vec<&'static str> {
    vec!["+1", "01", "-0", "-01", "a..b", ".a", "a.", ".", "..", "a\\", "\\", "a.+1", "a.01", "1.-0"]
}

pub fn paths(thorough: bool) -> Vec<String> {
    let mut p: Vec<String> = seg1().iter().map(|s| s.to_string()).collect();
    for a in seg2() {
        for b in seg2() {
            p.push(format!("{}.{}", a, b));
        }
    }
    let s3 = seg3(thorough);
    for a in &s3 {
        for b in &s3 {
            for c in &s3 {
                p.push(format!("{}.{}.{}", a, b, c));
            }
        }
    }
    p.extend(unspecified_paths().iter().map(|s| s.to_string()));
    p
}

pub fn meta(thorough: bool) -> (String, Value) {
    (
        "choice tree: data tree (bounded grammar: leaves, arrays len 0..2, objects with 0..2 keys, depth <= 2) -> path (1..3 segments incl. escaped dots, negative and out-of-range indices, non-canonical spellings) ; key-operand kinds x small data ; default value x channel x presence class ; frame-law variants; leaf = one apply() compared with R's lookup; non-trivial = R specifies the outcome; distinct = distinct (rule,data) text".into(),
        json!({"trees_depth2": trees(2, thorough).len(), "paths": paths(thorough).len(), "tree_keys": tree_keys(thorough), "leaves": leaves(thorough)}),
    )
}

fn var(k: Value) -> Value {
    al::obj1("var", k)
}

/// Replace everything the first path step does not select (frame law).
fn perturb_top(data: &Value, first: &str) -> Vec<Value> {
    let mut out = Vec::new();
    match data {
        Value::Object(m) => {
            let mut n = Map::new();
            for (k, v) in m {
                if k == first {
                    n.insert(k.clone(), v.clone());
                } else {
                    n.insert(k.clone(), json!("CHANGED"));
                }
            }
            if first != "zz" {
                n.insert("zz".into(), json!("ADDED"));
            }
            out.push(Value::Object(n));
        }
        Value::Array(a) => {
            if let Ok(i) = first.parse::<i64>() {
                let n = a.len() as i64;
                let j = if i >= 0 { i } else { n + i };
                let b: Vec<Value> = a.iter().enumerate().map(|(x, v)| if x as i64 == j { v.clone() } else { json!("CHANGED") }).collect();
                out.push(Value::Array(b));
            }
        }
        _ => {}
    }
    out
}

pub fn run(ctx: &mut Ctx) {
    let thorough = ctx.tier_thorough;
    // the debug profile gets the smaller tree set (it is there for overflow checks)
    let depth = if ctx.profile != "dev" { 2 } else { 1 };
    let ts = trees(depth, thorough);
    let ps = paths(thorough);
    let mut unspecified_set: std::collections::HashSet<&str> = std::collections::HashSet::new();
    for u in unspecified_paths() {
        unspecified_set.insert(u);
    }
    // (a) trees x paths, with the frame law on the first step
    for t in &ts {
        if !ctx.mine() {
            continue;
        }
        for p in &ps {
            ctx.edge();
            let rule = var(json!(p));
            let o = ctx.check("path", &rule, t);
            if unspecified_set.contains(p.as_str()) {
                continue;
            }
            if let Some(segs) = crate::refmodel::split_path(p) {
                for t2 in perturb_top(t, &segs[0]) {
                    let o2 = ctx.exec(&rule, &t2);
                    if o2.ok() != o.ok() || o2.is_err() != o.is_err() {
                        ctx.law_fail("law:frame", &rule, &t2, format!("same as on {}: {}", t, o.show()), o2.show());
                    }
                }
            }
        }
        // whole-data forms
        for r in [json!({"var": []}), json!({"var": ""}), json!({"var": null}), json!({"var": [null]}), json!({"var": [""]}), json!({"var": ["", "dflt"]}), json!({"var": [null, "dflt"]})] {
            ctx.edge();
            ctx.check("whole-data", &r, t);
        }
    }
    // size probes: deep paths, long arrays and strings indexed at every position class
    for n in al::size_classes(thorough) {
        if !ctx.mine() {
            continue;
        }
        // a chain object/array/object... n levels deep, leaf marked
        let mut deep = json!("LEAF");
        let mut segs: Vec<String> = Vec::new();
        for i in (0..n.min(120)).rev() {
            if i % 2 == 0 {
                deep = json!({ "k": deep, "other": i });
                segs.push("k".into());
            } else {
                deep = json!(["pad", deep]);
                segs.push(if i % 4 == 1 { "1".into() } else { "-1".into() });
            }
        }
        segs.reverse();
        // segs were pushed leaf-first for reversed construction; rebuild in root-first order
        let mut path_segs: Vec<String> = Vec::new();
        for i in 0..n.min(120) {
            path_segs.push(if i % 2 == 0 { "k".into() } else if i % 4 == 1 { "1".into() } else { "-1".into() });
        }
        for cut in [path_segs.len(), path_segs.len().saturating_sub(1), path_segs.len() / 2] {
            ctx.edge();
            let pth = path_segs[..cut].join(".");
            ctx.check("path:size-probe", &var(json!(pth)), &deep);
            ctx.check("path:size-probe:default", &var(json!([format!("{}.nope", pth), "dflt"])), &deep);
        }
        // long array / string, index classes around the ends
        let arr: Vec<Value> = (0..n).map(|i| json!(format!("e{}", i))).collect();
        let st: String = (0..n).map(|i| ['a', 'é', '水', '😀'][i % 4]).collect();
        let nn = n as i64;
        for i in [0i64, 1, nn / 2, nn - 2, nn - 1, nn, nn + 1, -1, -2, -nn + 1, -nn, -nn - 1, -nn - 2] {
            ctx.edge();
            ctx.check("index:size-probe:array", &var(json!(i)), &Value::Array(arr.clone()));
            ctx.check("index:size-probe:array:path", &var(json!(format!("w.{}", i))), &json!({"w": arr}));
            ctx.check("index:size-probe:string", &var(json!(i)), &json!(st));
            ctx.check("index:size-probe:string:path", &var(json!(format!("w.{}", i))), &json!({"w": st}));
        }
        // object with many keys (incl. numeric-looking ones)
        let mut m = Map::new();
        for i in 0..n {
            m.insert(format!("{}", i), json!(i));
            m.insert(format!("k{}", i), json!({"in": i}));
        }
        let obj = Value::Object(m);
        for k in [json!(0), json!(n as i64 - 1), json!(n as i64), json!(format!("k{}.in", n - 1)), json!(format!("k{}.in", n)), json!(format!("{}", n / 2))] {
            ctx.edge();
            ctx.check("key:size-probe:object", &var(k), &obj);
        }
    }
    // long keys and long path segments (small-string / hashing thresholds), with escapes and non-ASCII
    for n in al::size_classes(thorough) {
        if !ctx.mine() {
            continue;
        }
        for unit in ["k", "é", "a\\.b", "7"] {
            let seg: String = unit.repeat(n);
            let raw = match crate::refmodel::split_path(&seg) {
                Some(v) if v.len() == 1 => v[0].clone(),
                _ => continue,
            };
            let almost: String = { let mut c: Vec<char> = raw.chars().collect(); let l = c.len(); c[l - 1] = 'X'; c.into_iter().collect() };
            let data = json!({ raw.clone(): {"in": [10, 20]}, almost.clone(): "almost", "short": { raw.clone(): "nested" } });
            for pth in [seg.clone(), format!("{}.in.1", seg), format!("short.{}", seg), format!("{}.in.-1", seg), format!("{}X", seg), format!("short.{}.x", seg)] {
                ctx.edge();
                ctx.check("path:long-key", &var(json!(pth)), &data);
                ctx.check("path:long-key:default", &var(json!([pth, "dflt"])), &data);
            }
        }
    }
    // prefix twins: keys of equal length sharing their first 8 / 16 / 32 / 64 characters, looked up
    // one after the other inside one rule
    for n in [4usize, 8, 15, 16, 17, 31, 32, 33, 64, 65] {
        if !ctx.mine() {
            continue;
        }
        let stem: String = (0..n).map(|i| char::from(b'a' + (i % 26) as u8)).collect();
        let (k1, k2, k3) = (format!("{}1", stem), format!("{}2", stem), format!("{}3", stem));
        let dotted = |k: &str| format!("grp.{}", k);
        let data = json!({ k1.clone(): "one", k2.clone(): "two", "grp": { k1.clone(): "g-one", k2.clone(): "g-two" } });
        for r in [
            json!({"cat": [{"var": k1}, "|", {"var": k2}, "|", {"var": k3}, "|", {"var": k1}]}),
            json!({"cat": [{"var": dotted(&k2)}, "|", {"var": dotted(&k1)}, "|", {"var": [dotted(&k3), "dflt"]}]}),
            json!({"missing": [k1, k3, k2, dotted(&k3), dotted(&k1)]}),
            json!({"if": [{"var": k3}, "t", {"var": k2}]}),
        ] {
            ctx.edge();
            ctx.check("path:prefix-twins", &r, &data);
        }
    }
    // characters that other path syntaxes treat as separators or escapes (JSON pointer, JSONPath,
    // jq, URL encoding ...) are ordinary key characters here: flat member vs nested look-alike
    for c in ["/", "~", "~0", "~1", "$", "[", "]", "[0]", "*", "#", "%", "%2E", ":", "@", "'", "\"", " ", "|", ",", ";", "=", "&", "?", "!", "^", "(", ")", "{", "}", "<", ">", "+", "-", "_", "\\.", "\\\\"] {
        if !ctx.mine() {
            continue;
        }
        // the key as a path segment: dot and backslash are written escaped
        let seg = format!("a{}b", c);
        let raw_key: String = match crate::refmodel::split_path(&seg) {
            Some(v) if v.len() == 1 => v[0].clone(),
            _ => continue,
        };
        let inner_key = raw_key.trim_start_matches('a').to_string();
        for data in [
            json!({ raw_key.clone(): "flat", "a": { "b": "nested", inner_key.clone(): "n2" }, "b": 1 }),
            json!({ "a": { "b": "nested", inner_key.clone(): "n2" }, "b": 1 }),
            json!({ raw_key.clone(): null, "a": { "b": "nested" } }),
            json!({ "w": [{ raw_key.clone(): "in-array", "a": ["x", "y"] }], "a": { "b": ["p", "q"] } }),
            json!([{ raw_key.clone(): 0 }]),
        ] {
            for pth in [seg.clone(), format!("a.{}", seg), format!("w.0.{}", seg), format!("0.{}", seg), format!("{}.b", seg), format!("a.{}b", c)] {
                ctx.edge();
                ctx.check("path:separator-like-characters", &var(json!(pth)), &data);
                ctx.check("path:separator-like-characters:default", &var(json!([pth, "dflt"])), &data);
            }
        }
    }
    // an escape character before every class of character (a needless escape just yields the character):
    // ASCII letter, digit, 2-, 3-, 4-byte letters, combining mark, space, the separator, the escape itself
    for x in ["a", "0", "é", "水", "😀", "\u{301}", " ", "-", ".", "\\"] {
        if !ctx.mine() {
            continue;
        }
        let data = json!({
            x: "plain", format!("a{}", x): "a+x", format!("{}b", x): "x+b", format!("{}{}", x, x): "xx", format!("\\{}", x): "with-backslash",
            "a": { x: "nested", "b": "ab" }, "b": [x],
        });
        for pth in [format!("\\{}", x), format!("a\\{}", x), format!("\\{}b", x), format!("a.\\{}", x), format!("\\{}\\{}", x, x), format!("\\{}.b", x), format!("b.0\\{}", x), format!("\\a\\{}", x)] {
            ctx.edge();
            ctx.check("path:escape-before", &var(json!(pth)), &data);
            ctx.check("path:escape-before:default", &var(json!([pth, "dflt"])), &data);
            ctx.check("path:escape-before:missing", &json!({"missing": [pth]}), &data);
        }
    }
    // numeric-looking segments padded with zeros to every length class (an index is an index however it is
    // spelled as long as it parses; an object key is only its exact text), signs included
    for pad in [1usize, 2, 17, 18, 19, 20, 21, 25, 40] {
        if !ctx.mine() {
            continue;
        }
        for (sign, idx) in [("", 1i64), ("-", 1), ("+", 1), ("", 0), ("-", 0), ("", 2)] {
            let seg = format!("{}{}{}", sign, "0".repeat(pad), idx);
            for data in [json!({"l": ["x", "y", "z"], "s": "héllo", "o": {seg.clone(): "exact", idx.to_string(): "canonical"}}), json!(["p", "q"]), json!("añb")] {
                ctx.edge();
                for pth in [format!("l.{}", seg), format!("s.{}", seg), format!("o.{}", seg), seg.clone()] {
                    ctx.check("path:zero-padded-index", &var(json!(pth)), &data);
                    ctx.check("path:zero-padded-index:default", &var(json!([pth, "dflt"])), &data);
                    ctx.check("path:zero-padded-index:missing", &json!({"missing": [pth]}), &data);
                }
            }
        }
    }
    // capacity probes: n distinct dotted paths in one rule, then the first ones again (whatever is remembered
    // per path must still be right after any number of other paths)
    for n in al::size_classes(ctx.tier_thorough) {
        if !ctx.mine() {
            continue;
        }
        let mut m = serde_json::Map::new();
        for i in 0..n {
            m.insert(format!("k{}", i), json!({"v": i, "w": [i]}));
        }
        let data = Value::Object(m);
        let mut lookups: Vec<Value> = (0..n).map(|i| json!({"var": format!("k{}.v", i)})).collect();
        lookups.extend((0..n.min(4)).map(|i| json!({"var": format!("k{}.v", i)})));
        lookups.extend((0..n.min(4)).map(|i| json!({"var": format!("k{}.w.0", n - 1 - i)})));
        ctx.edge();
        ctx.check("capacity:dotted-paths:merge", &json!({"merge": lookups}), &data);
        ctx.check("capacity:dotted-paths:cat", &json!({"cat": lookups}), &data);
        let keys: Vec<Value> = (0..n).map(|i| json!(format!("k{}.v", i))).chain((0..n.min(4)).map(|i| json!(format!("k{}.zz", i)))).chain((0..n.min(4)).map(|i| json!(format!("k{}.v", i)))).collect();
        ctx.check("capacity:dotted-paths:missing", &json!({"missing": keys}), &data);
        // the same spread over the elements of a map (one lookup per element, each a different path)
        let rows: Vec<Value> = (0..n).map(|i| json!({format!("a{}", i): {"b": i}})).collect();
        let body = json!({"var": [{"cat": ["a", {"var": "i"}, ".b"]}]});
        let rows2: Vec<Value> = rows.iter().enumerate().map(|(i, r)| { let mut r = r.clone(); r["i"] = json!(i); r }).collect();
        ctx.check("capacity:dotted-paths:map-computed-key", &json!({"map": [{"var": "rows"}, body]}), &json!({"rows": rows2}));
    }
    // (b) key operand kinds
    let mut ints: Vec<Value> = al::ints_small().into_iter().map(|i| json!(i)).collect();
    ints.extend(al::ints_extreme());
    ints.extend([json!(1.0), json!(1.5), json!(-0.0), json!(true), json!([0]), json!({}), json!({"a": 1})]);
    let mut datas: Vec<Value> = vec![
        json!([]), json!(["x"]), json!(["x", "y"]), json!(["x", "y", "z"]), json!([null, 0, ""]),
        json!({"0": "zero", "1": "one", "-1": "neg", "10": "ten", "-9223372036854775808": "min", "9223372036854775807": "max"}),
        json!({}), json!(7), json!(null), json!(true),
    ];
    for s in al::s_uni(3) {
        datas.push(Value::String(s));
    }
    for s in al::s_uni_extra() {
        datas.push(Value::String(s));
    }
    for d in &datas {
        if !ctx.mine() {
            continue;
        }
        for k in &ints {
            ctx.edge();
            if !al::is_operation_shaped(k) {
                ctx.check("key:L", &var(json!([k])), d);
                if !k.is_array() {
                    ctx.check("key:U", &var(k.clone()), d);
                }
            }
            // computed key
            ctx.check("key:V", &var(json!([{"var": "k"}])), &json!({"k": k, "0": "zero", "1": "one", "-1": "neg"}));
            ctx.check("key:C", &json!({"map": [[d], {"var": [{"var": ["no", k]}]}]}), &json!(null));
            // string index spelled as a path segment
            if let Some(i) = k.as_i64() {
                ctx.check("key:str-index", &var(json!(i.to_string())), d);
                ctx.check("key:nested-index", &var(json!(format!("w.{}", i))), &json!({"w": d}));
            }
        }
    }
    // computed string keys
    if ctx.mine() {
        let d = json!({"a": {"b": [10, 20, {"c": "deep"}]}, "k": "a.b", "i": 2, "a.b": "dotted", "ab": "cat"});
        for r in [
            json!({"var": {"cat": ["a", ".", "b"]}}),
            json!({"var": [{"cat": ["a", ".b.", {"var": "i"}, ".c"]}]}),
            json!({"var": [{"var": "k"}]}),
            json!({"var": {"var": "k"}}),
            json!({"var": [{"cat": ["a", "b"]}]}),
            json!({"var": [{"cat": ["a\\", ".b"]}]}),
            json!({"var": [{"if": [true, "a.b.-1.c", "x"]}]}),
            json!({"var": [{"var": "missing"}]}),
            json!({"var": [{"var": "missing"}, "d"]}),
            json!({"var": [{"+": ["x"]}]}),
        ] {
            ctx.edge();
            ctx.check("key:computed-string", &r, &d);
        }
    }
    // (c) defaults
    let dvals = al::v1();
    let presence: Vec<(&str, Value)> = vec![
        ("present-null", json!({"a": null, "dv": 0})),
        ("present-false", json!({"a": false})),
        ("present-zero", json!({"a": 0})),
        ("present-empty", json!({"a": ""})),
        ("present-empty-array", json!({"a": []})),
        ("present-value", json!({"a": {"x": 1}})),
        ("absent", json!({"b": 1})),
        ("absent-scalar-data", json!(5)),
        ("absent-null-data", json!(null)),
        ("absent-array-data", json!([1])),
    ];
    for dv in &dvals {
        if !ctx.mine() {
            continue;
        }
        for (name, data) in &presence {
            ctx.edge();
            if !al::is_operation_shaped(dv) {
                ctx.check(&format!("default:L:{}", name), &var(json!(["a", dv])), data);
                ctx.check(&format!("default:L:deep:{}", name), &var(json!(["a.x.y", dv])), data);
                ctx.check(&format!("default:L:index:{}", name), &var(json!([3, dv])), data);
            }
            // default through var: the default value itself is read from the data
            let mut d2 = data.clone();
            if let Value::Object(m) = &mut d2 {
                m.insert("dflt".into(), dv.clone());
                ctx.check(&format!("default:V:{}", name), &var(json!(["a", {"var": "dflt"}])), &d2);
            }
        }
    }
    // straddle strings indexed at, before and after the straddling character
    for (st, ci) in al::straddle_strings() {
        if !ctx.mine() {
            continue;
        }
        let n = st.chars().count() as i64;
        let ci = ci as i64;
        let d = json!({"s": st, "l": [st]});
        for i in [ci - 1, ci, ci + 1, ci - n, n - 1, n, -n, -n - 1] {
            ctx.edge();
            ctx.check("path:straddle", &var(json!(format!("s.{}", i))), &d);
            ctx.check("path:straddle:nested", &var(json!([format!("l.0.{}", i), "dflt"])), &d);
            ctx.check("path:straddle:missing", &json!({"missing": [format!("s.{}", i)]}), &d);
        }
        ctx.check("path:straddle:int-key", &var(json!(ci)), &json!(st));
    }
    // paths far longer than any data is deep that still resolve: a character of a string is a string, whose
    // character 0 (and -1) is itself, any number of times
    for n in al::size_classes(ctx.tier_thorough) {
        if !ctx.mine() {
            continue;
        }
        let d = json!({"a": "xyz", "l": ["pq"]});
        for step in ["0", "-1"] {
            ctx.edge();
            let tail = vec![step; n].join(".");
            ctx.check("path:char-of-char", &var(json!(format!("a.1.{}", tail))), &d);
            ctx.check("path:char-of-char:default", &var(json!([format!("l.0.1.{}", tail), "dflt"])), &d);
            ctx.check("path:char-of-char:absent", &var(json!([format!("a.1.{}.1", tail), "dflt"])), &d);
            ctx.check("path:char-of-char:missing", &json!({"missing": [format!("a.1.{}", tail), format!("a.1.{}.2", tail)]}), &d);
        }
    }
    crate::spaces::render_probes(ctx, &["var"]);
    crate::spaces::width_probes(ctx);
    crate::spaces::sweep::length_sweep(ctx);
    crate::spaces::type_grid_probes(ctx, &["var"]);
    crate::spaces::depth_probes(ctx);
}
