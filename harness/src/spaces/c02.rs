//! C02 - only single-key objects keyed by an operator name are rules; the rest is literal.
//!
//! Space: literals (primitives, arrays and objects containing operation-shaped values, {},
//! multi-key objects pairing each of the 35 names with a key sorting before / after it,
//! single-key objects over ~14 near-miss spellings of each name and over all strings of
//! length <= 2 from the operator character set) x 6 data, at the top level and in operand
//! position; and for each of the 35 names a distinguishing operand vector.
//! Oracle: apply(v, d) == Ok(v) exactly (number spelling preserved) with no log line;
//! for the names: result == R and the rule is not returned as a literal.

use crate::alphabet::{self as al, op};
use crate::ctx::Ctx;
use crate::refmodel::{self, OPS};
use serde_json::{json, Map, Value};

pub fn datas() -> Vec<Value> {
    vec![json!(null), json!({}), json!({"a": 1, "s": "SECRET", "x": 5, "0": "zero"}), json!([1, 2]), json!("str"), json!({"var": "a"})]
}

fn fullwidth(s: &str) -> String {
    s.chars()
        .map(|c| {
            let u = c as u32;
            if (0x21..=0x7e).contains(&u) {
                char::from_u32(u - 0x21 + 0xff01).unwrap()
            } else {
                c
            }
        })
        .collect()
}

pub fn near_misses(name: &str) -> Vec<String> {
    let first: String = name.chars().take(1).collect();
    let mut v = vec![
        format!("x{}", name),
        format!("{}x", name),
        format!("{}{}", first, name),
        name.to_uppercase(),
        format!(" {}", name),
        format!("{} ", name),
        format!("{}\n", name),
        format!("\t{}", name),
        fullwidth(name),
        format!("{}\u{0}", name),
        format!("_{}", name),
        format!("{}=", name),
        format!("{}{}", name, name),
    ];
    let mut cap: Vec<char> = name.chars().collect();
    if let Some(c) = cap.first_mut() {
        *c = c.to_ascii_uppercase();
    }
    v.push(cap.into_iter().collect());
    let n = name.chars().count();
    if n > 1 {
        v.push(name.chars().take(n - 1).collect());
        v.push(name.chars().skip(1).collect());
    }
    // every proper prefix, every one-character extension over the operator character set, and the
    // name padded to the lengths at which string comparisons change strategy
    let chars: Vec<char> = name.chars().collect();
    for i in 1..chars.len() {
        v.push(chars[..i].iter().collect());
    }
    for c in op_charset() {
        v.push(format!("{}{}", name, c));
        v.push(format!("{}{}", c, name));
    }
    // truncation twins: the same name with every character moved to a code point that is equal modulo 2^8
    // (Latin Extended-A, CJK, emoji planes) or modulo 2^16 (supplementary plane), and one character only moved
    for delta in [0x100u32, 0x4e00, 0x1f600, 0x10000, 0x20000] {
        let moved: Option<String> = chars.iter().map(|c| char::from_u32(*c as u32 + delta)).collect();
        if let Some(m) = moved {
            v.push(m);
        }
        if chars.len() > 1 {
            if let Some(c0) = char::from_u32(chars[0] as u32 + delta) {
                v.push(std::iter::once(c0).chain(chars[1..].iter().cloned()).collect());
            }
        }
    }
    for pad in [8usize, 15, 16, 17, 31, 32, 33, 64] {
        if pad > chars.len() {
            v.push(format!("{}{}", name, " ".repeat(pad - chars.len())));
            v.push(format!("{}{}", name, "_".repeat(pad - chars.len())));
            v.push(format!("{}{}", name, "\u{0}".repeat(pad - chars.len())));
        }
    }
    // characters that packing, trimming or C-string handling lose: NUL and other controls, BOM, sigils - in
    // front of the name (one to three of them), behind it, and the name right-aligned in a padded field
    for c in ["\u{0}", "\u{1}", "\u{7f}", "\u{80}", "\u{feff}", "\u{200b}", "$", "@", "#", ".", "!", "-", "\\", "\"", "/"] {
        for rep in 1..=3usize {
            v.push(format!("{}{}", c.repeat(rep), name));
        }
        v.push(format!("{}{}", name, c));
        v.push(format!("{}{}{}", c, name, c));
    }
    for pad in [8usize, 12, 16, 32] {
        if pad > chars.len() {
            v.push(format!("{}{}", "\u{0}".repeat(pad - chars.len()), name));
            v.push(format!("{}{}", " ".repeat(pad - chars.len()), name));
        }
    }
    v.retain(|k| !refmodel::is_op(k));
    v.sort();
    v.dedup();
    v
}

pub fn op_charset() -> Vec<char> {
    let mut cs: Vec<char> = OPS.iter().flat_map(|s| s.chars()).collect();
    cs.sort();
    cs.dedup();
    cs
}

/// operands whose evaluation would be visible (a log line, a data lookup, an error)
fn loud_args() -> Value {
    json!([{"log": "LEAK"}, {"var": "s"}])
}

pub fn literals() -> Vec<Value> {
    let mut v = al::v1_plain();
    v.extend(al::numbers());
    v.extend(al::s_uni_sample());
    v.extend(al::s_num().into_iter().take(20));
    // containers holding operation-shaped values at depth 1-2
    for m in al::markers() {
        v.push(json!([m]));
        v.push(json!([1, [m]]));
        v.push(json!({"k": m}));
        v.push(json!({"k": [m], "j": 2}));
        v.push(json!([{"k": m}]));
        // multi-key object whose first key is an operator
        v.push(json!({"var": "s", "zz": m}));
    }
    v.push(json!({"if": [true, {"log": "LEAK"}], "zz": 1}));
    v.push(json!([{"log": "LEAK"}, {"var": "s"}]));
    v.push(json!({"": 1}));
    v.push(json!({"": {"log": "LEAK"}}));
    // strings that spell rules, arrays, objects: a string is a string
    v.extend(al::stringified());
    al::dedup(v)
}

pub fn meta(_thorough: bool) -> (String, Value) {
    (
        "choice tree: literal kind (corpus value / container with operation-shaped content / multi-key object k+k2 / near-miss key / short key over the operator character set) -> data -> position (top level, operand of if, element of a merge operand); leaf = one apply() that must return the value unchanged and print nothing; dispatch side: each of the 35 names with a distinguishing operand vector compared with R; non-trivial = every leaf (R always specifies a literal); distinct = distinct (rule,data) text".into(),
        json!({"literals": literals().len(), "operator_names": 35, "near_miss_transforms": 16, "short_keys": op_charset().len() * (op_charset().len() + 1), "datas": datas().len()}),
    )
}

fn must_be_literal(ctx: &mut Ctx, sub: &str, v: &Value, d: &Value) {
    ctx.edge();
    let o = ctx.check(sub, v, d);
    // oracle-free restatement: the value comes back exactly, spelled the same, nothing printed
    match o.ok() {
        Some(got) if got == v && got.to_string() == v.to_string() && o.log.is_empty() => {}
        _ => ctx.law_fail("law:literal-identity", v, d, format!("Ok({}) and no output", v), o.show()),
    }
    // in operand position the literal is equally inert
    if !al::is_operation_shaped(v) {
        let r = json!({"if": [v]});
        let o = ctx.check(&format!("{}:operand", sub), &r, d);
        if o.ok() != Some(v) || !o.log.is_empty() {
            ctx.law_fail("law:literal-identity-operand", &r, d, format!("Ok({})", v), o.show());
        }
        let r = json!({"merge": [[v]]});
        ctx.check(&format!("{}:in-array-operand", sub), &r, d);
    }
}

pub fn run(ctx: &mut Ctx) {
    let ds = datas();
    for v in literals() {
        if !ctx.mine() {
            continue;
        }
        for d in &ds {
            must_be_literal(ctx, "literal", &v, d);
        }
    }
    for name in OPS {
        if !ctx.mine() {
            continue;
        }
        // multi-key objects: the operator name sorts first / last among the keys; companions that other JSON
        // dialects treat as annotations or metadata are keys like any other
        for k2 in ["\u{1}", "zzzz", "~", "!", "a", "$comment", "comment", "//", "#", "_comment", "$schema", "$id", "$ref", "description", "@", "$", "", "_", "__proto__", "type", "id", "meta"] {
            if k2 == name {
                continue;
            }
            let mut m = Map::new();
            m.insert(name.to_string(), loud_args());
            m.insert(k2.to_string(), json!({"log": "LEAK"}));
            let v = Value::Object(m);
            for d in &ds {
                must_be_literal(ctx, "multi-key", &v, d);
            }
            // the companion holding a plain string (what an annotation would hold), benign operands
            let mut m = Map::new();
            m.insert(name.to_string(), Value::Array(crate::spaces::c03::benign(name, 2)));
            m.insert(k2.to_string(), json!("note"));
            let v = Value::Object(m);
            must_be_literal(ctx, "multi-key:string-companion", &v, &ds[2]);
            // ... and nested in operand positions
            let host = json!({"if": [true, v.clone(), 0]});
            let o = ctx.check("multi-key:string-companion:operand", &host, &ds[2]);
            if o.ok() != Some(&v) {
                ctx.law_fail("law:literal-identity", &host, &ds[2], format!("Ok({})", v), o.show());
            }
        }
        // two operator names as keys
        for other in ["var", "+", "if", "log"] {
            if other == name {
                continue;
            }
            let mut m = Map::new();
            m.insert(name.to_string(), loud_args());
            m.insert(other.to_string(), loud_args());
            let v = Value::Object(m);
            must_be_literal(ctx, "two-operator-keys", &v, &ds[2]);
        }
        for k in near_misses(name) {
            for args in [loud_args(), json!("s"), json!([]), json!([1, 1])] {
                let v = al::obj1(&k, args);
                for d in ds.iter().take(3) {
                    must_be_literal(ctx, "near-miss-key", &v, d);
                }
            }
        }
    }
    // every key of length <= 2 over the operator character set
    let cs = op_charset();
    let mut keys: Vec<String> = cs.iter().map(|c| c.to_string()).collect();
    for a in &cs {
        for b in &cs {
            keys.push(format!("{}{}", a, b));
        }
    }
    if ctx.tier_thorough {
        for a in &cs {
            for b in &cs {
                for c in &cs {
                    keys.push(format!("{}{}{}", a, b, c));
                }
            }
        }
    }
    for k in keys {
        if refmodel::is_op(&k) {
            continue;
        }
        if !ctx.mine() {
            continue;
        }
        for args in [loud_args(), json!([1, 1])] {
            let v = al::obj1(&k, args);
            must_be_literal(ctx, "short-key", &v, &ds[2]);
        }
    }
    // size probes: big literals full of operation-shaped content stay inert
    for n in al::size_classes(false) {
        if !ctx.mine() {
            continue;
        }
        let arr: Vec<Value> = (0..n).map(|i| if i % 3 == 0 { json!({"log": "LEAK"}) } else if i % 3 == 1 { json!({"var": "s"}) } else { json!(i) }).collect();
        must_be_literal(ctx, "size-probe:array", &Value::Array(arr.clone()), &ds[2]);
        let mut m = Map::new();
        for (i, name) in OPS.iter().cycle().take(n.max(2)).enumerate() {
            m.insert(format!("{}{}", name, if i < OPS.len() { "".to_string() } else { i.to_string() }), loud_args());
        }
        if m.len() >= 2 {
            must_be_literal(ctx, "size-probe:object-of-operator-keys", &Value::Object(m), &ds[2]);
        }
        let mut nested = json!({"log": "LEAK"});
        for i in 0..n.min(100) {
            nested = if i % 2 == 0 { json!([nested]) } else { json!({"k": nested, "j": 1}) };
        }
        must_be_literal(ctx, "size-probe:nested", &nested, &ds[2]);
    }
    // the single exception is one level deep: direct elements of a literal collection of all / some /
    // none are expressions, but an element that is itself an array or a multi-key object is a literal again
    if ctx.mine() {
        let inner: Vec<Value> = vec![
            json!([{"log": "LEAK"}]), json!([[{"log": "LEAK"}]]), json!([{"var": "s"}]), json!([{"==": [1]}]), json!({"k": {"log": "LEAK"}, "j": 1}),
            json!({"var": "s", "zz": {"log": "LEAK"}}), json!([1, [{"var": "a"}]]), json!([{"k": {"log": "LEAK"}}]),
        ];
        for el in &inner {
            for k in ["all", "some", "none"] {
                for coll in [json!([el]), json!([1, el]), json!([el, el])] {
                    for pred in [json!(true), json!({"var": ""}), json!({"===": [{"var": "0"}, 7]}), json!({"===": [{"var": "0.var"}, "s"]}), json!({"log": {"var": ""}})] {
                        ctx.edge();
                        ctx.check("literal-collection:container-element", &op(k, vec![coll.clone(), pred.clone()]), &ds[2]);
                    }
                }
            }
        }
    }
    // dispatch side, negative form: a single-key object keyed by an operator name is never
    // returned as a literal, whatever its operands are (wrong counts and shapes included)
    let v0 = al::v0();
    for name in OPS {
        if !ctx.mine() {
            continue;
        }
        let mut shapes: Vec<Value> = Vec::new();
        for n in 0..=6usize {
            shapes.push(Value::Array(crate::spaces::c03::benign(name, n)));
        }
        for n in 0..=2usize {
            for t in al::tuples(&v0, n) {
                shapes.push(Value::Array(t));
            }
        }
        shapes.extend(al::v1().into_iter().filter(|x| !x.is_array()));
        for args in shapes {
            let r = al::obj1(name, args);
            for d in [&ds[0], &ds[2]] {
                ctx.edge();
                let o = ctx.exec(&r, d);
                let (exp, _) = refmodel::reference(&r, d);
                let returned_itself = o.ok() == Some(&r);
                let legit = exp == refmodel::Exp::Val(r.clone());
                ctx.record(
                    "dispatch:never-a-literal",
                    &r,
                    d,
                    &o,
                    if returned_itself && !legit { Some(("an evaluated result or an error (the key is an operator name)".into(), o.show())) } else { None },
                );
                // ... also when it sits in operand position
                let r2 = json!({"if": [r]});
                let o2 = ctx.exec(&r2, d);
                ctx.record(
                    "dispatch:never-a-literal:operand",
                    &r2,
                    d,
                    &o2,
                    if o2.ok() == Some(&r) && !legit { Some(("an evaluated result or an error (the key is an operator name)".into(), o2.show())) } else { None },
                );
            }
        }
    }
    // dispatch side, operand level: an operation-shaped operand of an operator is rule text too - whatever
    // its neighbours are (benign, null, a missing variable, an empty array) it is evaluated or skipped, never
    // handed back as the literal it looks like
    for name in OPS {
        for n in 1..=3usize {
            if !refmodel::arity_ok(name, n) || !ctx.mine() {
                continue;
            }
            for p in 0..n {
                for fill in [None, Some(json!(null)), Some(json!({"var": "nope"})), Some(json!([]))] {
                    for probe in [json!({"var": "s"}), json!({"cat": ["S", "ECRET"]}), json!({"if": [true, "SECRET"]})] {
                        ctx.edge();
                        let mut args = match &fill {
                            None => crate::spaces::c03::benign(name, n),
                            Some(f) => vec![f.clone(); n],
                        };
                        args[p] = probe.clone();
                        let r = op(name, args);
                        let o = ctx.check("dispatch:operand", &r, &ds[2]);
                        if let Some(v) = o.ok() {
                            if v.to_string().contains(&probe.to_string()) {
                                ctx.law_fail("law:operand-is-rule-text", &r, &ds[2], "the operand evaluated (or skipped)".into(), o.show());
                            }
                        }
                    }
                }
            }
        }
    }
    // the single exception is about arrays WRITTEN in the rule: a collection that is data - however it is
    // fetched (whole data by "", null, [] or no operand; a named field; the current element of an outer
    // iteration) - holds values, and operation-shaped values among them are not evaluated
    if ctx.mine() {
        // a data value that IS an operation-shaped object where a collection is expected: an object is not a
        // collection (error); it is never evaluated to obtain one
        for m in [json!({"var": "other"}), json!({"merge": [["x"], ["y"]]}), json!({"cat": ["x", "y"]}), json!({"if": [true, ["x"]]}), json!({"filter": [["x"], true]})] {
            let d = json!({"tags": m, "other": ["x"], "rows": [{"tags": m}]});
            for k in ["all", "some", "none", "map", "filter"] {
                ctx.edge();
                ctx.check("data-collection:operation-shaped-object", &op(k, vec![json!({"var": "tags"}), json!({"===": [{"var": ""}, "x"]})]), &d);
                ctx.check("data-collection:operation-shaped-object:nested", &json!({"map": [{"var": "rows"}, op(k, vec![json!({"var": "tags"}), json!(true)])]}), &d);
            }
            ctx.check("data-collection:operation-shaped-object:reduce", &json!({"reduce": [{"var": "tags"}, {"var": "current"}, 0]}), &d);
            ctx.check("data-collection:operation-shaped-object:in", &json!({"in": ["x", {"var": "tags"}]}), &d);
            ctx.check("data-collection:operation-shaped-object:merge", &json!({"merge": [{"var": "tags"}]}), &d);
        }
        let whole = [json!({"var": ""}), json!({"var": null}), json!({"var": []}), json!({"var": [""]}), json!({"var": [null, "dflt"]})];
        let datas = [json!([{"var": "a"}]), json!([{"+": ["x"]}, 1]), json!([{"log": "LEAK"}]), json!([[{"var": "a"}], {"cat": ["x", "y"]}, "xy"])];
        let preds = [json!({"!==": [{"var": ""}, null]}), json!({"===": [{"var": ""}, "xy"]}), json!(true), json!({"var": "var"})];
        for w in &whole {
            for d in &datas {
                for p in &preds {
                    ctx.edge();
                    for k in ["all", "some", "none", "map", "filter"] {
                        ctx.check("data-collection:whole-data", &op(k, vec![w.clone(), p.clone()]), d);
                    }
                    // the same collection as the current element of an outer iteration
                    ctx.check("data-collection:outer-element", &json!({"map": [{"var": "rows"}, {"some": [w, p]}]}), &json!({"rows": [d, ["xy"], [1]]}));
                    ctx.check("data-collection:outer-element", &json!({"filter": [{"var": "rows"}, {"all": [w, p]}]}), &json!({"rows": [d, ["xy"], [1]]}));
                }
            }
        }
    }
    // literal containers in every operand position of every operator: an array written in the rule that holds
    // operation-shaped members, and a multi-key object one of whose keys is an operator name, are plain values
    // wherever they stand - the members are chosen so that EVALUATING them would yield exactly the benign operand
    for name in OPS {
        for n in 1..=3usize {
            if !refmodel::arity_ok(name, n) || !ctx.mine() {
                continue;
            }
            let base = crate::spaces::c03::benign(name, n);
            let mut dm = serde_json::Map::new();
            for (i, b) in base.iter().enumerate() {
                dm.insert(format!("b{}", i), b.clone());
            }
            dm.insert("xs".into(), json!([1, 2, 3]));
            let d = Value::Object(dm);
            for p in 0..n {
                for q in 0..n {
                    let lits = [
                        json!([{"var": format!("b{}", q)}]),
                        json!([{"var": format!("b{}", q)}, "x"]),
                        json!([0, {"var": format!("b{}", q)}]),
                        json!({"var": format!("b{}", q), "note": "annotated"}),
                        json!({"var": "xs", "note": "all of them"}),
                        json!({"and": [true], "var": "xs"}),
                        json!([{"log": "LEAK"}]),
                    ];
                    for l in lits {
                        ctx.edge();
                        let mut args = base.clone();
                        args[p] = l;
                        ctx.check("literal-container:operand", &op(name, args.clone()), &d);
                        // the same with the other operands read from the data
                        for (i, a) in args.iter_mut().enumerate() {
                            if i != p {
                                *a = json!({"var": format!("b{}", i)});
                            }
                        }
                        ctx.check("literal-container:operand:V", &op(name, args), &d);
                    }
                }
            }
        }
    }
    // dispatch side at large operand counts (8- and 16-bit count boundaries included): the operator is
    // still found and still sees every operand
    {
        let mut counts = al::size_classes(ctx.tier_thorough);
        counts.extend([258usize, 511, 512, 513, 65535, 65536, 65537]);
        for n in counts {
            if !ctx.mine() {
                continue;
            }
            for k in OPS {
                ctx.edge();
                let r = op(k, crate::spaces::c03::benign(k, n));
                ctx.check("dispatch:size-probe", &r, &ds[2]);
            }
        }
    }
    // dispatch side: each name is an operation, and the right one
    if ctx.mine() {
        let d = json!({"a": 1, "s": "SECRET", "xs": [1, 2, 3]});
        let vectors: Vec<(&str, Value)> = vec![
            ("==", json!([1, "1"])), ("!=", json!([1, "1"])), ("===", json!([1, "1"])), ("!==", json!([1, "1"])),
            ("!", json!([0])), ("!!", json!([0])), ("<", json!([1, 2])), ("<=", json!([2, 2])), (">", json!([1, 2])), (">=", json!([2, 2])),
            ("+", json!([2, 3])), ("-", json!([2, 3])), ("*", json!([2, 3])), ("/", json!([6, 3])), ("%", json!([7, 3])),
            ("max", json!([2, 3])), ("min", json!([2, 3])), ("merge", json!([[1], [2]])), ("in", json!(["a", "abc"])),
            ("cat", json!(["a", 1])), ("substr", json!(["abcd", 1, 2])), ("log", json!(["dispatch"])), ("var", json!(["s"])),
            ("missing", json!(["a", "q"])), ("missing_some", json!([2, ["a", "q"]])), ("if", json!([0, "t", "f"])), ("?:", json!([0, "t", "f"])),
            ("or", json!([0, "x"])), ("and", json!([0, "x"])), ("map", json!([{"var": "xs"}, {"*": [{"var": ""}, 2]}])),
            ("filter", json!([{"var": "xs"}, {">": [{"var": ""}, 1]}])), ("reduce", json!([{"var": "xs"}, {"+": [{"var": "current"}, {"var": "accumulator"}]}, 0])),
            ("all", json!([{"var": "xs"}, {">": [{"var": ""}, 1]}])), ("some", json!([{"var": "xs"}, {">": [{"var": ""}, 1]}])),
            ("none", json!([{"var": "xs"}, {">": [{"var": ""}, 1]}])),
        ];
        assert_eq!(vectors.len(), 35);
        for (k, args) in vectors {
            ctx.edge();
            let r = al::obj1(k, args);
            let o = ctx.check("dispatch", &r, &d);
            if o.ok() == Some(&r) {
                ctx.law_fail("law:operator-dispatched", &r, &d, "an evaluated result".into(), "the rule itself".into());
            }
        }
    }
    crate::spaces::depth_probes(ctx);    crate::spaces::sweep::length_sweep(ctx);
}
