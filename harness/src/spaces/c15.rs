//! C15 - merge flattens exactly one level; in is substring / deep-membership test.
//!
//! Space: merge operand lists of length 0..4 over a 12-value alphabet with nested arrays
//! (channels L and V); in: needle x haystack over V1 + number spellings (1 / 1.0 / 1e0 / -0.0 / 0,
//! 2^53+1 vs 2^53), nested arrays and objects in both key orders, non-ASCII strings, null and
//! non-collection haystacks. Oracle: R (length law and order for merge; deep structural
//! membership with numeric comparison of numbers for in).

use crate::alphabet::{self as al, op};
use crate::ctx::Ctx;
use serde_json::{json, Value};

pub fn merge_alphabet() -> Vec<Value> {
    ["1", r#""a""#, "null", "[]", "[1]", "[1,2]", "[[3]]", "[[],[4]]", "{}", r#"{"a":[5]}"#, "[null]", "false"]
        .iter()
        .map(|s| al::parse(s))
        .collect()
}

pub fn needles() -> Vec<Value> {
    let mut v = al::v1_plain();
    v.extend(
        ["1e0", "2.0", "-0.0", "9007199254740992", "9007199254740993", "9007199254740992.0", "18446744073709551615", "1.8446744073709552e19",
         "-1", "-1.0", r#"{"a":1,"b":2}"#, r#"{"b":2,"a":1}"#, r#"{"a":1.0,"b":2}"#, r#"{"a":[1,{"b":null}]}"#, "[1.0]", "[1,2.0]", "[[1]]", r#""é""#,
         r#""水""#, r#""a😀""#, r#""""#, r#""1""#, "0.1", "1e-1", r#"[{"x":0}]"#, r#"[{"x":-0.0}]"#,
         "18446744073709551614", "9223372036854775807", "9223372036854775808", "-9223372036854775808", "-9223372036854775807", "9007199254740991",
         "[18446744073709551615]", r#"{"k":[18446744073709551615]}"#, r#"{"k":[18446744073709551000]}"#, "4294967296", "4294967297"]
            .iter()
            .map(|s| al::parse(s)),
    );
    // absent vs null: every object over the keys {a, b} with values {null, 1} - same size, different key
    // sets; a member that is null is not an absent member
    for a in [None, Some(Value::Null), Some(json!(1))] {
        for b in [None, Some(Value::Null), Some(json!(1))] {
            let mut m = serde_json::Map::new();
            if let Some(x) = &a {
                m.insert("a".into(), x.clone());
            }
            if let Some(x) = &b {
                m.insert("b".into(), x.clone());
            }
            v.push(Value::Object(m));
        }
    }
    // a non-number leaf next to a number in two spellings: structural equality compares leaf by leaf
    for t in [r#"["a",1.0]"#, r#"["a",1]"#, "[-0.0,true]", "[0,true]", r#"{"k":"v","n":1.0}"#, r#"{"n":1,"k":"v"}"#, "[null,2.0]", "[null,2]", r#"[[1.0,"x"],"y"]"#, r#"[[1,"x"],"y"]"#] {
        v.push(al::parse(t));
    }
    v.push(json!({"id": 7, "name": "x"}));
    v.push(json!({"id": 7, "nickname": null}));
    v.push(json!([null]));
    v.push(json!([null, null]));
    al::dedup(v)
}

pub fn haystacks() -> Vec<Value> {
    let n = needles();
    let mut h: Vec<Value> = Vec::new();
    h.push(json!(null));
    h.push(json!([]));
    // singletons and pairs around each needle
    for x in &n {
        h.push(json!([x]));
        h.push(json!(["pad", x]));
        h.push(json!([[x]]));
    }
    h.extend(
        [r#""""#, r#""abc""#, r#""héllo水😀""#, r#""a😀b""#, r#""1,2""#, r#""null""#, "0", "1", "true", "false", "{}", r#"{"a":1}"#, "1.5",
         r#"[1,"1",[1],{"a":1,"b":2},null,true,0.1]"#, r#"[1.0,2.0,[1.0],{"b":2.0,"a":1.0}]"#, r#"[0]"#, r#"[-0.0]"#, "[9007199254740992]", "[9007199254740993]", "[18446744073709551615]"]
            .iter()
            .map(|s| al::parse(s)),
    );
    al::dedup(h)
}

pub fn meta(_thorough: bool) -> (String, Value) {
    (
        "choice tree: merge: operand count 0..4 -> operands from a 12-value alphabet -> channel (L / V / unary); in: needle -> haystack -> channel (L / V); leaf = one apply() compared with R; non-trivial = R specifies the outcome; distinct = distinct (rule,data) text".into(),
        json!({"merge_alphabet": merge_alphabet().len(), "merge_lengths": "0..4", "needles": needles().len(), "haystacks": haystacks().len()}),
    )
}

fn lit(v: &Value) -> Value {
    // operands that are operation-shaped cannot be written literally: read them from data instead
    v.clone()
}

pub fn run(ctx: &mut Ctx) {
    let a = merge_alphabet();
    let null = Value::Null;
    let mut lists: Vec<Vec<Value>> = Vec::new();
    for n in 0..=(if ctx.tier_thorough { 5usize } else { 4usize }) {
        lists.extend(al::tuples(&a, n));
    }
    for l in &lists {
        if !ctx.mine() {
            continue;
        }
        let r = op("merge", l.iter().map(lit).collect());
        let o = ctx.check("merge:L", &r, &null);
        // length law, independent of R
        if let Some(Value::Array(out)) = o.ok() {
            let want: usize = l.iter().map(|x| x.as_array().map(|y| y.len()).unwrap_or(1)).sum();
            if out.len() != want {
                ctx.law_fail("law:merge-length", &r, &null, format!("length {}", want), o.show());
            }
        }
        if l.len() <= 3 {
            let vars: Vec<Value> = (0..l.len()).map(|i| json!({"var": i})).collect();
            ctx.check("merge:V", &op("merge", vars), &Value::Array(l.clone()));
        }
        if l.len() == 1 && !l[0].is_array() {
            ctx.check("merge:U", &al::obj1("merge", l[0].clone()), &null);
        }
    }
    // size probes: many operands, long arrays, the needle at every position class
    for n in al::size_classes(ctx.tier_thorough) {
        if !ctx.mine() {
            continue;
        }
        let ops_: Vec<Value> = (0..n).map(|i| match i % 4 { 0 => json!([i, [i]]), 1 => json!(i), 2 => json!([]), _ => json!(null) }).collect();
        let r = op("merge", ops_.clone());
        let o = ctx.check("merge:size-probe", &r, &null);
        if let Some(Value::Array(out)) = o.ok() {
            let want: usize = ops_.iter().map(|x| x.as_array().map(|y| y.len()).unwrap_or(1)).sum();
            if out.len() != want {
                ctx.law_fail("law:merge-length", &r, &null, format!("length {}", want), format!("length {}", out.len()));
            }
        }
        let long: Vec<Value> = (0..n).map(|i| json!(i)).collect();
        ctx.check("merge:size-probe:long-arrays", &json!({"merge": [long, [long], {"var": "x"}]}), &json!({"x": long}));
        let nn = n as i64;
        for i in [0i64, 1, nn / 2, nn - 1, nn, -1] {
            ctx.edge();
            // needle spelling (integer / float / string twin) x needle channel x haystack channel
            let dh = json!({"h": long, "n": i, "f": i as f64});
            for nd in [json!(i), json!(i as f64), json!(i.to_string()), json!({"var": "n"}), json!({"var": "f"})] {
                ctx.check("in:size-probe:array:LL", &json!({"in": [nd, long]}), &dh);
                ctx.check("in:size-probe:array:LV", &json!({"in": [nd, {"var": "h"}]}), &dh);
            }
            let longf: Vec<Value> = (0..n).map(|i| json!(i as f64)).collect();
            ctx.check("in:size-probe:array:float-haystack", &json!({"in": [i, longf]}), &null);
            ctx.check("in:size-probe:array:float-haystack:V", &json!({"in": [{"var": "n"}, {"var": "h"}]}), &json!({"h": longf, "n": i}));
            ctx.check("in:size-probe:nested", &json!({"in": [[i], {"var": "h"}]}), &json!({"h": long.iter().map(|v| json!([v])).collect::<Vec<_>>()}));
        }
        let st: String = (0..n).map(|i| ['a', 'é', '水', '😀', 'b'][i % 5]).collect();
        let chars: Vec<char> = st.chars().collect();
        for i in [0usize, 1, n / 2, n.saturating_sub(2), n.saturating_sub(1)] {
            if i + 1 <= chars.len() {
                ctx.edge();
                let needle: String = chars[i..(i + 2).min(chars.len())].iter().collect();
                ctx.check("in:size-probe:substring", &json!({"in": [needle, st]}), &null);
                let not_there: String = format!("{}Z", chars[i]);
                ctx.check("in:size-probe:substring:absent", &json!({"in": [not_there, st]}), &null);
            }
        }
    }
    // sorted haystacks with one foreign element: ascending numbers with a non-number (null, a string, an
    // array, a number out of order) at each position class; every present number must be found, wherever
    // the foreign element sits, and absent ones not
    for n in al::size_classes(ctx.tier_thorough) {
        if !ctx.mine() || n > 300 {
            continue;
        }
        let step = if n > 40 { n / 9 + 1 } else { 1 };
        for foreign in [json!(null), json!("n/a"), json!([3]), json!(-1), json!(1e9)] {
            let mut pos = 0;
            while pos < n {
                ctx.edge();
                let hay: Vec<Value> = (0..n).map(|i| if i == pos { foreign.clone() } else { json!(i) }).collect();
                let dh = json!({"h": hay});
                for needle in [0usize, 1, pos.saturating_sub(1), pos, pos + 1, n / 2, n - 2, n - 1, n] {
                    ctx.check("in:sorted-haystack", &json!({"in": [needle, {"var": "h"}]}), &dh);
                }
                ctx.check("in:sorted-haystack:float", &json!({"in": [(n / 3) as f64, {"var": "h"}]}), &dh);
                ctx.check("in:sorted-haystack:foreign", &json!({"in": [foreign, {"var": "h"}]}), &dh);
                pos += step;
            }
        }
        // strings sorted, needle string; descending numbers
        let hs: Vec<Value> = (0..n).map(|i| json!(format!("k{:04}", i))).collect();
        ctx.check("in:sorted-haystack:strings", &json!({"in": [format!("k{:04}", n - 1), hs]}), &null);
        let desc: Vec<Value> = (0..n).rev().map(|i| json!(i)).collect();
        for needle in [0usize, n / 2, n - 1, n] {
            ctx.check("in:sorted-haystack:descending", &json!({"in": [needle, desc]}), &null);
        }
    }
    // spelling twins: the needle's twin (other type, same spelling) sits in a long haystack
    for n in al::size_classes(ctx.tier_thorough) {
        if !ctx.mine() {
            continue;
        }
        for (x, y) in al::spelling_twins() {
            for (needle, other) in [(x.clone(), y.clone()), (y.clone(), x.clone())] {
                for pos in [0usize, n / 2, n - 1] {
                    ctx.edge();
                    let hay: Vec<Value> = (0..n).map(|i| if i == pos { other.clone() } else { json!(format!("pad{}", i)) }).collect();
                    ctx.check("in:size-probe:twins", &json!({"in": [{"var": "n"}, {"var": "h"}]}), &json!({"n": needle, "h": hay}));
                    let both: Vec<Value> = (0..n).map(|i| if i == pos { other.clone() } else if i == n - 1 - pos { needle.clone() } else { json!(i) }).collect();
                    ctx.check("in:size-probe:twins:both", &json!({"in": [{"var": "n"}, {"var": "h"}]}), &json!({"n": needle, "h": both}));
                    ctx.check("merge:size-probe:twins", &json!({"merge": [{"var": "h"}, {"var": "n"}, [{"var": "n"}]]}), &json!({"n": needle, "h": both}));
                }
            }
        }
    }
    // merge of data-carried markers must keep them inert
    if ctx.mine() {
        let d = json!({"m": {"var": "s"}, "arr": [{"var": "s"}, [{"+": ["x"]}]], "s": "SECRET"});
        for r in [json!({"merge": [{"var": "m"}, {"var": "arr"}]}), json!({"merge": {"var": "arr"}}), json!({"merge": [{"merge": [{"var": "arr"}]}]})] {
            ctx.check("merge:markers", &r, &d);
        }
    }
    let ns = needles();
    let hs = haystacks();
    for n in &ns {
        if !ctx.mine() {
            continue;
        }
        for h in &hs {
            ctx.edge();
            ctx.check("in:L", &op("in", vec![n.clone(), h.clone()]), &null);
            ctx.check("in:V", &json!({"in": [{"var": "n"}, {"var": "h"}]}), &json!({"n": n, "h": h}));
        }
    }
    // magnitude ladder: every pair of numbers around every integer-width boundary, as element and
    // as nested element; distinct numbers must stay distinct however large they are
    {
        let lad = al::magnitude_ladder();
        for a in &lad {
            if !ctx.mine() {
                continue;
            }
            for b in &lad {
                ctx.edge();
                ctx.check("in:ladder:L", &json!({"in": [a, [0, b]]}), &null);
                ctx.check("in:ladder:nested:V", &json!({"in": [{"var": "n"}, {"var": "h"}]}), &json!({"n": [a], "h": [{"k": a}, [b]]}));
            }
        }
    }
    // substring tests over characters that share UTF-8 lead bytes (é/ü, 水/氵, 😀/😁) and ASCII
    {
        let letters = ['a', 'é', 'ü', '水', '氵', '😀', '😁'];
        let mut strs: Vec<String> = vec![String::new()];
        for x in letters {
            strs.push(x.to_string());
        }
        for x in letters {
            for y in letters {
                strs.push(format!("{}{}", x, y));
            }
        }
        strs.extend(["über".to_string(), "Köln".to_string(), "本語".to_string(), "smile 😁!".to_string(), "aéa".to_string()]);
        for n in &strs {
            if !ctx.mine() {
                continue;
            }
            for h in &strs {
                ctx.edge();
                ctx.check("in:substring:utf8-neighbours", &json!({"in": [n, h]}), &null);
                if n.chars().count() == 1 {
                    ctx.check("in:substring:utf8-neighbours:V", &json!({"in": [{"var": "c"}, {"var": "s"}]}), &json!({"c": n, "s": h}));
                }
            }
        }
    }
    // substring tests over characters that *extend* the previous one in grapheme-aware text handling (combining
    // mark, variation selector, zero-width joiner, emoji modifier): containment is by code points, so a match
    // followed by such a character is still a match
    {
        let letters = ['e', 'é', '\u{301}', '\u{fe0f}', '\u{200d}', '😀', '\u{1f3fb}', '\u{2764}'];
        let mut strs: Vec<String> = vec![String::new()];
        for x in letters {
            strs.push(x.to_string());
        }
        for x in letters {
            for y in letters {
                strs.push(format!("{}{}", x, y));
            }
        }
        let needles = strs.clone();
        for x in letters {
            for y in letters {
                for z in letters {
                    strs.push(format!("{}{}{}", x, y, z));
                }
            }
        }
        for n in &needles {
            if !ctx.mine() {
                continue;
            }
            for h in &strs {
                ctx.edge();
                ctx.check("in:substring:extenders", &json!({"in": [n, h]}), &null);
            }
            ctx.check("in:substring:extenders:V", &json!({"in": [{"var": "n"}, {"var": "h"}]}), &json!({"n": n, "h": format!("caf{}\u{301} I \u{2764}\u{fe0f} U \u{1f468}\u{200d}\u{1f469}", n)}));
        }
    }
    // substring tests over S_uni
    let ss = al::s_uni(3);
    for s in &ss {
        if !ctx.mine() {
            continue;
        }
        for t in &ss {
            if t.chars().count() > 2 {
                continue;
            }
            ctx.edge();
            ctx.check("in:substring", &json!({"in": [t, s]}), &null);
        }
    }
    // straddle strings: needles that start, end and sit at the straddling character
    for (st, ci) in al::straddle_strings() {
        if !ctx.mine() {
            continue;
        }
        let chars: Vec<char> = st.chars().collect();
        let sub = |a: usize, b: usize| -> String { chars[a.min(chars.len())..b.min(chars.len())].iter().collect() };
        for needle in [sub(ci, ci + 1), sub(ci.saturating_sub(1), ci + 1), sub(ci, ci + 2), sub(ci.saturating_sub(2), ci + 3), format!("{}Z", sub(ci, ci + 1)), sub(ci + 1, ci + 3)] {
            ctx.edge();
            ctx.check("in:straddle", &json!({"in": [needle, {"var": "s"}]}), &json!({"s": st}));
        }
    }
    crate::spaces::render_probes(ctx, &["merge", "in"]);
    crate::spaces::width_probes(ctx);
    crate::spaces::sweep::length_sweep(ctx);
    crate::spaces::type_grid_probes(ctx, &["merge", "in"]);
    crate::spaces::depth_probes(ctx);
}
