//! C13 - map, filter and reduce have standard higher-order semantics and scoping.
//!
//! Space: collections (literal arrays of length 0..3 over an 8-value element alphabet, the same
//! arrays through var and through merge, null, non-arrays) x expressions from E (element
//! references, outer-scope probes, non-commutative folds, element-dependent poison, tracers,
//! nested map / filter / reduce) x outer data that holds the keys `outer`, `current`,
//! `accumulator` (so a scope leak is visible). Oracle: R + length / subsequence laws.

use crate::alphabet::{self as al, op};
use crate::ctx::Ctx;
use serde_json::{json, Value};

pub fn elements() -> Vec<Value> {
    vec![
        json!(0), json!(1), json!("1"), json!("a"), json!(null), json!([1]), json!(true),
        json!({"current": "ec", "accumulator": "ea", "outer": "eo"}),
        json!({"var": "outer"}),
    ]
}

pub fn collections() -> Vec<Vec<Value>> {
    let e = elements();
    let mut out = Vec::new();
    for n in 0..=3 {
        out.extend(al::tuples(&e, n));
    }
    out
}

pub fn outer() -> Value {
    json!({"outer": "OUT", "current": "C!", "accumulator": "A!", "init": 5, "k": 1, "": "EMPTYKEY"})
}

pub fn elem_exprs() -> Vec<Value> {
    vec![
        json!({"var": ""}), json!({"var": "outer"}), json!({"var": "current"}), json!({"var": "accumulator"}), json!({"var": "init"}),
        json!(1), json!(0), json!("k"), json!(null), json!([]),
        json!({"+": [{"var": ""}, 1]}), json!({"cat": ["<", {"var": ""}, ">"]}), json!({"==": [{"var": ""}, 1]}), json!({"!": [{"var": ""}]}),
        json!({"if": [{"var": ""}, "t", "f"]}), json!({"log": {"var": ""}}), json!({"+": ["x"]}), json!({"/": [1, {"var": ""}]}), json!({"==": []}),
        json!({"map": [{"var": ""}, {"var": ""}]}), json!({"filter": [[1, 2, 3], {">": [{"var": ""}, 1]}]}),
        json!({"reduce": [[1, 2], {"+": [{"var": "current"}, {"var": "accumulator"}]}, 0]}),
        json!({"var": "0"}), json!({"var": 0}), json!({"merge": [{"var": ""}, {"var": ""}]}), json!({"and": [{"var": ""}, "x"]}),
        json!({"var": ["outer", "dflt"]}), json!({"missing": ["outer", "current"]}),
        // an error one lazy level below the expression root (raised only while the expression is evaluated)
        json!({"and": [{"==": [{"var": ""}]}]}), json!({"if": [{"!": [1, 2]}]}), json!({"or": [0, {"+": ["x"]}]}),
    ]
}

pub fn reduce_exprs() -> Vec<Value> {
    vec![
        json!({"+": [{"var": "current"}, {"var": "accumulator"}]}),
        json!({"cat": [{"var": "accumulator"}, {"var": "current"}]}),
        json!({"-": [{"var": "accumulator"}, {"var": "current"}]}),
        json!({"var": "current"}), json!({"var": "accumulator"}), json!({"var": ""}), json!({"var": "outer"}), json!({"var": "init"}),
        json!({"merge": [{"var": "accumulator"}, {"var": "current"}]}),
        json!({"if": [{"var": "current"}, {"var": "accumulator"}, "stop"]}),
        json!({"log": {"var": "current"}}), json!({"+": ["x"]}), json!({"==": []}), json!(7),
        json!({"reduce": [[1, 2], {"+": [{"var": "current"}, {"var": "accumulator"}]}, {"var": "current"}]}),
        json!({"missing": ["current", "accumulator", "outer"]}),
        json!({"cat": [{"var": "accumulator.0"}, {"var": "current.current"}]}),
        // folds through the selecting operators, the accumulator in every operand position (they return an OPERAND,
        // not a boolean: which one depends on every element, not only on the first that "settles" the truthiness)
        json!({"and": [{"var": "current"}, {"var": "accumulator"}]}), json!({"and": [{"var": "accumulator"}, {"var": "current"}]}),
        json!({"or": [{"var": "current"}, {"var": "accumulator"}]}), json!({"or": [{"var": "accumulator"}, {"var": "current"}]}),
        json!({"if": [{"var": "accumulator"}, {"var": "current"}, {"var": "accumulator"}]}), json!({"and": [{"<": [{"+": [{"var": "current"}]}, 10]}, {"var": "accumulator"}]}),
        json!({"max": [{"var": "current"}, {"var": "accumulator"}]}), json!({"?:": [{"var": "current"}, {"var": "accumulator"}, {"var": "current"}]}),
    ]
}

pub fn inits() -> Vec<Value> {
    vec![json!(0), json!(""), json!([]), json!(null), json!({"var": "outer"}), json!({"var": "init"}), json!({"+": ["x"]}), json!({"log": "I"}), json!({"var": "current"}), json!(true), json!(false)]
}

pub fn meta(_thorough: bool) -> (String, Value) {
    (
        "choice tree: collection (arrays of length 0..3 over 8 elements; null; non-arrays) -> channel (L literal / V via var / C via merge) -> operator (map, filter, reduce) -> expression (-> initial value for reduce) -> outer data; leaf = one apply() compared with R on value, Err-ness and log sequence; laws: map keeps the length, filter returns a subsequence of unchanged elements; non-trivial = R specifies the outcome; distinct = distinct (rule,data) text".into(),
        json!({"collections": collections().len(), "channels": 3, "element_expressions": elem_exprs().len(), "reduce_expressions": reduce_exprs().len(), "initial_values": inits().len()}),
    )
}

fn is_subsequence(small: &[Value], big: &[Value]) -> bool {
    let mut i = 0;
    for b in big {
        if i < small.len() && small[i] == *b {
            i += 1;
        }
    }
    i == small.len()
}

pub fn run(ctx: &mut Ctx) {
    let mut cs = collections();
    if ctx.tier_thorough {
        cs.extend(al::tuples(&elements(), 4));
    }
    let ee = elem_exprs();
    let re = reduce_exprs();
    let is = inits();
    let out = outer();
    for c in &cs {
        if !ctx.mine() {
            continue;
        }
        let lit = Value::Array(c.clone());
        let mut dv = out.clone();
        dv["coll"] = lit.clone();
        let chans: Vec<(&str, Value, Value)> = vec![
            ("L", lit.clone(), out.clone()),
            ("V", json!({"var": "coll"}), dv.clone()),
            ("C", json!({"merge": [{"var": "coll"}, []]}), dv.clone()),
        ];
        for (ch, coll, data) in &chans {
            for e in &ee {
                ctx.edge();
                let rm = op("map", vec![coll.clone(), e.clone()]);
                let om = ctx.check(&format!("map:{}", ch), &rm, data);
                if let Some(Value::Array(a)) = om.ok() {
                    if a.len() != c.len() {
                        ctx.law_fail("law:map-length", &rm, data, format!("length {}", c.len()), om.show());
                    }
                }
                let rf = op("filter", vec![coll.clone(), e.clone()]);
                let of = ctx.check(&format!("filter:{}", ch), &rf, data);
                if let Some(Value::Array(a)) = of.ok() {
                    if !is_subsequence(a, c) {
                        ctx.law_fail("law:filter-subsequence", &rf, data, format!("a subsequence of {}", lit), of.show());
                    }
                }
            }
            // reduce: fewer channel combinations for the long collections
            if *ch == "C" && c.len() == 3 {
                continue;
            }
            for e in &re {
                for i in &is {
                    ctx.edge();
                    ctx.check(&format!("reduce:{}", ch), &op("reduce", vec![coll.clone(), e.clone(), i.clone()]), data);
                }
            }
        }
    }
    // size probes: long collections, every element position-marked
    for n in al::size_classes(ctx.tier_thorough) {
        if !ctx.mine() {
            continue;
        }
        let coll: Vec<Value> = (0..n).map(|i| match i % 5 { 0 => json!(i), 1 => json!(format!("s{}", i)), 2 => json!(null), 3 => json!([i]), _ => json!({"v": i}) }).collect();
        let lit = Value::Array(coll.clone());
        let mut dv = out.clone();
        dv["coll"] = lit.clone();
        for (ch, c, d) in [("L", lit.clone(), out.clone()), ("V", json!({"var": "coll"}), dv.clone()), ("C", json!({"merge": [{"var": "coll"}, []]}), dv.clone())] {
            for e in [json!({"var": ""}), json!({"log": {"var": ""}}), json!({"!": [{"var": ""}]}), json!({"cat": ["<", {"var": ""}, ">"]}), json!({"var": "v"}), json!({"var": "0"})] {
                ctx.edge();
                let rm = op("map", vec![c.clone(), e.clone()]);
                let om = ctx.check(&format!("map:size-probe:{}", ch), &rm, &d);
                if let Some(Value::Array(a)) = om.ok() {
                    if a.len() != n {
                        ctx.law_fail("law:map-length", &rm, &d, format!("length {}", n), format!("length {}", a.len()));
                    }
                }
                let rf = op("filter", vec![c.clone(), e.clone()]);
                let of = ctx.check(&format!("filter:size-probe:{}", ch), &rf, &d);
                if let Some(Value::Array(a)) = of.ok() {
                    if !is_subsequence(a, &coll) {
                        ctx.law_fail("law:filter-subsequence", &rf, &d, "a subsequence".into(), format!("{} elements", a.len()));
                    }
                }
            }
            for e in [
                json!({"cat": [{"var": "accumulator"}, "|", {"var": "current"}]}), json!({"merge": [{"var": "accumulator"}, [{"var": "current"}]]}), json!({"var": "current"}), json!({"log": {"var": "current.v"}}),
                json!({"cat": [{"var": "accumulator"}, {"var": "current"}]}), json!({"merge": [{"var": "accumulator"}, {"var": "current"}]}), json!({"cat": [{"var": "current"}, {"var": "accumulator"}]}),
                json!({"+": [{"var": "accumulator"}, {"var": "current.0"}]}), json!({"max": [{"var": "accumulator"}, {"var": "current.v"}]}),
            ] {
                ctx.edge();
                ctx.check(&format!("reduce:size-probe:{}", ch), &op("reduce", vec![c.clone(), e.clone(), json!("")]), &d);
            }
        }
    }
    // collections and initial values fetched through hard paths
    for payload in [json!([1, 2, 3]), json!([]), json!(null), json!(["a", [1], {"k": 2}]), json!("ab"), json!(5)] {
        if !ctx.mine() {
            continue;
        }
        for (name, coll, dd) in al::path_fetches(&payload) {
            for e in [json!({"var": ""}), json!({"cat": [{"var": ""}, "!"]}), json!({"log": {"var": ""}}), json!({"var": "0"}), json!({"var": "k"})] {
                ctx.edge();
                ctx.check(&format!("map:fetch:{}", name), &op("map", vec![coll.clone(), e.clone()]), &dd);
                ctx.check(&format!("filter:fetch:{}", name), &op("filter", vec![coll.clone(), e.clone()]), &dd);
            }
            ctx.check(&format!("reduce:fetch:{}", name), &op("reduce", vec![coll.clone(), json!({"cat": [{"var": "accumulator"}, {"var": "current"}]}), json!("")]), &dd);
            ctx.check(&format!("reduce:fetch-init:{}", name), &op("reduce", vec![json!([1, 2]), json!({"merge": [{"var": "accumulator"}, {"var": "current"}]}), coll.clone()]), &dd);
        }
    }
    // spelling twins far apart in long collections with type-sensitive expressions
    for n in al::size_classes(ctx.tier_thorough) {
        if n > 300 {
            continue;
        }
        if !ctx.mine() {
            continue;
        }
        for (x, y) in al::spelling_twins() {
            let coll: Vec<Value> = (0..n).map(|i| if i == 0 { x.clone() } else if i == n - 1 { y.clone() } else if i == n / 2 { x.clone() } else { json!("pad") }).collect();
            let dd = json!({"coll": coll});
            for e in [json!({"var": ""}), json!({"===": [{"var": ""}, 1]}), json!({"!!": [{"var": ""}]}), json!({"cat": [{"var": ""}]}), json!({"if": [{"var": ""}, "t", "f"]}), json!({"+": [{"var": ""}]})] {
                ctx.edge();
                ctx.check("map:size-probe:twins", &op("map", vec![json!({"var": "coll"}), e.clone()]), &dd);
                ctx.check("filter:size-probe:twins", &op("filter", vec![json!({"var": "coll"}), e.clone()]), &dd);
            }
            ctx.check("reduce:size-probe:twins", &json!({"reduce": [{"var": "coll"}, {"merge": [{"var": "accumulator"}, [{"var": "current"}]]}, []]}), &dd);
        }
    }
    // numeric folds at representation boundaries: reduce must behave as the left fold of the
    // operator's own (double) arithmetic, map / filter must see the element unchanged
    {
        let nums = al::numbers_small();
        let folds = [
            json!({"+": [{"var": "current"}, {"var": "accumulator"}]}), json!({"+": [{"var": "accumulator"}, {"var": "current"}]}),
            json!({"*": [{"var": "accumulator"}, {"var": "current"}]}), json!({"max": [{"var": "accumulator"}, {"var": "current"}]}),
            json!({"min": [{"var": "current"}, {"var": "accumulator"}]}), json!({"-": [{"var": "accumulator"}, {"var": "current"}]}),
            json!({"cat": [{"var": "accumulator"}, {"var": "current"}]}),
        ];
        let inits = [json!(0), json!(9007199254740992u64), json!("1"), json!(-0.0), json!({"var": "init"})];
        for n in 1..=3usize {
            for t in al::tuples(&nums, n) {
                if !ctx.mine() {
                    continue;
                }
                let lit = Value::Array(t.clone());
                let dd = json!({"coll": lit, "init": 9007199254740993u64});
                for f in &folds {
                    for i in &inits {
                        ctx.edge();
                        ctx.check("reduce:numeric-fold", &op("reduce", vec![json!({"var": "coll"}), f.clone(), i.clone()]), &dd);
                    }
                }
                if n <= 2 {
                    for e in [json!({"+": [{"var": ""}, 0]}), json!({"var": ""}), json!({"*": [{"var": ""}, 1]}), json!({"===": [{"var": ""}, {"var": ""}]})] {
                        ctx.check("map:numeric", &op("map", vec![lit.clone(), e.clone()]), &dd);
                        ctx.check("filter:numeric", &op("filter", vec![json!({"var": "coll"}), e.clone()]), &dd);
                    }
                }
            }
        }
    }
    // item-dependence: every way an element expression can depend on its element (var, var with
    // default, missing, missing_some, nested iteration over a field), over computed collections of
    // objects that differ in what they carry; the first element is not representative
    {
        let elems = vec![json!({"qty": 1}), json!({"sku": "x"}), json!({"qty": 0, "tags": ["x"]}), json!({}), json!({"qty": 2, "sku": "y", "tags": []})];
        let bodies = vec![
            json!({"var": "qty"}),
            json!({"var": ["qty", "dflt"]}),
            json!({"missing": ["qty"]}),
            json!({"!": {"missing": ["qty"]}}),
            json!({"missing_some": [1, ["qty", "sku"]]}),
            json!({"some": [{"var": "tags"}, {"==": [{"var": ""}, "x"]}]}),
            json!({"map": [{"var": "tags"}, {"cat": [{"var": ""}, "!"]}]}),
            json!({"in": ["x", {"var": "tags"}]}),
            json!({"log": {"missing": ["qty", "sku"]}}),
            json!({"if": [{"missing": ["qty"]}, "none", {"var": "qty"}]}),
        ];
        let rbodies = vec![
            json!({"missing": ["current.qty", "accumulator.n"]}),
            json!({"merge": [{"var": "accumulator"}, {"missing": ["current.qty", "current.sku"]}]}),
            json!({"+": [{"var": "accumulator"}, {"var": ["current.qty", 10]}]}),
            json!({"if": [{"missing": ["current.tags"]}, {"var": "accumulator"}, {"var": "current.tags"}]}),
            json!({"missing_some": [2, ["current.qty", "current.sku", "accumulator"]]}),
        ];
        for n in 1..=3usize {
            for t in al::tuples(&elems, n) {
                if !ctx.mine() {
                    continue;
                }
                let dd = json!({"items": t, "qty": "OUTER", "sku": "OUTER", "tags": ["x"], "current": {"qty": "OUTER"}});
                for (ch, coll) in [("var", json!({"var": "items"})), ("merge", json!({"merge": [{"var": "items"}, []]}))] {
                    if ch == "merge" && n == 3 {
                        continue;
                    }
                    for b in &bodies {
                        ctx.edge();
                        ctx.check(&format!("map:item-dependence:{}", ch), &op("map", vec![coll.clone(), b.clone()]), &dd);
                        ctx.check(&format!("filter:item-dependence:{}", ch), &op("filter", vec![coll.clone(), b.clone()]), &dd);
                    }
                    for b in &rbodies {
                        ctx.edge();
                        for init in [json!(0), json!([])] {
                            ctx.check(&format!("reduce:item-dependence:{}", ch), &op("reduce", vec![coll.clone(), b.clone(), init]), &dd);
                        }
                    }
                }
            }
        }
    }
    // rows of equal byte length (33, 40, 64, 65 bytes) that differ at one end only, with expressions that
    // index into the element
    for len in [33usize, 40, 64, 65] {
        if !ctx.mine() {
            continue;
        }
        let row = |first: char, last: char| -> String { format!("{}{}{}", first, "-".repeat(len - 2), last) };
        let rows: Vec<Value> = vec![json!(row('A', 'a')), json!(row('B', 'b')), json!(row('C', 'c')), json!(row('D', 'd'))];
        let recs: Vec<Value> = rows.iter().map(|r| json!({"name": r, "tags": [r]})).collect();
        let dd = json!({"rows": rows, "recs": recs});
        for b in [json!({"var": 0}), json!({"var": -1}), json!({"cat": [{"var": 0}, {"var": -1}]}), json!({"substr": [{"var": ""}, -1]}), json!({"==": [{"var": 0}, "C"]})] {
            ctx.edge();
            ctx.check("map:long-rows", &json!({"map": [{"var": "rows"}, b]}), &dd);
            ctx.check("filter:long-rows", &json!({"filter": [{"var": "rows"}, b]}), &dd);
        }
        for b in [json!({"var": "name.0"}), json!({"var": "tags.0.-1"}), json!({"map": [{"var": "tags"}, {"var": 0}]})] {
            ctx.edge();
            ctx.check("map:long-rows:records", &json!({"map": [{"var": "recs"}, b]}), &dd);
        }
        ctx.check("reduce:long-rows", &json!({"reduce": [{"var": "rows"}, {"cat": [{"var": "accumulator"}, {"var": "current.0"}, {"var": "current.-1"}]}, ""]}), &dd);
        ctx.check("reduce:long-rows:acc-index", &json!({"reduce": [{"var": "rows"}, {"cat": [{"var": "accumulator.0"}, {"var": "current"}]}, ""]}), &dd);
    }
    // the accumulator passes through every edge value in the middle of a fold (null, false, 0, "", [], {}): a
    // step that keeps the accumulator must hand exactly that value on - null is a value, not "not yet seeded"
    {
        let keep = json!({"if": [{"===": [{"var": "current"}, "KEEP"]}, {"var": "accumulator"}, {"var": "current"}]});
        let steps = vec![
            keep.clone(),
            json!({"and": [{"var": "accumulator"}, {"var": "current"}]}),
            json!({"or": [{"var": "current"}, {"var": "accumulator"}]}),
            json!({"var": ["current.x", {"var": "accumulator"}]}),
            json!({"if": [{"var": "current"}, {"var": "current"}, {"var": "accumulator"}]}),
        ];
        for x in [json!(null), json!(false), json!(0), json!(""), json!([]), json!({}), json!(-0.0), json!("v")] {
            if !ctx.mine() {
                continue;
            }
            for coll in [json!([x, "KEEP"]), json!([1, x, "KEEP", "KEEP"]), json!(["KEEP", x, "KEEP", 2]), json!([x, x]), json!([1, x, 2])] {
                for st in &steps {
                    for init in [json!("INIT"), json!({"var": "seed"}), json!(null), json!(7)] {
                        ctx.edge();
                        ctx.check("reduce:accumulator-passes-through", &json!({"reduce": [{"var": "c"}, st, init]}), &json!({"c": coll, "seed": "SEED"}));
                    }
                }
            }
        }
    }
    // null and non-array collections
    if ctx.mine() {
        let noncolls = vec![json!(null), json!("abc"), json!(5), json!(true), json!({}), json!({"a": 1}), json!(""), json!(0), json!(false)];
        for nc in &noncolls {
            let mut dv = out.clone();
            dv["coll"] = nc.clone();
            for (coll, data) in [(nc.clone(), out.clone()), (json!({"var": "coll"}), dv.clone()), (json!({"var": "nope"}), dv.clone())] {
                if al::is_operation_shaped(&coll) && coll.get("var").is_none() {
                    continue;
                }
                for e in [json!({"var": ""}), json!(1), json!({"+": ["x"]}), json!({"log": "never"})] {
                    ctx.edge();
                    ctx.check("map:noncoll", &op("map", vec![coll.clone(), e.clone()]), &data);
                    ctx.check("filter:noncoll", &op("filter", vec![coll.clone(), e.clone()]), &data);
                    ctx.check("reduce:noncoll", &op("reduce", vec![coll.clone(), e.clone(), json!("init")]), &data);
                    ctx.check("reduce:noncoll:init-log", &op("reduce", vec![coll.clone(), e.clone(), json!({"log": "I"})]), &data);
                }
            }
        }
        // nested, depth 2
        for r in [
            json!({"map": [[[1, 2], [3]], {"map": [{"var": ""}, {"*": [{"var": ""}, 2]}]}]}),
            json!({"filter": [[[1, 0], [0], []], {"filter": [{"var": ""}, {"var": ""}]}]}),
            json!({"reduce": [[[1, 2], [3, 4]], {"+": [{"var": "accumulator"}, {"reduce": [{"var": "current"}, {"+": [{"var": "current"}, {"var": "accumulator"}]}, 0]}]}, 0]}),
            json!({"map": [{"filter": [{"var": "xs"}, {">": [{"var": ""}, 1]}]}, {"cat": [{"var": ""}, "!"]}]}),
            json!({"reduce": [{"map": [{"var": "xs"}, {"*": [{"var": ""}, {"var": ""}]}]}, {"cat": [{"var": "accumulator"}, ",", {"var": "current"}]}, ""]}),
            json!({"map": [{"var": "xs"}, {"var": "xs"}]}),
            json!({"reduce": [{"var": "xs"}, {"var": "xs"}, "i"]}),
        ] {
            ctx.edge();
            ctx.check("nested", &r, &json!({"xs": [1, 2, 3]}));
        }
    }
    crate::spaces::render_probes(ctx, &["map", "filter", "reduce"]);
    crate::spaces::width_probes(ctx);
    crate::spaces::sweep::length_sweep(ctx);
    crate::spaces::nested_iteration_probes(ctx);
    crate::spaces::type_grid_probes(ctx, &["map", "filter", "reduce"]);
    crate::spaces::depth_probes(ctx);
}
