//! C05 - if / ?: / and / or select and evaluate only the deciding operands.
//!
//! Space: operand lists of length 0..6 (thorough 7) over an 8-letter alphabet {truthy literal,
//! falsy literal, truthy via var, falsy via var, poison at evaluation, poison at parse,
//! traced truthy, traced falsy}, each operand uniquely marked by its position, for the four
//! operators, x 2 data; plus one level of nested control flow in each position for length <= 3.
//! Oracle: R on the value (the operand's own value), on Ok/Err and on the *sequence* of
//! tracer lines; law: ?: and if agree on every list.

use crate::alphabet::{self as al, op};
use crate::ctx::Ctx;
use serde_json::{json, Value};

pub const LETTERS: usize = 8;

fn falsy(i: usize) -> Value {
    match i % 7 {
        0 => json!(0),
        1 => json!(""),
        2 => json!(null),
        3 => json!([]),
        4 => json!(false),
        5 => json!(-0.0),
        _ => json!(0.0),
    }
}

pub fn letter(l: usize, i: usize) -> Value {
    match l {
        // truthy literals: strings and inert containers whose content is operation-shaped (in unary
        // and in array spelling) - the selected operand is returned as written
        0 => match i % 4 {
            0 => json!(format!("T{}", i)),
            1 => json!([{"var": "t1"}, i]),
            2 => json!({"x": {"log": "LEAK"}, "y": [{"var": ["t0"]}, i]}),
            _ => json!([[{"+": "x"}], {"log": ["LEAK"], "i": i}]),
        },
        1 => falsy(i),
        // data references through every kind of path (plain key, array index, negative index, string
        // index, escaped dot, nested, integer key)
        2 => match i % 7 {
            0 => json!({"var": format!("t{}", i)}),
            1 => json!({"var": "ts.1"}),
            2 => json!({"var": "name.0"}),
            3 => json!({"var": "ts.-1"}),
            4 => json!({"var": "o.k\\.x"}),
            5 => json!({"var": ["o.deep.er"]}),
            _ => json!({"var": "name.-1"}),
        },
        3 => match i % 5 {
            0 => json!({"var": format!("f{}", i)}),
            1 => json!({"var": "fs.0"}),
            2 => json!({"var": "name.7"}),
            3 => json!({"var": "o.zero"}),
            _ => json!({"var": "fs.-1"}),
        },
        4 => json!({"+": ["x"]}),
        5 => json!({"==": []}),
        6 => json!({"log": format!("M{}", i)}),
        _ => json!({"log": [falsy(i + 1)]}),
    }
}

pub fn data_a() -> Value {
    let mut m = serde_json::Map::new();
    for i in 0..8 {
        // truthy values of every kind the table names, tiny non-zero numbers included
        let tv = match i % 8 {
            0 => json!(["tv", i]),
            1 => json!(5e-324),
            2 => json!("0"),
            3 => json!({"t": i}),
            4 => json!(1e-20),
            5 => json!(" "),
            6 => json!([0]),
            _ => json!(-1e-300),
        };
        m.insert(format!("t{}", i), tv);
        m.insert(format!("f{}", i), falsy(i + 2));
    }
    // truthy values incl. the tiniest non-zero numbers
    m.insert("ts".into(), json!(["x", 5e-324, -1e-300]));
    m.insert("fs".into(), json!([0, "", []]));
    m.insert("name".into(), json!("Bé"));
    m.insert("mk".into(), json!({"var": "t0"}));
    m.insert("mk3".into(), json!({"==": [1]}));
    m.insert("o".into(), json!({"k.x": 1e-20, "deep": {"er": [0]}, "zero": 0}));
    Value::Object(m)
}

pub fn meta(thorough: bool) -> (String, Value) {
    let maxlen = if thorough { 7 } else { 6 };
    (
        "choice tree: operator (if, ?:, and, or) -> list length -> letter for operand 1 .. n (8 letters, position-marked) -> data (marked store / null); nested: one control-flow operator inside each position for length <= 3; leaf = one apply() compared with R on value, Err-ness and the exact sequence of log lines; law if == ?:; non-trivial = R specifies the outcome; distinct = distinct (rule,data) text".into(),
        json!({"letters": LETTERS, "max_length": maxlen, "lists_per_operator": (0..=maxlen).map(|n| (LETTERS as u64).pow(n as u32)).sum::<u64>()}),
    )
}

fn lists(ctx: &mut Ctx, n: usize, prefix: &mut Vec<usize>, f: &mut dyn FnMut(&mut Ctx, &[usize])) {
    if prefix.len() == n {
        f(ctx, prefix);
        return;
    }
    for l in 0..LETTERS {
        // shard on the first two choices
        if prefix.len() == 1.min(n - 1) {
            if !ctx.mine() {
                continue;
            }
        } else {
            ctx.edge();
        }
        prefix.push(l);
        lists(ctx, n, prefix, f);
        prefix.pop();
    }
}

/// the same rule with every `if` spelled `?:`
fn rename_if(v: &Value) -> Value {
    match v {
        Value::Array(a) => Value::Array(a.iter().map(rename_if).collect()),
        Value::Object(m) => {
            let mut o = serde_json::Map::new();
            for (k, x) in m {
                o.insert(if k == "if" { "?:".to_string() } else { k.clone() }, rename_if(x));
            }
            Value::Object(o)
        }
        x => x.clone(),
    }
}

/// {"var": ""} -> {"var": "current"} (the element inside reduce)
fn rename_current(v: &Value) -> Value {
    match v {
        Value::Object(m) if m.len() == 1 && m.get("var") == Some(&json!("")) => json!({"var": "current"}),
        Value::Object(m) => Value::Object(m.iter().map(|(k, x)| (k.clone(), rename_current(x))).collect()),
        Value::Array(a) => Value::Array(a.iter().map(rename_current).collect()),
        x => x.clone(),
    }
}

pub fn run(ctx: &mut Ctx) {
    let maxlen = if ctx.tier_thorough { 7 } else { 6 };
    let da = data_a();
    let null = Value::Null;
    if ctx.mine() {
        for k in ["if", "?:", "and", "or"] {
            ctx.check(&format!("{}:0", k), &op(k, vec![]), &null);
        }
    }
    for n in 1..=maxlen {
        let mut prefix = Vec::new();
        let da = da.clone();
        lists(ctx, n, &mut prefix, &mut |ctx, ls| {
            let args: Vec<Value> = ls.iter().enumerate().map(|(i, &l)| letter(l, i)).collect();
            let uses_var = ls.iter().any(|&l| l == 2 || l == 3);
            let o_if = ctx.check("if", &op("if", args.clone()), &da);
            let o_t = ctx.check("?:", &op("?:", args.clone()), &da);
            if o_if.out != o_t.out || o_if.log != o_t.log {
                ctx.law_fail("law:if==?:", &op("?:", args.clone()), &da, o_if.show(), o_t.show());
            }
            ctx.check("and", &op("and", args.clone()), &da);
            ctx.check("or", &op("or", args.clone()), &da);
            if uses_var && n <= 5 {
                // second data: every var misses, so the var letters are all null (falsy)
                for k in ["if", "and", "or"] {
                    ctx.check(&format!("{}:null-data", k), &op(k, args.clone()), &Value::Null);
                }
            }
        });
    }
    // nested control flow in each position
    let inner: Vec<Value> = vec![
        json!({"if": [{"log": "i-c"}, {"log": "i-t"}, {"log": "i-e"}]}),
        json!({"if": [{"log": [0]}, {"log": "i-t"}, {"log": [""]}]}),
        json!({"and": [{"log": "a-1"}, {"log": [0]}, {"log": "a-3"}]}),
        json!({"or": [{"log": [0]}, {"log": "o-2"}, {"log": "o-3"}]}),
        json!({"or": [{"log": [0]}, {"log": [null]}]}),
        json!({"?:": [{"var": "f1"}, {"+": ["x"]}, {"log": "q-e"}]}),
        json!({"and": [{"var": "f1"}, {"==": []}]}),
        json!({"if": []}),
        json!({"if": [{"log": "only"}]}),
    ];
    for n in 1..=3usize {
        let mut prefix = Vec::new();
        let da = da.clone();
        let inner = inner.clone();
        lists(ctx, n, &mut prefix, &mut |ctx, ls| {
            for p in 0..n {
                for inn in &inner {
                    let mut args: Vec<Value> = ls.iter().enumerate().map(|(i, &l)| letter(l, i)).collect();
                    args[p] = inn.clone();
                    for k in ["if", "and", "or"] {
                        ctx.check(&format!("{}:nested", k), &op(k, args.clone()), &da);
                    }
                }
            }
        });
    }
    // spine trees: control flow nested three levels deep through any position, every operand count
    // 0..3 (if-only: 0..4) at every level, leaves traced and marked by their path
    {
        fn leafv(truthy: bool, path: &str) -> Value {
            if truthy { json!({"log": format!("T{}", path)}) } else { json!({"log": [if path.len() % 2 == 0 { json!(0) } else { json!("") }]}) }
        }
        // all spine trees of the given depth: (tree) built through a callback to avoid materialising
        fn spine(depth: usize, ops: &[&str], maxn: usize, path: String, out: &mut Vec<Value>) {
            // leaves
            out.push(leafv(true, &path));
            out.push(leafv(false, &path));
            if depth == 0 {
                return;
            }
            for k in ops {
                out.push(op(k, vec![]));
                for n in 1..=maxn {
                    for p in 0..n {
                        let mut subs = Vec::new();
                        spine(depth - 1, ops, maxn, format!("{}{}", path, p), &mut subs);
                        // the other positions: every truthy / falsy assignment
                        for mask in 0..(1u32 << (n - 1)) {
                            for sub in &subs {
                                let mut args = Vec::new();
                                let mut bit = 0;
                                for i in 0..n {
                                    if i == p {
                                        args.push(sub.clone());
                                    } else {
                                        args.push(leafv(mask & (1 << bit) != 0, &format!("{}{}", path, i)));
                                        bit += 1;
                                    }
                                }
                                out.push(op(k, args));
                            }
                        }
                    }
                }
            }
        }
        // the top level is sharded by (operator, count, position)
        for (ops, maxn, tag) in [(&["if", "and", "or"][..], 3usize, "mixed"), (&["if"][..], 4usize, "if-only")] {
            for k in ops {
                for n in 1..=maxn {
                    for p in 0..n {
                        if !ctx.mine() {
                            continue;
                        }
                        let mut subs = Vec::new();
                        spine(2, ops, maxn, format!("{}", p), &mut subs);
                        for mask in 0..(1u32 << (n - 1)) {
                            for sub in &subs {
                                ctx.edge();
                                let mut args = Vec::new();
                                let mut bit = 0;
                                for i in 0..n {
                                    if i == p {
                                        args.push(sub.clone());
                                    } else {
                                        args.push(leafv(mask & (1 << bit) != 0, &format!("{}", i)));
                                        bit += 1;
                                    }
                                }
                                let r = op(k, args);
                                let o1 = ctx.check(&format!("spine:{}", tag), &r, &null);
                                if tag == "if-only" {
                                    let r2 = rename_if(&r);
                                    let o2 = ctx.check("spine:?:", &r2, &null);
                                    if o1.out != o2.out || o1.log != o2.log {
                                        ctx.law_fail("law:if==?:", &r2, &null, o1.show(), o2.show());
                                    }
                                }
                            }
                        }
                    }
                }
            }
        }
    }
    // conditions read from array and string data through index keys (numeric strings, negative, integer
    // typed, out of range), directly in every deciding position
    {
        let datas = [json!([0, 1]), json!(["", 0, "x"]), json!("ab"), json!(""), json!([[], [0]]), json!({"0": 0, "1": "one", "-1": ""})];
        let conds = [json!({"var": "1"}), json!({"var": "-1"}), json!({"var": 1}), json!({"var": "0"}), json!({"var": 0}), json!({"var": "5"}), json!({"var": ["7", 0]}), json!({"var": ["7", "d"]}), json!({"var": "1.0"}), json!({"var": "0.0"})];
        for (di, d) in datas.iter().enumerate() {
            if !ctx.mine() {
                continue;
            }
            let _ = di;
            for c in &conds {
                ctx.edge();
                for r in [
                    json!({"if": [c, "then", "else"]}), json!({"?:": [c, "then", "else"]}), json!({"if": [false, "a", c, "b", "c"]}), json!({"if": [c, "then"]}), json!({"if": [c]}),
                    json!({"and": [c, "next"]}), json!({"or": [c, "next"]}), json!({"and": ["first", c]}), json!({"or": [0, c]}), json!({"!": [c]}), json!({"!!": [c]}),
                    json!({"filter": [[1, 2], c]}), json!({"all": [[[0, 1], [1, 0]], c]}), json!({"map": [[[0, 1], "ab"], {"if": [c, "then", "else"]}]}),
                ] {
                    ctx.check("index-conditions", &r, d);
                }
            }
        }
    }
    // control flow inside the per-element expression of an iteration: the unselected operand (an error at
    // evaluation, an ill-formed rule, a tracer - none of them reading the data) is still never evaluated, for
    // any number of elements; the selected one is evaluated once per element
    {
        let poisons = [json!({"in": [1, 2]}), json!({"==": []}), json!({"log": "P"}), json!({"+": ["x"]})];
        let colls = [json!([1, 1]), json!([0, 0]), json!([1, 0, 1]), json!([1]), json!([0]), json!([])];
        for p in &poisons {
            if !ctx.mine() {
                continue;
            }
            let bodies = [
                json!({"if": [{"var": ""}, "yes", p]}), json!({"if": [{"var": ""}, p, "no"]}), json!({"and": [{"var": ""}, p]}), json!({"or": [{"var": ""}, p]}),
                json!({"?:": [{"!": [{"var": ""}]}, p, {"log": "sel"}]}), json!({"if": [{"and": [{"var": ""}, p]}, "t", "f"]}), json!({"if": [{"or": [{"var": ""}, p]}, "t", "f"]}),
                json!({"cat": [{"if": [{"var": ""}, "y", p]}, "!"]}),
            ];
            for c in &colls {
                for b in &bodies {
                    ctx.edge();
                    for host in ["map", "filter", "all", "some", "none"] {
                        ctx.check("in-iteration-body:V", &op(host, vec![json!({"var": "xs"}), b.clone()]), &json!({"xs": c}));
                    }
                    ctx.check("in-iteration-body:L", &op("map", vec![c.clone(), b.clone()]), &null);
                    let rb = rename_current(b);
                    ctx.check("in-iteration-body:reduce", &json!({"reduce": [{"var": "xs"}, {"cat": [{"var": "accumulator"}, rb]}, ""]}), &json!({"xs": c}));
                }
            }
        }
    }
    // data that LOOKS like a rule, fetched by the operand that is RETURNED (then-branch, else-if branch, trailing
    // else, single operand; the deciding operand of and / or): it is returned as fetched, not evaluated again
    if ctx.mine() {
        let d = json!({"mk": {"var": "flag"}, "mk2": {"cat": ["a", "b"]}, "mk3": {"==": [1]}, "mk4": {"log": "LEAK"}, "flag": false, "t": 1});
        for m in ["mk", "mk2", "mk3", "mk4"] {
            let mv = json!({"var": m});
            for k in ["if", "?:"] {
                for r in [
                    op(k, vec![mv.clone()]),
                    op(k, vec![json!({"var": "flag"}), json!("on"), mv.clone()]),
                    op(k, vec![json!({"var": "t"}), mv.clone(), json!("off")]),
                    op(k, vec![json!({"var": "t"}), mv.clone()]),
                    op(k, vec![json!(0), json!("a"), json!({"var": "flag"}), json!("b"), mv.clone()]),
                    op(k, vec![json!(0), json!("a"), json!({"var": "t"}), mv.clone(), json!("c")]),
                    op(k, vec![mv.clone(), mv.clone(), json!("else")]),
                ] {
                    ctx.edge();
                    ctx.check("returned-operand-is-data", &r, &d);
                }
            }
            for r in [json!({"and": [mv]}), json!({"and": [1, "x", mv]}), json!({"or": [mv]}), json!({"or": [0, "", mv]}), json!({"or": [0, mv, {"+": ["x"]}]}), json!({"and": [mv, 0]}), json!({"or": [{"and": [1, mv]}, 2]})] {
                ctx.edge();
                ctx.check("returned-operand-is-data", &r, &d);
            }
        }
    }
    // size probes: long operand lists, the deciding operand at every position
    for n in al::size_classes(ctx.tier_thorough) {
        if n > 300 {
            continue;
        }
        if !ctx.mine() {
            continue;
        }
        let step = if n > 40 { n / 13 + 1 } else { 1 };
        let mut k = 0;
        while k <= n {
            ctx.edge();
            // and: truthy tracers before position k, a falsy tracer at k, poison after
            let mk = |truthy_prefix: bool| -> Vec<Value> {
                (0..n)
                    .map(|i| {
                        if i < k {
                            if truthy_prefix { json!({"log": format!("M{}", i)}) } else { json!({"log": [falsy(i)]}) }
                        } else if i == k {
                            if truthy_prefix { json!({"log": [falsy(i)]}) } else { json!({"log": format!("M{}", i)}) }
                        } else if i % 2 == 0 {
                            json!({"+": ["x"]})
                        } else {
                            json!({"==": []})
                        }
                    })
                    .collect()
            };
            ctx.check("and:size-probe", &op("and", mk(true)), &da);
            ctx.check("or:size-probe", &op("or", mk(false)), &da);
            // if: falsy conditions up to pair k, then a truthy one; values are position-marked
            let mut args: Vec<Value> = Vec::new();
            for i in 0..n {
                if i % 2 == 0 {
                    if i / 2 < k / 2 { args.push(json!({"log": [falsy(i)]})) } else if i / 2 == k / 2 { args.push(json!({"log": format!("C{}", i)})) } else { args.push(json!({"+": ["x"]})) }
                } else if i / 2 == k / 2 {
                    args.push(json!({"log": format!("V{}", i)}))
                } else {
                    args.push(json!({"==": []}))
                }
            }
            let o1 = ctx.check("if:size-probe", &op("if", args.clone()), &da);
            let o2 = ctx.check("?::size-probe", &op("?:", args.clone()), &da);
            if o1.out != o2.out || o1.log != o2.log {
                ctx.law_fail("law:if==?:", &op("?:", args), &da, o1.show(), o2.show());
            }
            k += step;
        }
    }
    // deep nesting: control flow inside control flow to depth 1..100, every level traced
    // (each level is an object plus an array: 60 levels stay within the depth of 128 that the text interfaces deliver)
    for depth in [1usize, 2, 3, 5, 8, 13, 21, 34, 55, 60] {
        if !ctx.mine() {
            continue;
        }
        for (k, fill_first, leaf) in [("and", json!({"log": "L"}), json!({"log": [0]})), ("or", json!({"log": [0]}), json!({"log": "leaf"})), ("and", json!({"log": "L"}), json!({"log": "leaf"})), ("or", json!({"log": [0]}), json!({"log": [""]}))] {
            ctx.edge();
            let mut r = leaf.clone();
            for _ in 0..depth {
                r = op(k, vec![fill_first.clone(), r, json!({"+": ["x"]})]);
            }
            ctx.check(&format!("{}:deep", k), &r, &da);
        }
        for (c, leaf) in [(json!({"log": [0]}), json!({"log": "else-leaf"})), (json!({"log": "c"}), json!({"log": "then-leaf"}))] {
            ctx.edge();
            // if in the else position / in the then position
            let mut r = leaf.clone();
            for i in 0..depth {
                r = if c["log"].is_array() { op("if", vec![c.clone(), json!({"==": []}), r]) } else { op("if", vec![c.clone(), r, json!({"log": format!("never{}", i)})]) };
            }
            let o1 = ctx.check("if:deep", &r, &da);
            let r2 = rename_if(&r);
            let o2 = ctx.check("?::deep", &r2, &da);
            if o1.out != o2.out || o1.log != o2.log {
                ctx.law_fail("law:if==?:", &r2, &da, o1.show(), o2.show());
            }
        }
    }
    // bracket-less single operand and non-array operands
    if ctx.mine() {
        for r in [json!({"if": "x"}), json!({"if": 0}), json!({"and": "x"}), json!({"or": 0}), json!({"?:": {"log": "u"}}), json!({"and": {"var": "t1"}}), json!({"if": [[]]}), json!({"or": [[], [0]]}), json!({"and": [[0], []]})] {
            ctx.check("forms", &r, &da);
        }
    }
    let _ = al::v0;
    crate::spaces::render_probes(ctx, &["if", "?:", "and", "or"]);
    crate::spaces::width_probes(ctx);
    crate::spaces::sweep::length_sweep(ctx);
    crate::spaces::type_grid_probes(ctx, &["if", "?:", "and", "or"]);
}
