//! C06 - one truthiness table governs every boolean decision.
//!
//! Space: every value of V1 + N + non-ASCII sample  x  provenance channel {L literal, V via var,
//! C computed by another operator}  x  every position that tests truthiness.
//! Oracle: R (the table of the statement) + laws `! == not !!`, `none == not some`,
//! `filter` keeps x iff `!!x`.

use crate::alphabet::{self as al, op};
use crate::ctx::Ctx;
use serde_json::{json, Value};

pub fn meta(_thorough: bool) -> (String, Value) {
    (
        "choice tree: value v (V1 + N + S_uni sample + containers) -> channel (L literal / V via var / C computed by if, merge, cat, +) -> deciding position (!, !!, if cond first/second, and, or, filter, all, some, none, ?:); leaf = one apply() compared with R and with the laws; non-trivial = R specifies the outcome; distinct = distinct (rule,data) text".into(),
        json!({"values": "V1 plain + N + S_uni sample + S_num", "channels": 3, "positions": 12}),
    )
}

/// Expressions that deliver `v` to an operand position, with the data they need.
pub fn channels(v: &Value) -> Vec<(&'static str, Value, Value)> {
    let mut out = Vec::new();
    if !al::is_operation_shaped(v) {
        out.push(("L", v.clone(), json!({"pad": 1})));
    }
    out.push(("V", json!({"var": "x"}), json!({"x": v, "pad": 1})));
    // every form of var: bracketed, with a truthy / falsy / string default that a PRESENT value (even null) beats
    out.push(("V-bracketed", json!({"var": ["x"]}), json!({"x": v, "pad": 1})));
    out.push(("V-default-true", json!({"var": ["x", true]}), json!({"x": v, "pad": 1})));
    out.push(("V-default-false", json!({"var": ["x", false]}), json!({"x": v, "pad": 1})));
    out.push(("V-nested-default", json!({"var": ["o.x", "dflt"]}), json!({"o": {"x": v}, "pad": 1})));
    // computed: pass-through of a data value by `if`, and native constructions
    out.push(("C-if", json!({"if": [true, {"var": "x"}, "no"]}), json!({"x": v})));
    match v {
        Value::Array(_) => out.push(("C-merge", json!({"merge": [{"var": "x"}]}), json!({"x": v}))),
        Value::String(_) => out.push(("C-cat", json!({"cat": [{"var": "x"}]}), json!({"x": v}))),
        _ => {}
    }
    out
}

pub fn values() -> Vec<Value> {
    let mut v = al::v1();
    v.extend(al::numbers());
    v.extend(al::s_uni_sample());
    v.extend(al::s_num().into_iter().take(30));
    // non-empty strings that "look empty": every white-space / format / control character alone, and the
    // type and magnitude representatives
    v.extend(al::ws_block_strings().into_iter().skip(1).step_by(2));
    v.extend(al::type_grid());
    v.extend(al::magnitude_ladder().into_iter().step_by(5));
    al::dedup(v)
}

/// Expressions whose *computed* result is a given falsy / truthy value (operator results, not data).
pub fn computed() -> Vec<Value> {
    vec![
        json!({"-": [1, 1]}), json!({"*": [0.5, 0]}), json!({"/": [0, 5]}), json!({"%": [4, 2]}), json!({"-": [0]}), json!({"+": []}), json!({"min": [0, 1]}),
        json!({"-": [1e-300, 0]}), json!({"*": [5e-324, 1]}), json!({"/": [1, 1e300]}), json!({"+": [0.1, 0.2, -0.3]}), json!({"-": [9007199254740993u64, 9007199254740992u64]}),
        json!({"substr": ["abc", 3]}), json!({"substr": ["abc", 2]}), json!({"cat": []}), json!({"cat": [""]}), json!({"cat": [" "]}), json!({"cat": [0]}), json!({"cat": [[]]}),
        json!({"filter": [[1], false]}), json!({"filter": [[0], true]}), json!({"merge": []}), json!({"merge": [[]]}), json!({"merge": [[[]]]}), json!({"map": [[], 1]}), json!({"map": [[1], 0]}),
        json!({"missing": []}), json!({"missing": ["zz"]}), json!({"missing_some": [1, ["zz"]]}), json!({"missing_some": [0, ["zz"]]}),
        json!({"var": "nope"}), json!({"var": ["nope", 0]}), json!({"var": ["nope", "0"]}), json!({"var": ["nope", []]}), json!({"var": ["nope", [0]]}), json!({"var": ["nope", {}]}),
        json!({"==": [1, 2]}), json!({"!": [1]}), json!({"in": [1, [2]]}), json!({"all": [[], 1]}), json!({"some": [[1], 0]}), json!({"none": [[1], 1]}),
        json!({"if": [0, 1]}), json!({"if": []}), json!({"and": [1, 0]}), json!({"or": [0, ""]}), json!({"reduce": [[], 1, 0]}), json!({"reduce": [[1], {"var": "nope"}, 5]}),
        json!({"max": [0, -1]}), json!({"log": 0}), json!({"log": "0"}),
        // comparisons of incomparable operands (false both ways round: the negation is true, not the opposite comparison)
        json!({"<": ["abc", 1]}), json!({">=": ["abc", 1]}), json!({">": [{"var": "pad"}, "x"]}), json!({"<=": [[1, 2], 1]}), json!({"<": [{}, 1]}), json!({">=": [{"var": "nope"}, "a"]}),
        json!({"<": [1, "abc", 3]}), json!({"!=": [1, 1]}), json!({"!==": ["a", "a"]}), json!({"===": [[], []]}),
    ]
}

fn values_for(thorough: bool) -> Vec<Value> {
    let mut v = values();
    if thorough {
        v.extend(al::pair_corpus_thorough());
        v.extend(al::s_uni_rich(2).into_iter().map(Value::String));
        v.extend(al::decimal_strings().into_iter().step_by(7));
        v.extend(al::factor_boundaries());
        v = al::dedup(v);
    }
    v
}

pub fn run(ctx: &mut Ctx) {
    // computed operands: what the operators themselves return, in every deciding position
    for e in computed() {
        if !ctx.mine() {
            continue;
        }
        let d = json!({"pad": 1});
        for (sub, rule) in [
            ("!:computed", op("!", vec![e.clone()])), ("!!:computed", op("!!", vec![e.clone()])),
            ("if:computed", op("if", vec![e.clone(), json!("T"), json!("F")])), ("and:computed", op("and", vec![e.clone(), json!("next")])),
            ("or:computed", op("or", vec![e.clone(), json!("next")])), ("filter:computed", op("filter", vec![json!([1, 2]), e.clone()])),
            ("all:computed", op("all", vec![json!([1, 2]), e.clone()])), ("some:computed", op("some", vec![json!([1, 2]), e.clone()])),
            ("none:computed", op("none", vec![json!([1, 2]), e.clone()])), ("?::computed", op("?:", vec![json!(0), json!("x"), e.clone(), json!("T"), json!("F")])),
        ] {
            ctx.edge();
            ctx.check(sub, &rule, &d);
        }
    }
    // sizes: long strings, arrays and objects are truthy whatever they hold
    for n in al::size_classes(ctx.tier_thorough) {
        if !ctx.mine() {
            continue;
        }
        let mut m = serde_json::Map::new();
        for i in 0..n {
            m.insert(format!("k{}", i), json!(null));
        }
        for v in [json!("0".repeat(n)), json!(" ".repeat(n)), json!("\u{0}".repeat(n)), Value::Array(vec![json!(null); n]), Value::Array(vec![json!([]); n]), Value::Object(m.clone())] {
            for (_ch, e, d) in channels(&v) {
                for k in ["!", "!!"] {
                    ctx.edge();
                    ctx.check("size-probe", &op(k, vec![e.clone()]), &d);
                }
                ctx.check("size-probe", &op("if", vec![e.clone(), json!("T"), json!("F")]), &d);
                ctx.check("size-probe", &op("filter", vec![json!([1]), e.clone()]), &d);
            }
        }
    }
    for v in values_for(ctx.tier_thorough) {
        for (_ch, e, d) in channels(&v) {
            if !ctx.mine() {
                continue;
            }
            let positions: Vec<(&str, Value)> = vec![
                ("!", op("!", vec![e.clone()])),
                ("!!", op("!!", vec![e.clone()])),
                ("if-cond", op("if", vec![e.clone(), json!("T"), json!("F")])),
                ("if-cond2", op("if", vec![json!(false), json!("X"), e.clone(), json!("T"), json!("F")])),
                ("?:-cond", op("?:", vec![e.clone(), json!("T"), json!("F")])),
                // every operand count of both spellings: conditions at the odd positions, a trailing else or none
                ("?:-cond2", op("?:", vec![json!(false), json!("X"), e.clone(), json!("T"), json!("F")])),
                ("?:-cond2:no-else", op("?:", vec![json!(false), json!("X"), e.clone(), json!("T")])),
                ("if-cond2:no-else", op("if", vec![json!(0), json!("X"), e.clone(), json!("T")])),
                ("?:-cond3:no-else", op("?:", vec![json!(""), json!("X"), json!([]), json!("Y"), e.clone(), json!("T")])),
                ("if-cond:no-else", op("if", vec![e.clone(), json!("T")])),
                ("?:-cond:no-else", op("?:", vec![e.clone(), json!("T")])),
                ("?:-single", op("?:", vec![e.clone()])),
                ("and", op("and", vec![e.clone(), json!("next")])),
                ("or", op("or", vec![e.clone(), json!("next")])),
                ("and-2", op("and", vec![json!(1), e.clone(), json!("next")])),
                ("or-2", op("or", vec![json!(0), e.clone(), json!("next")])),
            ];
            for (sub, rule) in &positions {
                ctx.edge();
                ctx.check(sub, rule, &d);
            }
            // the value in the positions that are SELECTED rather than tested: what a deciding operator hands back is
            // the operand as it is (null, false, 0, "" included) - being falsy does not make a taken branch "not taken"
            for (sub, rule) in [
                ("if:then-value", op("if", vec![json!(true), e.clone(), json!("else")])), ("if:else-value", op("if", vec![json!(false), json!("then"), e.clone()])),
                ("if:elseif-value", op("if", vec![json!(0), json!("a"), json!([0]), e.clone(), json!(""), json!("c"), json!("d")])), ("if:single", op("if", vec![e.clone()])),
                ("?::then-value", op("?:", vec![json!("0"), e.clone(), json!("else")])), ("and:last", op("and", vec![json!(1), e.clone()])), ("or:last", op("or", vec![json!(0), e.clone()])),
                ("and:single", op("and", vec![e.clone()])), ("or:single", op("or", vec![e.clone()])), ("if:then-value:no-else", op("if", vec![json!([[]]), e.clone()])),
            ] {
                ctx.edge();
                ctx.check(sub, &rule, &d);
            }
            // the bracket-less spelling of every one-operand deciding form: the operand is ONE value, whatever
            // it evaluates to (an array that comes out of an expression is not an operand list)
            if !e.is_array() {
                for k in ["!", "!!", "and", "or", "if", "?:"] {
                    ctx.edge();
                    ctx.check(&format!("{}:bare", k), &al::obj1(k, e.clone()), &d);
                    ctx.check(&format!("{}:bare:nested", k), &json!({"cat": [al::obj1(k, e.clone())]}), &d);
                }
            }
            // laws
            let o1 = ctx.exec(&positions[0].1, &d);
            let o2 = ctx.exec(&positions[1].1, &d);
            if let (Some(Value::Bool(a)), Some(Value::Bool(b))) = (o1.ok(), o2.ok()) {
                if a == b {
                    ctx.law_fail("law:!=not!!", &positions[0].1, &d, "! is the negation of !!".into(), format!("! -> {}, !! -> {}", a, b));
                }
            }
        }
        // predicate positions: the value is the *predicate result* for an element
        if !ctx.mine() {
            continue;
        }
        let d = json!({"items": [{"p": v}], "pad": 1});
        let pred = json!({"var": "p"});
        let coll = json!({"var": "items"});
        let mut res = Vec::new();
        for k in ["filter", "all", "some", "none"] {
            ctx.edge();
            let rule = op(k, vec![coll.clone(), pred.clone()]);
            res.push(ctx.check(k, &rule, &d));
            // the member read with every form of var (a present member, even null, beats the default); the
            // element itself as its own verdict; a literal collection whose ELEMENT is the expression
            for pv in [json!({"var": ["p"]}), json!({"var": ["p", true]}), json!({"var": ["p", false]}), json!({"var": ["p", [0]]})] {
                ctx.check(&format!("{}:member-var-forms", k), &op(k, vec![coll.clone(), pv]), &d);
            }
            ctx.check(&format!("{}:identity", k), &op(k, vec![json!({"var": "vals"}), json!({"var": ""})]), &json!({"vals": [v]}));
            if k != "filter" {
                ctx.check(&format!("{}:literal-element:identity", k), &op(k, vec![json!([{"var": "x"}]), json!({"var": ""})]), &json!({"x": v}));
                ctx.check(&format!("{}:literal-element:identity:bracketed", k), &op(k, vec![json!([{"var": "x"}, {"var": "x"}]), json!({"var": [""]})]), &json!({"x": v}));
            }
        }
        // the same with the value as literal predicate result over a literal collection
        if !al::is_operation_shaped(&v) {
            for k in ["filter", "all", "some", "none"] {
                ctx.edge();
                let rule = op(k, vec![json!([1]), v.clone()]);
                ctx.check(k, &rule, &json!(null));
            }
        }
        let bb = op("!!", vec![json!({"var": "x"})]);
        let t = ctx.exec(&bb, &json!({"x": v}));
        if let Some(Value::Bool(t)) = t.ok() {
            if let Some(Value::Array(kept)) = res[0].ok() {
                if (kept.len() == 1) != *t {
                    ctx.law_fail("law:filter-keeps-iff-!!", &op("filter", vec![coll.clone(), pred.clone()]), &d, format!("kept iff !! = {}", t), format!("kept {}", kept.len()));
                }
            }
            if let (Some(Value::Bool(s)), Some(Value::Bool(n))) = (res[2].ok(), res[3].ok()) {
                if s == n {
                    ctx.law_fail("law:none=not-some", &op("none", vec![coll.clone(), pred.clone()]), &d, "none == not some".into(), format!("some {} none {}", s, n));
                }
            }
        }
    }
    // a truthiness test that cannot be made (its operand fails) is an error, not "falsy": every deciding
    // position with an operand that errors at evaluation or is ill-formed, over literal and computed collections
    {
        let poisons = [json!({"+": ["x"]}), json!({"in": ["a", 7]}), json!({"/": [1, 0]}), json!({"in": ["a", {"var": ""}]}), json!({"/": [1, {"var": ""}]}), json!({"==": [1]}), json!({"and": [1, {"+": ["x"]}]})];
        for p in &poisons {
            if !ctx.mine() {
                continue;
            }
            for (coll, d) in [(json!([1, "cat"]), json!(null)), (json!({"var": "xs"}), json!({"xs": [1, "cat"]})), (json!({"var": "xs"}), json!({"xs": [0]})), (json!("ab"), json!(null)), (json!({"merge": [[0], [0]]}), json!(null)), (json!({"var": "s"}), json!({"s": "ab"}))] {
                ctx.edge();
                for k in ["filter", "all", "some", "none"] {
                    ctx.check("erroring-predicate", &op(k, vec![coll.clone(), p.clone()]), &d);
                }
            }
            for r in [json!({"!": [p]}), json!({"!!": [p]}), json!({"if": [p, "t", "f"]}), json!({"and": [p, 1]}), json!({"or": [p, 1]}), json!({"if": [0, "a", p, "b", "c"]}), json!({"?:": [p, 1, 2]})] {
                ctx.check("erroring-operand", &r, &json!("data"));
            }
        }
    }
    crate::spaces::render_probes(ctx, &["!", "!!"]);
    crate::spaces::type_grid_probes(ctx, &["!", "!!", "if", "and", "or", "filter", "all", "some", "none"]);
    crate::spaces::depth_probes(ctx);    crate::spaces::sweep::length_sweep(ctx);
}
