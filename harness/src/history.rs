//! E2: explicit-state DFS over call histories; states are fork() snapshots (C17).
