//! E2: explicit-state DFS over call histories (C17). A state is a `fork()` snapshot of the
//! real process: whatever hidden memory a defect might introduce (a static cache, an
//! uncleared thread-local buffer, a lazily built table) survives into the successors exactly
//! as it would in a long-running caller, and no two snapshots are ever merged, so no
//! canonicalisation argument is needed.
//!
//! Every call of every explored history must return exactly what the same call returns as
//! the first call in a fresh snapshot of the initial state ("in isolation"), print the same
//! lines and leave its inputs untouched.

use crate::ctx::Ctx;
use crate::exec::{self, Obs};
use crate::refmodel;
use serde_json::{json, Value};
use std::io::Write;
use std::sync::atomic::{AtomicU64, Ordering};

pub fn rules() -> Vec<Value> {
    vec![
        json!({"cat": ["<", {"var": "a"}, ">"]}),
        json!({"cat": [{"cat": [{"var": "a"}, "-"]}, {"cat": ["+", {"var": "b"}]}]}),
        json!({"merge": [{"var": "xs"}, [0], {"var": "a"}]}),
        json!({"missing": ["a", "b", "zz"]}),
        json!({"missing_some": [2, ["a", "zz", "b"]]}),
        json!({"filter": [{"var": "xs"}, {">": [{"var": ""}, 1]}]}),
        json!({"filter": [{"var": "xs"}, {"some": [{"filter": [[1, 2, 3], {">=": [{"var": ""}, 2]}]}, {"==": [{"var": ""}, 2]}]}]}),
        json!({"map": [{"var": "xs"}, {"*": [{"var": ""}, 2]}]}),
        json!({"reduce": [{"var": "xs"}, {"+": [{"var": "current"}, {"var": "accumulator"}]}, 0]}),
        json!({"reduce": [{"var": "xs"}, {"cat": [{"var": "accumulator"}, {"reduce": [[1, 2], {"+": [{"var": "current"}, {"var": "accumulator"}]}, {"var": "current"}]}]}, ""]}),
        json!({"all": [{"var": "xs"}, {">": [{"var": ""}, 0]}]}),
        json!({"some": [{"var": "a"}, {"in": [{"var": ""}, "xyz"]}]}),
        json!({"substr": [{"var": "a"}, 1, 2]}),
        json!({"var": ["b.c", {"var": "a"}]}),
        json!({"+": [{"var": "n"}, "3.5", [2]]}),
        json!({"max": [{"var": "n"}, 2, "10"]}),
        json!({"if": [{"var": "b"}, {"var": "a"}, {"var": "n"}, "n", "else"]}),
        json!({"and": [{"var": "a"}, {"or": [{"var": "nope"}, {"var": "xs"}]}]}),
        json!({"log": {"var": "a"}}),
        json!({"cat": [{"log": "first"}, {"log": {"var": "n"}}]}),
        json!({"==": [{"var": "a"}, {"var": "n"}]}),
        json!({"<": [{"var": "n"}, {"var": "a"}, "9"]}),
        json!({"in": [{"var": "n"}, {"var": "xs"}]}),
        json!({"+": ["x", {"var": "n"}]}),
        // "big" variants: many operands, long strings, longer collections - code paths that
        // would own scratch buffers or size-dependent fast paths
        json!({"cat": [{"var": "a"}, "-0123456789012345678901234567890123456789012345678901234567890123456789-", {"var": "n"}, [1, null, [2]], {"var": "b"}]}),
        json!({"merge": [{"var": "xs"}, [[1], 2], {"var": "a"}, null, {"var": "xs"}, [{"var": "inert"}]]}),
        json!({"+": [{"var": "n"}, 1, "2", [3], 4.5, {"var": "n"}, "6e0"]}),
        json!({"*": [{"var": "n"}, 2, "3", [4], {"var": "n"}]}),
        json!({"max": [{"var": "n"}, 2, "10", [3], -1, 9.5]}),
        json!({"missing": ["a", "b", "zz", "b.c", "xs.0", "xs.5", "n", "yy"]}),
        json!({"missing_some": [3, ["a", "zz", "b", "yy", "xs.1", "zz"]]}),
        json!({"if": [{"var": "nope"}, 1, {"var": "b"}, 2, {"var": "a"}, 3, {"var": "n"}, 4, 5]}),
        json!({"or": [{"var": "nope"}, 0, "", {"var": "b"}, {"var": "a"}, {"var": "n"}]}),
        json!({"map": [[1, 2, 3, 4, 5, 6, 7, 8], {"cat": [{"var": ""}, ":", {"var": ""}]}]}),
        json!({"filter": [[0, 1, "", "a", null, [], [0], {}], {"var": ""}]}),
        json!({"all": [["a", "b", "c", "d", "e"], {"in": [{"var": ""}, "abcde"]}]}),
        json!({"substr": [{"cat": [{"var": "a"}, "0123456789abcdefghijklmnopqrstuvwxyzABCDEFGHIJKLMNOPQRSTUVWXYZ-é水😀"]}, -70, 66]}),
        json!({"in": [{"var": "n"}, [0, 1, 2.0, 3, 4, 5, 6, 7.0, 8, 9, "2", [2]]]}),
        json!({"var": ["xs.-1", {"var": ["b.c", {"var": "a"}]}]}),
        json!({"reduce": [[1, 2, 3, 4, 5, 6], {"merge": [{"var": "accumulator"}, [{"var": "current"}]]}, {"var": "xs"}]}),
        // indexing into strings (character tables), hits and misses, on ASCII and non-ASCII data
        json!({"var": 0}), json!({"var": [7, "none"]}), json!({"var": -1}), json!({"var": "a.1"}), json!({"var": ["a.9", {"var": "a.0"}]}),
        json!({"missing": [9, 0, "a.2", "a.-9"]}), json!({"all": [{"var": "a"}, {"!==": [{"var": ""}, "x"]}]}), json!({"substr": [{"var": "a"}, -2]}),
        json!({"cat": [{"var": "a.0"}, {"var": "a.-1"}, {"var": 1}]}), json!({"in": [{"var": "a.1"}, {"var": "a"}]}),
        // keys that share a long prefix and a length (prefix twins), and sibling lookups of both
        json!({"var": "order.shipping.address.line1"}), json!({"var": "order.shipping.address.line2"}), json!({"var": "measurement_day_a"}), json!({"var": "measurement_day_b"}),
        json!({"missing": ["order.shipping.address.line1", "order.shipping.address.line3", "measurement_day_c"]}),
        json!({"cat": [{"var": "order.shipping.address.line2"}, "|", {"var": "order.shipping.address.line1"}, "|", {"var": "measurement_day_b"}]}),
        // error and early-return paths of every family (a residue left behind on the way out)
        json!({"substr": [{"var": "xs"}, 1]}), json!({"in": [{"var": "n"}, {"var": "a"}]}), json!({"map": [{"var": "a"}, {"var": ""}]}),
        json!({"filter": [{"var": "xs"}, {"+": [{"var": ""}, "x"]}]}), json!({"reduce": [{"var": "xs"}, {"/": [{"var": "accumulator"}, 0]}, 1]}),
        json!({"missing_some": [{"var": "a"}, ["a", "b"]]}), json!({"missing": [["a", true, "b"]]}), json!({"var": [{"var": "xs"}]}),
        json!({"all": [{"var": "n"}, true]}), json!({"cat": [{"var": "a"}, {"max": [{"var": "a"}, "x"]}]}), json!({"merge": [{"var": "xs"}, {"-": ["a", 1]}]}),
        json!({"some": [{"var": "xs"}, {"==": []}]}), json!({"and": [{"var": "a"}, {"substr": [1]}]}),
    ]
}

pub fn datas() -> Vec<Value> {
    vec![
        json!({"a": "xyz", "b": {"c": "deep"}, "xs": [1, 2, 3], "n": 2}),
        json!({"a": "7", "b": null, "xs": [3, 0], "n": 7.0}),
        json!({"a": "", "xs": [], "n": "1"}),
        json!({"a": "déjà", "b": {"c": "ñu"}, "xs": ["ü", "é"], "n": -0.5,
               "order": {"shipping": {"address": {"line1": "1 Main St", "line2": "Flat 2"}}}, "measurement_day_a": "mon", "measurement_day_b": "tue"}),
        json!("añb"),
        // beyond any small-size fast path: 70 elements, 70 characters
        json!({"a": "0123456789abcdefghijklmnopqrstuvwxyzABCDEFGHIJKLMNOPQRSTUVWXYZ-é水😀+*/=", "b": {"c": "x"}, "n": 70,
               "xs": [1, 2, 3, 4, 5, 6, 7, 8, 9, 10, 11, 12, 13, 14, 15, 16, 17, 18, 19, 20, 21, 22, 23, 24, 25, 26, 27, 28, 29, 30, 31, 32, 33, 34, 35,
                      "1", "2", null, [3], {"k": 4}, 41, 42, 43, 44, 45, 46, 47, 48, 49, 50, 51, 52, 53, 54, 55, 56, 57, 58, 59, 60, 61, 62, 63, 64, 65, 66, 67, 68, 69, 70]}),
    ]
}

#[repr(C)]
struct Shared {
    states: AtomicU64,
    transitions: AtomicU64,
    leaves: AtomicU64,
    violations: AtomicU64,
    fork_failures: AtomicU64,
    max_depth: AtomicU64,
}

fn shared_block() -> &'static Shared {
    unsafe {
        let p = libc::mmap(
            std::ptr::null_mut(),
            std::mem::size_of::<Shared>(),
            libc::PROT_READ | libc::PROT_WRITE,
            libc::MAP_SHARED | libc::MAP_ANONYMOUS,
            -1,
            0,
        );
        assert!(p != libc::MAP_FAILED);
        std::ptr::write_bytes(p as *mut u8, 0, std::mem::size_of::<Shared>());
        &*(p as *const Shared)
    }
}

struct Explorer<'a> {
    /// progress word shared with the watching parent (MAP_SHARED, so forked children can bump it too)
    progress: usize,
    calls: Vec<(usize, usize)>,
    rules: Vec<Value>,
    datas: Vec<Value>,
    isolated: Vec<Obs>,
    shared: &'a Shared,
    vio_path: String,
    max_depth: usize,
}

fn same(a: &Obs, b: &Obs) -> bool {
    // error messages are not compared, only Err-ness
    let out_same = match (&a.out, &b.out) {
        (exec::Outcome::Ok(x), exec::Outcome::Ok(y)) => x == y && x.to_string() == y.to_string(),
        (exec::Outcome::Err(_), exec::Outcome::Err(_)) => true,
        _ => false,
    };
    out_same && a.log == b.log
}

impl<'a> Explorer<'a> {
    fn run_call(&self, c: usize) -> (Obs, bool) {
        let (ri, di) = self.calls[c];
        // as a real caller does: the inputs of a call are built (parsed) for it and dropped after it, so
        // heap addresses are reused from call to call - anything remembered by address goes stale
        // (values nested deeper than the text parser accepts are cloned instead)
        let (r0, d0): (Value, Value) = (
            serde_json::from_str(&self.rules[ri].to_string()).unwrap_or_else(|_| self.rules[ri].clone()),
            serde_json::from_str(&self.datas[di].to_string()).unwrap_or_else(|_| self.datas[di].clone()),
        );
        let o = exec::apply(&r0, &d0);
        let intact = r0 == self.rules[ri] && d0 == self.datas[di] && r0.to_string() == self.rules[ri].to_string() && d0.to_string() == self.datas[di].to_string();
        drop(r0);
        drop(d0);
        (o, intact)
    }

    /// Runs in a forked child: perform call `c` after `history`, compare, recurse.
    fn visit(&self, history: &mut Vec<usize>, c: usize) {
        let n = self.shared.states.fetch_add(1, Ordering::Relaxed);
        if self.progress != 0 && n % 256 == 0 {
            unsafe { std::ptr::write_volatile(self.progress as *mut u64, (1u64 << 50) + n) };
        }
        self.shared.transitions.fetch_add(1, Ordering::Relaxed);
        self.shared.leaves.fetch_add(1, Ordering::Relaxed);
        let (o, intact) = self.run_call(c);
        history.push(c);
        self.shared.max_depth.fetch_max(history.len() as u64, Ordering::Relaxed);
        if !same(&o, &self.isolated[c]) || !intact {
            self.shared.violations.fetch_add(1, Ordering::Relaxed);
            let hist: Vec<Value> = history.iter().map(|&h| json!({"rule": self.rules[self.calls[h].0], "data": self.datas[self.calls[h].1]})).collect();
            let rec = json!({
                "sub": "history",
                "case": {"history": hist},
                "expected": format!("last call as in isolation: {}{}", self.isolated[c].show(), if intact { "" } else { " and inputs untouched" }),
                "actual": format!("{}{}", o.show(), if intact { "" } else { " INPUTS MODIFIED" }),
            });
            if let Ok(mut f) = std::fs::OpenOptions::new().append(true).create(true).open(&self.vio_path) {
                let _ = writeln!(f, "{}", rec);
            }
        }
        // nothing of this call stays allocated while its successors run: the next call's inputs and
        // temporaries land where this call's were (a caller's parse - apply - drop loop)
        drop(o);
        if history.len() < self.max_depth {
            self.expand(history);
        }
        history.pop();
    }

    /// Fork one successor per call of the alphabet; each child continues the DFS on its own.
    fn expand(&self, history: &mut Vec<usize>) {
        for c in 0..self.calls.len() {
            self.fork_visit(history, c);
        }
    }

    fn fork_visit(&self, history: &mut Vec<usize>, c: usize) {
        unsafe {
            let pid = libc::fork();
            if pid < 0 {
                self.shared.fork_failures.fetch_add(1, Ordering::Relaxed);
                return;
            }
            if pid == 0 {
                let r = std::panic::catch_unwind(std::panic::AssertUnwindSafe(|| self.visit(history, c)));
                libc::_exit(if r.is_ok() { 0 } else { 3 });
            }
            let mut st: i32 = 0;
            libc::waitpid(pid, &mut st, 0);
            if !(libc::WIFEXITED(st) && libc::WEXITSTATUS(st) == 0) {
                self.shared.fork_failures.fetch_add(1, Ordering::Relaxed);
            }
        }
    }
}

/// Coercion alphabet: the same operand (through `var` and written in the rule) under every coercion
/// family - parseFloat (+ *), Number (- / % comparisons max min), truthiness, string form, membership.
/// Anything remembered about an operand by one family must not be seen by another.
pub fn coercion_rules() -> Vec<Value> {
    let a = json!({"var": "a"});
    let mut r = vec![
        json!({"+": [a, 1]}), json!({"==": [a, 12]}), json!({"*": [a, 1]}), json!({"<": [a, 13]}), json!({"-": [a, 1]}), json!({"max": [a]}),
        json!({"!": [a]}), json!({"cat": [a]}), json!({"in": [a, [12, "12px", 16, 1000]]}), json!({"/": [a, 1]}), json!({"%": [a, 5]}), json!({"min": [a, 99]}),
        json!({"!=": [a, 12]}), json!({"===": [a, 12]}), json!({"<=": [12, a]}), json!({">": [a, 11]}), json!({">=": [a, 12]}), json!({"!!": [a]}),
        json!({"+": [a]}), json!({"*": [a]}), json!({"-": [a]}), json!({"substr": [a, 1]}), json!({"max": [a, 12]}), json!({"==": [a, a]}),
    ];
    for s in ["12px", " 12 ", "0x10", "1e3"] {
        r.extend([json!({"+": [s, 1]}), json!({"==": [s, 12]}), json!({"<": [s, 13]}), json!({"-": [s, 1]}), json!({"max": [s]}), json!({"*": [s, 2]}), json!({"!=": [s, 16]}), json!({"min": [s, 1000]})]);
    }
    r
}

pub fn coercion_datas() -> Vec<Value> {
    vec![json!({"a": "12px"}), json!({"a": " 12 "}), json!({"a": "0x10"}), json!({"a": "1e3"}), json!({"a": ""}), json!({"a": "1,2"}), json!({"a": [12]}), json!({"a": "\u{661}\u{662}"})]
}

/// Path-lexer alphabet: keys that leave a path scanner in each of its states (ends in an escape
/// character, ends in a separator, starts with a separator, starts with an escape, doubled separator,
/// empty) through var / missing / missing_some, on data holding both the flat and the nested reading.
pub fn lexer_rules() -> Vec<Value> {
    let keys = ["x\\", ".a", "\\.a", "a.", "a..b", "", "a\\", "\\", ".", "a\\.b", "a.b", "q\\", "..", "b.0", "b.-1", "\\a"];
    let mut r = Vec::new();
    for k in keys {
        r.push(json!({"var": k}));
        r.push(json!({"var": [k, "dflt"]}));
        r.push(json!({"missing": [k]}));
    }
    r.push(json!({"missing_some": [1, ["x\\", ".a"]]}));
    r.push(json!({"if": [{"var": "zz\\"}, "u", {"var": ".a"}]}));
    r.push(json!({"cat": [{"var": "a\\"}, "|", {"var": "\\.a"}]}));
    r
}

pub fn lexer_datas() -> Vec<Value> {
    vec![
        json!({".a": "flat", "": {"a": "nested", "": "ee"}, "\\": {"a": "wrong"}, "a": {"": "empty-seg", "b": "ab", ".b": "a-dot-b"}, "a.b": "flat-ab", "x\\": 1, "a\\": 2, "b": "héy", "a.": "flat-a-dot"}),
        json!({"a": {"b": 1}, "b": [10, 20]}),
        json!(["zero", {"a": 1}]),
    ]
}

/// Shape twins: the same shape and the same byte lengths as each other, different contents (40-byte
/// strings): whatever is remembered about one by position, length or address is wrong for the other.
pub fn twin_datas() -> Vec<Value> {
    vec![
        json!({"a": "A--------------------------------------a", "b": {"c": "A======================================a"}, "xs": ["A--------------------------------------1", "A--------------------------------------2"], "n": 11}),
        json!({"a": "B--------------------------------------b", "b": {"c": "B======================================b"}, "xs": ["B--------------------------------------3", "B--------------------------------------4"], "n": 22}),
        json!("A--------------------------------------a"),
        json!("B--------------------------------------b"),
    ]
}

/// Long-key alphabet: paths of 33..130 bytes that have the same length and differ only at the end, only at the
/// start or only in the middle (whatever is remembered about a path by a prefix, a suffix, its length or a
/// weak hash is wrong for its twin), and key lists wider than any small-set regime with a key listed twice
/// (the reported order is the order of first mention - every time).
pub fn long_key_rules() -> Vec<Value> {
    let mut r = Vec::new();
    let pre = "customer.billing_address.contact";
    for tail in ["street", "postal"] {
        r.push(json!({"var": format!("{}.{}", pre, tail)}));
        r.push(json!({"missing": [format!("{}.{}", pre, tail), format!("{}.{}x", pre, &tail[..5])]}));
    }
    for head in ["a", "b"] {
        r.push(json!({"var": [format!("{}{}", head, ".k".repeat(32)), "dflt"]}));
    }
    let long = |mid: &str| format!("{}{}{}", "seg.".repeat(16), mid, ".seg".repeat(16));
    r.push(json!({"var": [long("mid1"), "dflt"]}));
    r.push(json!({"var": [long("mid2"), "dflt"]}));
    r.push(json!({"var": format!("{}.street", pre.replace(".", "\\."))}));
    let mut wide: Vec<Value> = (0..40).map(|i| json!(format!("k{}", i))).collect();
    wide.push(json!("k7"));
    wide.push(json!("k3"));
    r.push(json!({"missing": wide}));
    r.push(json!({"missing_some": [100, wide]}));
    r.push(json!({"missing_some": [1, wide]}));
    r.push(json!({"merge": [{"missing": wide}, {"missing": ["k39", "k38"]}]}));
    r.push(json!({"in": ["k17", {"missing": wide}]}));
    r
}

pub fn long_key_datas() -> Vec<Value> {
    let mut nest_a = json!("A-leaf");
    let mut nest_b = json!("B-leaf");
    for _ in 0..32 {
        nest_a = json!({ "k": nest_a });
        nest_b = json!({ "k": nest_b });
    }
    let mut seg1 = json!("via-mid1");
    let mut seg2 = json!("via-mid2");
    for _ in 0..16 {
        seg1 = json!({ "seg": seg1 });
        seg2 = json!({ "seg": seg2 });
    }
    let mut inner = json!({"mid1": seg1, "mid2": seg2});
    for _ in 0..16 {
        inner = json!({ "seg": inner });
    }
    vec![
        json!({"customer": {"billing_address": {"contact": {"street": "1 Main Street", "postal": "AB1 2CD"}}}, "a": nest_a, "b": nest_b, "seg": inner["seg"], "k3": 3, "unrelated": 1,
               "customer.billing_address.contact": {"street": "flat street"}}),
        json!({"customer": {"billing_address": {"contact": {"street": null, "postal": "ZZ9"}}}, "k7": 7, "k39": 39}),
    ]
}

/// Capacity alphabet: single calls that use more distinct paths / numeric strings than any bounded
/// per-thread table holds (70, 300), and small calls that use the first and last of them again.
pub fn capacity_rules() -> Vec<Value> {
    let lookups = |n: usize| -> Vec<Value> { (0..n).map(|i| json!({"var": format!("k{}.v", i)})).collect() };
    let strs = |n: usize| -> Vec<Value> { (0..n).map(|i| json!(format!("{}.5", i))).collect() };
    vec![
        json!({"merge": lookups(70)}),
        json!({"merge": lookups(300)}),
        json!({"var": "k0.v"}),
        json!({"var": "k1.v"}),
        json!({"var": "k69.v"}),
        json!({"var": ["k299.v", "dflt"]}),
        json!({"missing": ["k0.v", "k0.zz", "k299.v"]}),
        json!({"+": strs(70)}),
        json!({"max": strs(300)}),
        json!({"+": ["0.5", 1]}),
        json!({"==": ["0.5", 0.5]}),
        json!({"<": ["299.5", "3"]}),
        json!({"map": [{"var": "rows"}, {"var": [{"cat": ["k", {"var": ""}, ".v"]}]}]}),
    ]
}

pub fn capacity_datas() -> Vec<Value> {
    let mut m = serde_json::Map::new();
    for i in 0..300 {
        m.insert(format!("k{}", i), json!({"v": i}));
    }
    m.insert("rows".into(), json!([0, 1, 2]));
    vec![Value::Object(m)]
}

/// Error-exit alphabet: rules that fail (at parse time: a wrong operand count; at evaluation time: a
/// non-numeric operand) at nesting depth 1, 10, 60 and 120, under eager, lazy and iterating wrappers, and
/// well-formed rules of the same depths: whatever a failing call leaves behind on its way out (a depth
/// counter, a budget, a scratch stack) is met by the next call.
pub fn error_exit_rules() -> Vec<Value> {
    let wrap = |k: &str, depth: usize, leaf: Value| -> Value {
        let mut v = leaf;
        for _ in 0..depth {
            // the bracket-less spelling costs one JSON level per operator, so that 120 levels stay within what
            // the text interfaces (and the replay files) can carry
            v = match k {
                "map" => json!({"reduce": [{"map": [[1], v]}, {"var": "current"}, 0]}),
                _ => json!({ k: v }),
            };
        }
        v
    };
    let mut r = Vec::new();
    for depth in [1usize, 10, 60, 120] {
        for k in ["cat", "!", "if", "and"] {
            r.push(wrap(k, depth, json!({"==": [1]})));
            r.push(wrap(k, depth, json!({"+": ["x"]})));
            r.push(wrap(k, depth, json!({"var": "a"})));
        }
    }
    for depth in [1usize, 10, 40] {
        r.push(wrap("map", depth, json!({"==": [1]})));
        r.push(wrap("map", depth, json!({"var": ""})));
    }
    r.push(json!({"var": "a"}));
    r.push(json!({"+": [{"var": "a"}, 1]}));
    // every iterating / accumulating family failing PART-WAY (at the second element, character or operand),
    // and its well-formed siblings over strings and arrays of the same and of other sizes
    let fail_num = json!({"/": [1, {"-": [{"var": ""}, 2]}]}); // fails at the element 2
    let fail_chr = json!({"+": [{"var": ""}]}); // fails at the first non-digit character
    for k in ["all", "some", "none", "map", "filter"] {
        r.push(json!({k: [{"var": "xs"}, fail_num]}));
        r.push(json!({k: [{"var": "serial"}, fail_chr]}));
        r.push(json!({k: [{"var": "code"}, {"===": [{"var": ""}, "7"]}]}));
        r.push(json!({k: [{"var": "xs"}, {">": [{"var": ""}, 0]}]}));
        r.push(json!({k: ["", true]}));
    }
    r.push(json!({"reduce": [{"var": "xs"}, {"/": [{"var": "accumulator"}, {"-": [{"var": "current"}, 2]}]}, 1]}));
    r.push(json!({"reduce": [{"var": "xs"}, {"+": [{"var": "accumulator"}, {"var": "current"}]}, 0]}));
    r.push(json!({"cat": [{"var": "code"}, {"+": ["x"]}, "tail"]}));
    r.push(json!({"cat": [{"var": "code"}, "-", {"var": "serial"}]}));
    r.push(json!({"merge": [{"var": "xs"}, {"-": ["a", 1]}, [9]]}));
    r.push(json!({"merge": [{"var": "xs"}, [9]]}));
    r.push(json!({"+": [1, "2", "x", 4]}));
    r.push(json!({"max": [1, [2], {}, 4]}));
    r.push(json!({"missing": ["a", ["b"], "c"]}));
    r.push(json!({"missing": ["a", "b", "c"]}));
    r.push(json!({"substr": [{"var": "code"}, "x"]}));
    r.push(json!({"substr": [{"var": "serial"}, 1]}));
    r.push(json!({"in": ["7", {"var": "xs"}]}));
    r.push(json!({"in": [{"var": "a"}, 4]}));
    r
}

pub fn error_exit_datas() -> Vec<Value> {
    vec![json!({"a": 4, "xs": [1, 2, 3], "code": "777", "serial": "12a"})]
}

/// Tracer alphabet: every operator with each operand wrapped in a uniquely marked `log` - each isolated
/// outcome is judged against the reference (value and the exact lines: one line per evaluated log), and
/// every history must reproduce it.
pub fn tracer_rules() -> Vec<Value> {
    let mut r = Vec::new();
    for k in crate::refmodel::OPS {
        for n in 1..=3usize {
            if !crate::refmodel::arity_ok(k, n) {
                continue;
            }
            let args: Vec<Value> = crate::spaces::c03::benign(k, n).iter().enumerate().map(|(i, x)| json!({"if": [{"log": format!("M{}", i)}, x, "unreachable"]})).collect();
            r.push(json!({ k: args }));
        }
    }
    r.push(json!({"<": [1, {"log": 2}, 3]}));
    r.push(json!({"<=": [0, {"log": {"var": "a"}}, 100]}));
    r.push(json!({">=": [9, {"+": [{"log": 4}, 1]}, 7]}));
    r.push(json!({"<": [5, {"log": 2}, 3]}));
    r
}

pub fn run(ctx: &mut Ctx) {
    run_alphabet(ctx, "tracer", tracer_rules(), error_exit_datas(), 30, 1);
    run_alphabet(ctx, "error-exit", error_exit_rules(), error_exit_datas(), 40, 1);
    run_alphabet(ctx, "capacity", capacity_rules(), capacity_datas(), 13, 1);
    run_alphabet(ctx, "long-keys", long_key_rules(), long_key_datas(), 16, 2);
    run_alphabet(ctx, "twins", rules(), twin_datas(), 40, 2);
    run_alphabet(ctx, "lexer", lexer_rules(), lexer_datas(), 24, 2);
    run_alphabet(ctx, "main", rules(), datas(), 40, 3);
    run_alphabet(ctx, "coercion", coercion_rules(), coercion_datas(), 12, 4);
}

fn run_alphabet(ctx: &mut Ctx, tag: &str, rules: Vec<Value>, datas: Vec<Value>, core_rule_count: usize, core_data_count: usize) {
    let mut calls = Vec::new();
    for ri in 0..rules.len() {
        for di in 0..datas.len() {
            calls.push((ri, di));
        }
    }
    let shared = shared_block();
    let vio_path = std::env::temp_dir().join(format!("jlmc-hist-{}-{}-{}.jsonl", std::process::id(), ctx.shard, tag)).to_string_lossy().to_string();
    let _ = std::fs::remove_file(&vio_path);
    // the isolated outcome of every call: first call in a fresh snapshot of the initial state
    let mut isolated: Vec<Obs> = Vec::new();
    for &(ri, di) in &calls {
        // the snapshot is taken by a pipe-reporting child so that the root stays pristine
        let mut fds = [0i32; 2];
        unsafe {
            libc::pipe(fds.as_mut_ptr());
            let pid = libc::fork();
            if pid == 0 {
                libc::close(fds[0]);
                let o = exec::apply(&rules[ri], &datas[di]);
                let msg = match &o.out {
                    exec::Outcome::Ok(v) => json!({"ok": v, "log": o.log}),
                    exec::Outcome::Err(e) => json!({"err": e, "log": o.log}),
                    exec::Outcome::Panic(m, l) => json!({"panic": [m, l], "log": o.log}),
                }
                .to_string();
                libc::write(fds[1], msg.as_ptr() as *const libc::c_void, msg.len());
                libc::_exit(0);
            }
            libc::close(fds[1]);
            let mut buf = Vec::new();
            let mut chunk = [0u8; 4096];
            loop {
                let n = libc::read(fds[0], chunk.as_mut_ptr() as *mut libc::c_void, chunk.len());
                if n <= 0 {
                    break;
                }
                buf.extend_from_slice(&chunk[..n as usize]);
            }
            libc::close(fds[0]);
            let mut st = 0;
            libc::waitpid(pid, &mut st, 0);
            let v: Value = serde_json::from_slice(&buf).unwrap_or(json!({"panic": ["snapshot child died", "-"], "log": []}));
            let log: Vec<String> = v["log"].as_array().map(|a| a.iter().map(|x| x.as_str().unwrap_or("").to_string()).collect()).unwrap_or_default();
            let out = if let Some(x) = v.get("ok") {
                exec::Outcome::Ok(x.clone())
            } else if let Some(e) = v.get("err") {
                exec::Outcome::Err(e.as_str().unwrap_or("").to_string())
            } else {
                exec::Outcome::Panic(v["panic"][0].as_str().unwrap_or("").into(), v["panic"][1].as_str().unwrap_or("").into())
            };
            isolated.push(Obs { out, log });
        }
    }
    // the isolated outcomes are themselves what the properties say (diff R), so that
    // "always wrong in the same way" cannot hide behind the differential oracle
    if ctx.shard == 0 {
        for (i, &(ri, di)) in calls.iter().enumerate() {
            let (exp, tr) = refmodel::reference(&rules[ri], &datas[di]);
            ctx.judge("history:isolated", &rules[ri], &datas[di], &isolated[i], &exp, &tr, true);
        }
    }
    // all histories of depth 2 over the whole alphabet; in the thorough tier additionally all histories
    // of depth 3 over the core alphabet (the first 40 rules x the first 3 data)
    let max_depth = 2;
    let core_rules = core_rule_count.min(rules.len());
    let core: Vec<usize> = calls.iter().enumerate().filter(|(_, (ri, di))| *ri < core_rules && *di < core_data_count).map(|(i, _)| i).collect();
    let mut ex = Explorer { progress: ctx.progress_addr(), calls: calls.clone(), rules, datas, isolated, shared, vio_path: vio_path.clone(), max_depth };
    let mut history = Vec::with_capacity(8);
    for c in 0..calls.len() {
        if !ctx.mine() {
            continue;
        }
        ctx.tick_external(&json!({"history_alphabet": tag, "history_first_call": c}));
        ex.fork_visit(&mut history, c);
    }
    if ctx.tier_thorough {
        // restrict the alphabet to the core calls and go one level deeper
        let core_calls: Vec<(usize, usize)> = core.iter().map(|&i| calls[i]).collect();
        let core_iso: Vec<Obs> = core.iter().map(|&i| ex.isolated[i].clone()).collect();
        ex.calls = core_calls;
        ex.isolated = core_iso;
        ex.max_depth = 3;
        for c in 0..ex.calls.len() {
            if !ctx.mine() {
                continue;
            }
            ctx.tick_external(&json!({"history_alphabet": tag, "history_first_call_core": c}));
            ex.fork_visit(&mut history, c);
        }
    }
    ctx.states += shared.states.load(Ordering::Relaxed);
    ctx.transitions += shared.transitions.load(Ordering::Relaxed);
    ctx.leaves += shared.leaves.load(Ordering::Relaxed);
    ctx.evaluations += shared.leaves.load(Ordering::Relaxed);
    *ctx.subspaces.entry(format!("history:{}:call-after-history", tag)).or_insert(0) += shared.leaves.load(Ordering::Relaxed);
    add_extra(ctx, "history_snapshots", shared.states.load(Ordering::Relaxed));
    add_extra(ctx, "history_fork_failures", shared.fork_failures.load(Ordering::Relaxed));
    ctx.extra.insert("history_max_depth".into(), json!(if ctx.tier_thorough { 3 } else { 2 }));
    ctx.extra.insert(format!("history_{}_core_alphabet_calls_depth3", tag), json!(core.len()));
    ctx.extra.insert(format!("history_{}_alphabet_calls", tag), json!(calls.len()));
    if shared.fork_failures.load(Ordering::Relaxed) > 0 {
        ctx.fail("history:machinery", json!({"fork_failures": shared.fork_failures.load(Ordering::Relaxed)}), "every snapshot child exits normally".into(), "PANIC-like: a snapshot child died or fork failed".into(), None);
    }
    let mut reported = 0u64;
    if let Ok(txt) = std::fs::read_to_string(&vio_path) {
        for line in txt.lines() {
            match serde_json::from_str::<Value>(line) {
                Ok(v) => ctx.fail("history", v["case"].clone(), v["expected"].as_str().unwrap_or("").into(), v["actual"].as_str().unwrap_or("").into(), None),
                // a record that cannot be read back (a rule nested deeper than the parser accepts) is still a violation
                Err(_) => ctx.fail("history", json!({"history_text": line.chars().take(4000).collect::<String>()}), "last call as in isolation".into(), "differs (record too deeply nested to re-read)".into(), None),
            }
            reported += 1;
        }
    }
    if reported != shared.violations.load(Ordering::Relaxed) {
        ctx.fail("history:machinery", json!({"violations_counted": shared.violations.load(Ordering::Relaxed), "violations_recorded": reported}), "every counted violation is recorded".into(), "PANIC-like: violation records were lost".into(), None);
    }
    let _ = std::fs::remove_file(&vio_path);
    // every history is a distinct non-trivial case: count them by position hash
    let n = shared.leaves.load(Ordering::Relaxed);
    for i in 0..n.min(5_000_000) {
        ctx.nontrivial.insert(crate::ctx::hash_str(&format!("hist-{}-{}-{}", tag, ctx.shard, i)));
    }
    ctx.sample_force(json!({"history": [{"rule": ex.rules[0], "data": ex.datas[0]}, {"rule": ex.rules[0], "data": ex.datas[ex.datas.len() - 1]}], "oracle": "each call == its isolated outcome (value, Err-ness, log lines, inputs intact)"}));
}

pub fn add_extra(ctx: &mut Ctx, key: &str, n: u64) {
    let cur = ctx.extra.get(key).and_then(|v| v.as_u64()).unwrap_or(0);
    ctx.extra.insert(key.to_string(), json!(cur + n));
}

/// Replay of a recorded history without the explorer.
pub fn replay(rec: &Value) -> i32 {
    let hist = rec["case"]["history"].as_array().cloned().unwrap_or_default();
    let saved = exec::capture_stdout();
    let mut lines = Vec::new();
    let mut last = None;
    for (i, h) in hist.iter().enumerate() {
        // as in the explorer: inputs built for the call and dropped after it
        let (r0, d0): (Value, Value) = (serde_json::from_str(&h["rule"].to_string()).unwrap_or_else(|_| h["rule"].clone()), serde_json::from_str(&h["data"].to_string()).unwrap_or_else(|_| h["data"].clone()));
        let o = exec::apply(&r0, &d0);
        drop(r0);
        drop(d0);
        lines.push(format!("call {}: {} on {} -> {}", i + 1, h["rule"], h["data"], o.show()));
        last = Some((h.clone(), o));
    }
    unsafe {
        libc::dup2(saved, 1);
    }
    for l in lines {
        println!("{}", l);
    }
    if let Some((h, o)) = last {
        // the isolated outcome: a fresh process would be needed; R stands in for it here
        let (exp, tr) = refmodel::reference(&h["rule"], &h["data"]);
        println!("reference for the last call: {} log={:?}", exp.show(), tr.lines);
        let mut c = Ctx::new("C17", false, "replay", 0, 1, 0);
        c.judge("replay", &h["rule"], &h["data"], &o, &exp, &tr, true);
        if c.violation_count > 0 {
            println!("VIOLATION property=C17 (history replay)");
            return 1;
        }
    }
    0
}
