//! The thread bodies of the C17 schedule harness, free-running (no token, no hand-offs that
//! would act as happens-before edges and blind a race detector). Meant for
//! `cargo +nightly miri run`: miri's data-race detector and borrow checker (Stacked Borrows)
//! watch every access of the real code while two or three threads evaluate shared
//! `Arc<Value>` inputs. A detected race or UB aborts with miri's report; results are also
//! compared with the single-threaded ones.
use serde_json::{json, Value};
use std::sync::Arc;

fn main() {
    let d1 = Arc::new(json!({"a": "xyz", "xs": [1, 2, 3], "n": 2, "b": {"c": "deep"}}));
    let d2 = Arc::new(json!({"a": "7", "xs": [3, 0], "n": 7.0}));
    let rules: Vec<Arc<Value>> = vec![
        json!({"filter": [{"var": "xs"}, {">": [{"var": ""}, 1]}]}),
        json!({"cat": ["<", {"var": "a"}, ">", {"var": "n"}]}),
        json!({"reduce": [{"var": "xs"}, {"+": [{"var": "current"}, {"var": "accumulator"}]}, 0]}),
        json!({"missing_some": [2, ["a", "zz", "n"]]}),
        json!({"if": [{"and": [{"var": "a"}, {"or": [{"var": "nope"}, {"var": "n"}]}]}, {"var": "a"}, "else"]}),
        json!({"all": [{"var": "xs"}, {">": [{"var": ""}, 0]}]}),
        json!({"substr": [{"var": "a"}, 1, 1]}),
        json!({"+": [{"var": "n"}, "3.5", [2]]}),
        json!({"in": [{"var": "n"}, {"var": "xs"}]}),
        json!({"==": [{"var": "a"}, {"var": "n"}]}),
    ]
    .into_iter()
    .map(Arc::new)
    .collect();
    let mut calls = 0;
    for round in 0..2 {
        let expected: Vec<(String, String)> = rules
            .iter()
            .map(|r| (format!("{:?}", jsonlogic_rs::apply(r, &d1).ok()), format!("{:?}", jsonlogic_rs::apply(r, &d2).ok())))
            .collect();
        let mut hs = Vec::new();
        for t in 0..3usize {
            let (rules, d1, d2, expected) = (rules.clone(), d1.clone(), d2.clone(), expected.clone());
            hs.push(std::thread::spawn(move || {
                let mut n = 0;
                for i in 0..rules.len() {
                    let k = (i + t + round) % rules.len();
                    let a = format!("{:?}", jsonlogic_rs::apply(&rules[k], &d1).ok());
                    let b = format!("{:?}", jsonlogic_rs::apply(&rules[k], &d2).ok());
                    assert_eq!((a, b), expected[k].clone(), "thread {} call {} differs from the single-threaded result", t, i);
                    n += 2;
                }
                n
            }));
        }
        for h in hs {
            calls += h.join().unwrap();
        }
    }
    eprintln!("MIRI-FREE-RUN ok: {} concurrent calls on shared inputs, no data race / UB reported", calls);
}
